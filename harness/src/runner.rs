//! Generic property runner: proptest-driven generation + shrinking from a binary, parallel workers,
//! evidence files, replay files, known-findings handling.
//!
//! Exit codes: 0 = property held on everything explored (open known findings are reported as
//! `KNOWN-FINDING:` lines), 1 = violation not listed in known_findings.json (prints
//! `VIOLATION property=<id> replay=<path>`), 2 = inconclusive (hang watchdog, degenerate generator,
//! harness-internal error) — never a violation.

/// The code under test println!s (role changes, snapshots). At start-up the real stdout is saved and fd 1
/// is pointed at /dev/null; verdict lines go through `outln!` to the saved descriptor.
pub static OUT_FD: std::sync::atomic::AtomicI32 = std::sync::atomic::AtomicI32::new(1);
pub fn silence_stdout() {
    unsafe {
        let saved = libc::dup(1);
        let devnull = libc::open(b"/dev/null\0".as_ptr() as *const libc::c_char, libc::O_WRONLY);
        if saved >= 0 && devnull >= 0 {
            libc::dup2(devnull, 1);
            libc::close(devnull);
            OUT_FD.store(saved, std::sync::atomic::Ordering::SeqCst);
        }
    }
}
pub fn out_write(s: &str) {
    let fd = OUT_FD.load(std::sync::atomic::Ordering::SeqCst);
    let bytes = s.as_bytes();
    let mut off = 0;
    while off < bytes.len() {
        let n = unsafe { libc::write(fd, bytes[off..].as_ptr() as *const libc::c_void, bytes.len() - off) };
        if n <= 0 {
            break;
        }
        off += n as usize;
    }
}
#[macro_export]
macro_rules! outln {
    ($($arg:tt)*) => {{
        let mut s = format!($($arg)*);
        s.push('\n');
        $crate::runner::out_write(&s);
    }};
}

use std::collections::{BTreeMap, HashSet};
use std::fmt::Debug;
use std::hash::{Hash, Hasher};
use std::path::{Path, PathBuf};
use std::sync::atomic::{AtomicBool, AtomicU64, Ordering};
use std::sync::{Arc, Mutex};
use std::time::{Duration, Instant};

use proptest::strategy::{BoxedStrategy, Strategy, ValueTree};
use proptest::test_runner::{Config, RngAlgorithm, RngSeed, TestCaseError, TestError, TestRng, TestRunner};
use serde::de::DeserializeOwned;
use serde::Serialize;
use serde_json::{json, Value};

#[derive(Clone, Copy, Debug, PartialEq, Eq)]
pub enum Tier {
    Quick,
    Thorough,
}
impl Tier {
    pub fn name(&self) -> &'static str {
        match self {
            Tier::Quick => "quick",
            Tier::Thorough => "thorough",
        }
    }
}

#[derive(Clone, Debug)]
pub struct Violation {
    /// Root-cause signature (property id + classifier), used to match known_findings.json.
    pub signature: String,
    /// Human readable description of what failed.
    pub detail: String,
    /// Optional recorded trace of the violating execution (JSON). Stored next to the replay file so the
    /// verdict can be re-judged even when re-execution takes a different path (see DESIGN.md §7).
    pub artifact: Option<String>,
}

#[derive(Clone, Debug, Default)]
pub struct Outcome {
    pub violation: Option<Violation>,
    /// Classification labels for the label histogram.
    pub labels: Vec<String>,
    /// Non-trivial by the check's stated rule.
    pub nontrivial: bool,
    /// Hash of the behaviour-relevant part of the case/trace (distinctness of non-trivial cases).
    pub fingerprint: u64,
    /// Free-form numbers a check wants summed into evidence (e.g. crash points enumerated).
    pub counters: Vec<(String, u64)>,
}

impl Outcome {
    pub fn ok() -> Self {
        Outcome::default()
    }
    pub fn label(mut self, l: impl Into<String>) -> Self {
        self.labels.push(l.into());
        self
    }
    pub fn add_label(&mut self, l: impl Into<String>) {
        self.labels.push(l.into());
    }
    pub fn count(&mut self, k: &str, n: u64) {
        self.counters.push((k.to_string(), n));
    }
    pub fn violate(&mut self, signature: impl Into<String>, detail: impl Into<String>) {
        if self.violation.is_none() {
            self.violation = Some(Violation {
                signature: signature.into(),
                detail: detail.into(),
                artifact: None,
            });
        }
    }
}

pub fn fp<T: Hash>(t: &T) -> u64 {
    let mut h = std::collections::hash_map::DefaultHasher::new();
    t.hash(&mut h);
    h.finish()
}

/// One property check.
pub trait Check: Send + Sync + 'static {
    type Case: Debug + Clone + Serialize + DeserializeOwned + Send + 'static;

    fn id(&self) -> &'static str;
    /// "exploration" | "fault_enumeration"
    fn level(&self) -> &'static str {
        "exploration"
    }
    fn rule(&self) -> String;
    fn assumptions(&self) -> Vec<String>;
    fn cases(&self, tier: Tier) -> u32;
    fn strategy(&self, tier: Tier) -> BoxedStrategy<Self::Case>;
    /// Runs one case to a verdict. Must be a pure function of (tree, case).
    fn run(&self, case: &Self::Case) -> Outcome;
    /// Labels whose frequency must be >= 5% or the run is declared degenerate (exit 2).
    fn required_labels(&self) -> Vec<&'static str> {
        vec![]
    }
    /// wall-clock limit per case before the watchdog declares a hang (exit 2)
    fn case_timeout(&self) -> Duration {
        Duration::from_secs(120)
    }
    fn workers(&self) -> usize {
        16
    }
    fn max_shrink_iters(&self) -> u32 {
        400
    }
    /// Extra fixed cases (hand-written regression inputs) run before generation.
    fn fixed_cases(&self) -> Vec<Self::Case> {
        vec![]
    }
}

#[derive(Clone, Debug, serde::Deserialize, serde::Serialize)]
pub struct KnownFinding {
    pub property: String,
    pub signature: String,
    pub what_fails: String,
    #[serde(default)]
    pub repro: Option<String>,
    /// "open" | "fixed"
    pub status: String,
    #[serde(default)]
    pub commit: Option<String>,
}

pub fn verif_root() -> PathBuf {
    std::env::var("VERIF_ROOT").map(PathBuf::from).unwrap_or_else(|_| PathBuf::from("/verif"))
}

pub fn load_known_findings() -> Vec<KnownFinding> {
    let p = verif_root().join("known_findings.json");
    match std::fs::read_to_string(&p) {
        Ok(s) => {
            let v: Value = serde_json::from_str(&s).expect("known_findings.json must parse");
            serde_json::from_value(v["findings"].clone()).expect("known_findings.json findings[]")
        }
        Err(_) => vec![],
    }
}

pub struct RunArgs {
    pub tier: Tier,
    pub seed: u64,
    pub replay: Option<PathBuf>,
    pub cases_override: Option<u32>,
    /// Treat known findings as violations (used for replay and for seeded-mutation experiments).
    pub strict: bool,
}

struct Shared {
    evaluations: AtomicU64,
    nontrivial_total: AtomicU64,
    distinct: Mutex<HashSet<u64>>,
    labels: Mutex<BTreeMap<String, u64>>,
    counters: Mutex<BTreeMap<String, u64>>,
    samples: Mutex<Vec<Value>>,
    nt_samples: Mutex<Vec<Value>>,
    known_hits: Mutex<BTreeMap<String, (u64, Option<Value>)>>,
    stop: AtomicBool,
}

fn matches_known<'a>(known: &'a [KnownFinding], id: &str, sig: &str) -> Option<&'a KnownFinding> {
    known.iter().find(|k| k.property == id && k.status == "open" && k.signature == sig)
}

/// Runs a check end-to-end; returns the process exit code.
pub fn run_check<C: Check>(check: C, args: RunArgs) -> i32 {
    let id = check.id();
    let known_all = load_known_findings();
    let known: Vec<KnownFinding> = known_all.iter().filter(|k| k.property == id).cloned().collect();
    let t0 = Instant::now();

    if let Some(path) = &args.replay {
        let s = std::fs::read_to_string(path).unwrap_or_else(|e| {
            eprintln!("cannot read replay {path:?}: {e}");
            std::process::exit(2)
        });
        let v: Value = serde_json::from_str(&s).expect("replay json");
        let case: C::Case = serde_json::from_value(v.get("case").cloned().unwrap_or(v.clone()))
            .expect("replay file does not decode into this check's Case type");
        let out = check.run(&case);
        return match out.violation {
            Some(v) => {
                crate::outln!("replay: violation signature={} detail={}", v.signature, v.detail);
                crate::outln!("VIOLATION property={} replay={}", id, path.display());
                1
            }
            None => {
                crate::outln!("replay: property held on {}", path.display());
                0
            }
        };
    }

    let check = Arc::new(check);
    let shared = Arc::new(Shared {
        evaluations: AtomicU64::new(0),
        nontrivial_total: AtomicU64::new(0),
        distinct: Mutex::new(HashSet::new()),
        labels: Mutex::new(BTreeMap::new()),
        counters: Mutex::new(BTreeMap::new()),
        samples: Mutex::new(vec![]),
        nt_samples: Mutex::new(vec![]),
        known_hits: Mutex::new(BTreeMap::new()),
        stop: AtomicBool::new(false),
    });

    // ---- watchdog -------------------------------------------------------------------------
    let workers = check.workers().max(1);
    let case_started: Arc<Vec<AtomicU64>> = Arc::new((0..workers + 1).map(|_| AtomicU64::new(0)).collect());
    let epoch = Instant::now();
    {
        let case_started = case_started.clone();
        let limit = check.case_timeout();
        let id = id.to_string();
        std::thread::spawn(move || loop {
            std::thread::sleep(Duration::from_millis(500));
            let now = epoch.elapsed().as_millis() as u64;
            for (w, slot) in case_started.iter().enumerate() {
                let st = slot.load(Ordering::Relaxed);
                if st != 0 && now.saturating_sub(st) > limit.as_millis() as u64 {
                    crate::outln!(
                        "INCONCLUSIVE property={id} worker={w}: a case exceeded the {}s wall-clock watchdog (hang) — exit 2",
                        limit.as_secs()
                    );
                    std::process::exit(2);
                }
            }
        });
    }

    let strict = args.strict;
    let eval = {
        let check = check.clone();
        let shared = shared.clone();
        let known = known.clone();
        let case_started = case_started.clone();
        move |w: usize, case: &C::Case, counting: bool| -> Result<(), Violation> {
            case_started[w].store((epoch.elapsed().as_millis() as u64).max(1), Ordering::Relaxed);
            let out = check.run(case);
            case_started[w].store(0, Ordering::Relaxed);
            if counting {
                shared.evaluations.fetch_add(1, Ordering::Relaxed);
                {
                    let mut l = shared.labels.lock().unwrap();
                    for lab in &out.labels {
                        *l.entry(lab.clone()).or_insert(0) += 1;
                    }
                }
                {
                    let mut c = shared.counters.lock().unwrap();
                    for (k, n) in &out.counters {
                        *c.entry(k.clone()).or_insert(0) += n;
                    }
                }
                if out.nontrivial {
                    shared.nontrivial_total.fetch_add(1, Ordering::Relaxed);
                    let fresh = shared.distinct.lock().unwrap().insert(out.fingerprint);
                    if fresh {
                        let mut s = shared.nt_samples.lock().unwrap();
                        if s.len() < 2 {
                            s.push(serde_json::to_value(case).unwrap_or(Value::Null));
                        }
                    }
                }
                let mut s = shared.samples.lock().unwrap();
                if s.len() < 2 {
                    s.push(serde_json::to_value(case).unwrap_or(Value::Null));
                }
            }
            if let Some(v) = out.violation {
                if !strict {
                    if let Some(k) = matches_known(&known, check.id(), &v.signature) {
                        let mut h = shared.known_hits.lock().unwrap();
                        let e = h.entry(k.signature.clone()).or_insert((0, None));
                        e.0 += 1;
                        if e.1.is_none() {
                            e.1 = Some(serde_json::to_value(case).unwrap_or(Value::Null));
                        }
                        return Ok(());
                    }
                }
                return Err(v);
            }
            Ok(())
        }
    };
    let eval = Arc::new(eval);

    // ---- phase 0: fixed regression cases + replays of known findings (single thread) ----------
    let mut failure: Option<(Violation, C::Case)> = None;
    let mut fixed: Vec<C::Case> = check.fixed_cases();
    for k in &known {
        if let Some(r) = &k.repro {
            let p = verif_root().join(r);
            if let Ok(s) = std::fs::read_to_string(&p) {
                if let Ok(v) = serde_json::from_str::<Value>(&s) {
                    if let Ok(c) = serde_json::from_value::<C::Case>(v.get("case").cloned().unwrap_or(v)) {
                        fixed.push(c);
                    }
                }
            }
        }
    }
    // saved replays of this property (regression inputs)
    if let Ok(rd) = std::fs::read_dir(verif_root().join("replays").join(id)) {
        let mut paths: Vec<_> = rd.filter_map(|e| e.ok()).map(|e| e.path()).collect();
        paths.sort();
        for p in paths {
            if let Ok(s) = std::fs::read_to_string(&p) {
                if let Ok(v) = serde_json::from_str::<Value>(&s) {
                    if let Ok(c) = serde_json::from_value::<C::Case>(v.get("case").cloned().unwrap_or(v)) {
                        fixed.push(c);
                    }
                }
            }
        }
    }
    let n_fixed = fixed.len();
    for c in fixed {
        if let Err(v) = eval(workers, &c, true) {
            failure = Some((v, c));
            break;
        }
    }

    // ---- phase 1: generated cases on worker threads -------------------------------------------
    let total_cases = args.cases_override.unwrap_or_else(|| check.cases(args.tier));
    if failure.is_none() {
        let per = (total_cases as usize).div_ceil(workers);
        let mut handles = vec![];
        for w in 0..workers {
            let check = check.clone();
            let shared = shared.clone();
            let eval = eval.clone();
            let tier = args.tier;
            let seed = args.seed;
            let h = std::thread::Builder::new()
                .name(format!("w{w}"))
                .stack_size(32 << 20)
                .spawn(move || -> Option<(Violation, C::Case)> {
                    let mut seed_bytes = [0u8; 32];
                    seed_bytes[..8].copy_from_slice(&seed.to_le_bytes());
                    seed_bytes[8..16].copy_from_slice(&(w as u64).to_le_bytes());
                    seed_bytes[16..24].copy_from_slice(&fp(&check.id()).to_le_bytes());
                    let _ = RngSeed::Fixed(0); // (Config::rng_seed is not used: we build the rng directly)
                    let cfg = Config {
                        cases: per as u32,
                        failure_persistence: None,
                        max_shrink_iters: check.max_shrink_iters(),
                        max_global_rejects: 1 << 20,
                        ..Config::default()
                    };
                    let rng = TestRng::from_seed(RngAlgorithm::ChaCha, &seed_bytes);
                    let mut runner = TestRunner::new_with_rng(cfg, rng);
                    let strat = check.strategy(tier);
                    let failed = std::cell::Cell::new(false);
                    let last_violation: std::cell::RefCell<Option<Violation>> = std::cell::RefCell::new(None);
                    let res = runner.run(&strat, |case| {
                        if !failed.get() && shared.stop.load(Ordering::Relaxed) {
                            return Ok(()); // another worker failed: drain quickly
                        }
                        match eval(w, &case, !failed.get()) {
                            Ok(()) => Ok(()),
                            Err(v) => {
                                failed.set(true);
                                shared.stop.store(true, Ordering::Relaxed);
                                let sig = v.signature.clone();
                                // during shrinking only accept the same root cause
                                let mut lv = last_violation.borrow_mut();
                                if let Some(prev) = lv.as_ref() {
                                    if prev.signature != sig {
                                        return Ok(());
                                    }
                                }
                                *lv = Some(v);
                                Err(TestCaseError::fail(sig))
                            }
                        }
                    });
                    match res {
                        Ok(()) => None,
                        Err(TestError::Fail(_, case)) => {
                            let v = last_violation.borrow().clone().unwrap_or(Violation {
                                signature: format!("{}:unknown", check.id()),
                                detail: String::new(),
                                artifact: None,
                            });
                            // re-run minimal case for its own detail
                            let out = check.run(&case);
                            let v = out.violation.filter(|x| x.signature == v.signature).unwrap_or(v);
                            Some((v, case))
                        }
                        Err(TestError::Abort(r)) => {
                            crate::outln!("INCONCLUSIVE property={}: proptest aborted: {r} — exit 2", check.id());
                            std::process::exit(2);
                        }
                    }
                })
                .unwrap();
            handles.push(h);
        }
        for h in handles {
            match h.join() {
                Ok(Some(f)) => {
                    if failure.is_none() {
                        failure = Some(f);
                    }
                }
                Ok(None) => {}
                Err(_) => {
                    crate::outln!("INCONCLUSIVE property={id}: harness worker panicked — exit 2");
                    return 2;
                }
            }
        }
    }

    // ---- verdict + evidence ----------------------------------------------------------------
    let evaluations = shared.evaluations.load(Ordering::Relaxed);
    let distinct = shared.distinct.lock().unwrap().len() as u64;
    let labels = shared.labels.lock().unwrap().clone();
    let counters = shared.counters.lock().unwrap().clone();
    let mut samples = shared.samples.lock().unwrap().clone();
    samples.extend(shared.nt_samples.lock().unwrap().clone());
    let known_hits = shared.known_hits.lock().unwrap().clone();

    let mut violations = 0;
    let mut exit = 0;
    let mut violation_json = Value::Null;
    if let Some((v, case)) = &failure {
        violations = 1;
        exit = 1;
        let dir = verif_root().join("replays").join(id);
        let _ = std::fs::create_dir_all(&dir);
        let case_v = serde_json::to_value(case).unwrap_or(Value::Null);
        let name = format!("fail-{:016x}.json", fp(&case_v.to_string()));
        let path = dir.join(name);
        let body = json!({"property": id, "signature": v.signature, "detail": v.detail, "seed": args.seed, "case": case_v});
        std::fs::write(&path, serde_json::to_string_pretty(&body).unwrap()).ok();
        if let Some(a) = &v.artifact {
            std::fs::write(path.with_extension("trace.json"), a).ok();
        }
        crate::outln!("violation signature={} detail={}", v.signature, v.detail);
        crate::outln!("VIOLATION property={} replay={}", id, path.display());
        violation_json = json!({"signature": v.signature, "detail": v.detail, "replay": path});
    }
    for k in known.iter().filter(|k| k.status == "open") {
        let hits = known_hits.get(&k.signature).map(|x| x.0).unwrap_or(0);
        crate::outln!("KNOWN-FINDING: property={} {} [signature={} observed_this_run={}]", id, k.what_fails, k.signature, hits);
    }

    // generator health gate
    let mut degenerate = vec![];
    if failure.is_none() && evaluations >= 50 {
        for l in check.required_labels() {
            let n = labels.get(l).copied().unwrap_or(0);
            if (n as f64) < 0.05 * evaluations as f64 {
                degenerate.push(format!("{l}={n}/{evaluations}"));
            }
        }
    }

    let ev = json!({
        "property_id": id,
        "tier": args.tier.name(),
        "seed": args.seed,
        "level": check.level(),
        "coverage": {
            "evaluations": evaluations,
            "distinct_nontrivial": distinct,
            "nontrivial_total": shared.nontrivial_total.load(Ordering::Relaxed),
            "rule": check.rule(),
            "samples": samples,
            "labels": labels,
            "counters": counters,
            "fixed_regression_cases": n_fixed,
            "generated_cases_requested": total_cases,
            "known_finding_hits": known_hits.iter().map(|(k, v)| (k.clone(), json!({"cases": v.0, "example": v.1}))).collect::<BTreeMap<_, _>>(),
            "exhaustive": false,
        },
        "assumptions": check.assumptions(),
        "wall_s": t0.elapsed().as_secs_f64(),
        "violations": violations,
        "violation": violation_json,
    });
    let evdir = verif_root().join("evidence");
    let _ = std::fs::create_dir_all(&evdir);
    // auxiliary engines of a property (e.g. the cluster-level monitor of C07) write <id>.<suffix>.json
    let suffix = std::env::var("VERIF_EVIDENCE_SUFFIX").unwrap_or_default();
    std::fs::write(evdir.join(format!("{id}{suffix}.json")), serde_json::to_string_pretty(&ev).unwrap()).expect("write evidence");

    crate::outln!(
        "{} {}: evaluations={} distinct_nontrivial={} wall={:.1}s violations={}",
        id,
        args.tier.name(),
        evaluations,
        distinct,
        t0.elapsed().as_secs_f64(),
        violations
    );
    if exit == 0 && !degenerate.is_empty() {
        crate::outln!("INCONCLUSIVE property={id}: generator degenerate, required labels below 5%: {degenerate:?} — exit 2");
        return 2;
    }
    if exit == 0 && distinct < 2 {
        crate::outln!("INCONCLUSIVE property={id}: fewer than 2 distinct non-trivial cases — exit 2");
        return 2;
    }
    exit
}

/// Monotone index mapping (shrinks toward 0): maps a u16 onto 0..len.
pub fn pick(i: u16, len: usize) -> usize {
    if len == 0 {
        0
    } else {
        ((i as usize) * len) >> 16
    }
}

#[allow(dead_code)]
pub fn gen_one<S: Strategy>(s: &S, seed: u64) -> S::Value {
    let mut seed_bytes = [0u8; 32];
    seed_bytes[..8].copy_from_slice(&seed.to_le_bytes());
    let rng = TestRng::from_seed(RngAlgorithm::ChaCha, &seed_bytes);
    let mut runner = TestRunner::new_with_rng(Config::default(), rng);
    s.new_tree(&mut runner).unwrap().current()
}

#[allow(dead_code)]
pub fn work_dir(tag: &str) -> PathBuf {
    static N: AtomicU64 = AtomicU64::new(0);
    let n = N.fetch_add(1, Ordering::Relaxed);
    let p = verif_root().join("work").join(format!("{}", std::process::id())).join(format!("{tag}-{n}"));
    std::fs::create_dir_all(&p).expect("create work dir");
    p
}

#[allow(dead_code)]
pub fn rm_dir(p: &Path) {
    let _ = std::fs::remove_dir_all(p);
}
