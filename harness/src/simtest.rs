//! smoke test for the simulator (dverif simtest)
use std::time::Duration;

use bytes::Bytes;
use d_engine_core::client::{ClientWriteRequest, WriteOperation};
use d_engine_core::{ClientCmd, MaybeCloneOneshot, RaftOneshot};

use crate::sim::{make_config, node_meta, NodeKnobs, Sim};

pub fn run() -> i32 {
    let t0 = std::time::Instant::now();
    Sim::run(42, |mut w| async move {
        let cluster: Vec<_> = (1..=3).map(|i| node_meta(i, false)).collect();
        let k = NodeKnobs::default();
        for id in 1..=3u32 {
            let cfg = make_config(id, cluster.clone(), &k, &w.root);
            w.start_node(id, cfg, None, 1).await;
        }
        tokio::time::sleep(Duration::from_millis(2000)).await;
        for (id, n) in &w.nodes {
            crate::outln!("node {id}: leader view {:?} log_last={} exit={:?}", n.leader_rx.borrow().clone(), d_engine_core::RaftLog::last_entry_id(&*n.raft_log), n.raft_exit.lock().unwrap());
        }
        let leader = w.nodes.values().find_map(|n| n.leader_rx.borrow().clone()).map(|l| l.leader_id);
        crate::outln!("leader = {leader:?} at t={}", w.now_ms());
        if let Some(l) = leader {
            for i in 0..5u8 {
                let (tx, rx) = MaybeCloneOneshot::new();
                let req = ClientWriteRequest {
                    client_id: 1,
                    command: Some(WriteOperation::Insert {
                        key: Bytes::from(vec![b'k', i]),
                        value: Bytes::from(vec![b'v', i]),
                        ttl_secs: None,
                    }),
                };
                w.nodes[&l].cmd_tx.send(ClientCmd::Propose(req, tx)).await.unwrap();
                let r = tokio::time::timeout(Duration::from_millis(1000), rx).await;
                crate::outln!("write {i}: {:?} at t={}", r.map(|x| x.map(|y| y.map(|z| z.error))), w.now_ms());
            }
        }
        tokio::time::sleep(Duration::from_millis(500)).await;
        for (id, n) in &w.nodes {
            crate::outln!("node {id}: sm={:?} applied={}", n.sm.contents().len(), d_engine_core::StateMachine::last_applied(&*n.sm).index);
        }
        crate::outln!("history events: {}", w.history.lock().unwrap().events.len());
        w.shutdown_all().await;
        crate::runner::rm_dir(&w.root);
    });
    crate::outln!("wall {:?}", t0.elapsed());
    0
}

/// dverif simscenario <file.json> [--history]: run one scenario file and print a summary (debugging aid)
pub fn run_file(path: &str, show_history: bool) -> i32 {
    let s = std::fs::read_to_string(path).expect("read scenario");
    let v: serde_json::Value = serde_json::from_str(&s).expect("json");
    let sc: crate::sim::scenario::Scenario = serde_json::from_value(v.get("case").cloned().unwrap_or(v)).expect("scenario");
    let res = crate::sim::scenario::run_scenario(&sc);
    if show_history {
        for (t, e) in &res.history {
            crate::outln!("{t:>7} {e:?}");
        }
    }
    crate::outln!("labels={:?} end_ms={} committed_max={} leaders={:?}", res.labels, res.end_ms, res.committed.max_index, crate::sim::monitors::leaders_by_term(&res));
    if std::env::var("SHOW_OPS").is_ok() {
        for o in &res.ops {
            crate::outln!("op {:?}", o);
        }
    }
    for n in &res.final_nodes {
        crate::outln!("node {} inc={} log=[{}..{}] applied={} leader={} exit={:?} kv={:?}", n.id, n.incarnation, n.first, n.last, n.last_applied, n.is_leader, n.raft_exit, crate::sim::monitors::show(&n.kv));
    }
    crate::outln!("checkpoint_violations={:?}", res.checkpoint_violations);
    0
}
