//! smoke test for the simulator (dverif simtest)
use std::time::Duration;

use bytes::Bytes;
use d_engine_core::client::{ClientWriteRequest, WriteOperation};
use d_engine_core::{ClientCmd, MaybeCloneOneshot, RaftOneshot};

use crate::sim::{make_config, node_meta, NodeKnobs, Sim};

pub fn run() -> i32 {
    let t0 = std::time::Instant::now();
    Sim::run(42, |mut w| async move {
        let cluster: Vec<_> = (1..=3).map(|i| node_meta(i, false)).collect();
        let k = NodeKnobs::default();
        for id in 1..=3u32 {
            let cfg = make_config(id, cluster.clone(), &k, &w.root);
            w.start_node(id, cfg, None, 1).await;
        }
        tokio::time::sleep(Duration::from_millis(2000)).await;
        for (id, n) in &w.nodes {
            println!("node {id}: leader view {:?} log_last={} exit={:?}", n.leader_rx.borrow().clone(), d_engine_core::RaftLog::last_entry_id(&*n.raft_log), n.raft_exit.lock().unwrap());
        }
        let leader = w.nodes.values().find_map(|n| n.leader_rx.borrow().clone()).map(|l| l.leader_id);
        println!("leader = {leader:?} at t={}", w.now_ms());
        if let Some(l) = leader {
            for i in 0..5u8 {
                let (tx, rx) = MaybeCloneOneshot::new();
                let req = ClientWriteRequest {
                    client_id: 1,
                    command: Some(WriteOperation::Insert {
                        key: Bytes::from(vec![b'k', i]),
                        value: Bytes::from(vec![b'v', i]),
                        ttl_secs: None,
                    }),
                };
                w.nodes[&l].cmd_tx.send(ClientCmd::Propose(req, tx)).await.unwrap();
                let r = tokio::time::timeout(Duration::from_millis(1000), rx).await;
                println!("write {i}: {:?} at t={}", r.map(|x| x.map(|y| y.map(|z| z.error))), w.now_ms());
            }
        }
        tokio::time::sleep(Duration::from_millis(500)).await;
        for (id, n) in &w.nodes {
            println!("node {id}: sm={:?} applied={}", n.sm.contents().len(), d_engine_core::StateMachine::last_applied(&*n.sm).index);
        }
        println!("history events: {}", w.history.lock().unwrap().events.len());
        w.shutdown_all().await;
        crate::runner::rm_dir(&w.root);
    });
    println!("wall {:?}", t0.elapsed());
    0
}
