//! Debug aid: with VERIF_TRACE=<error|warn|info|debug|trace> d-engine's tracing events are printed to stderr
//! (optionally filtered by VERIF_TRACE_FILTER=<substring of target or message>). Never used by checks.
use std::fmt::Write as _;
use std::sync::atomic::{AtomicU64, Ordering};

use tracing::field::{Field, Visit};
use tracing::span::{Attributes, Id, Record};
use tracing::{Event, Level, Metadata, Subscriber};

struct Printer {
    max: Level,
    filter: Option<String>,
    next: AtomicU64,
}

struct V(String);
impl Visit for V {
    fn record_debug(&mut self, field: &Field, value: &dyn std::fmt::Debug) {
        if field.name() == "message" {
            let _ = write!(self.0, "{value:?} ");
        } else {
            let _ = write!(self.0, "{}={value:?} ", field.name());
        }
    }
}

impl Subscriber for Printer {
    fn enabled(&self, m: &Metadata<'_>) -> bool {
        *m.level() <= self.max
    }
    fn new_span(&self, _: &Attributes<'_>) -> Id {
        Id::from_u64(self.next.fetch_add(1, Ordering::Relaxed) + 1)
    }
    fn record(&self, _: &Id, _: &Record<'_>) {}
    fn record_follows_from(&self, _: &Id, _: &Id) {}
    fn event(&self, e: &Event<'_>) {
        let mut v = V(String::new());
        e.record(&mut v);
        let line = format!("[{} {} {}] {}", crate::sim::debug_now_ms(), e.metadata().level(), e.metadata().target(), v.0);
        if let Some(f) = &self.filter {
            if !line.contains(f.as_str()) {
                return;
            }
        }
        eprintln!("{line}");
    }
    fn enter(&self, _: &Id) {}
    fn exit(&self, _: &Id) {}
}

pub fn install_from_env() {
    let Ok(l) = std::env::var("VERIF_TRACE") else { return };
    let max = match l.as_str() {
        "error" => Level::ERROR,
        "warn" => Level::WARN,
        "info" => Level::INFO,
        "trace" => Level::TRACE,
        _ => Level::DEBUG,
    };
    let p = Printer { max, filter: std::env::var("VERIF_TRACE_FILTER").ok(), next: AtomicU64::new(0) };
    let _ = tracing::subscriber::set_global_default(p);
}
