//! C25 — scan results match their revision.
//!
//! Generator: a non-empty prefix over the byte alphabet {00,61,62,FE,FF} (1..=3 bytes, so 0xFF carry
//! and all-0xFF prefixes occur), keys built relative to it (extensions incl. the prefix itself, keys at
//! / after the successor bound, siblings, raw keys incl. the empty key), 1..=6 chunks of put/delete/CAS,
//! and a schedule: plain (scan between chunks) or interleaved — the scan is placed *inside* the apply
//! of one chunk: RocksDB: the chunk is applied from the `sm.scan.before_revision` yield point (after
//! the iterator was drained, before the revision is read); File: the scan runs from a crash-point
//! callback inside apply_chunk (`sm.apply.after_wal_write|after_memory_update|after_last_applied`).
//! Oracle: `entries` (as a set) == model(1..=revision) filtered by `starts_with(prefix)`, exactly.
use std::cell::RefCell;
use std::collections::BTreeMap;
use std::rc::Rc;

use proptest::prelude::*;
use serde::{Deserialize, Serialize};

use super::kvmodel::*;
use crate::runner::{fp, pick, rm_dir, work_dir, Check, Outcome, Tier};

const T0_MS: u64 = 1_700_000_000_000;

#[derive(Clone, Copy, Debug, PartialEq, Eq, Hash, Serialize, Deserialize)]
pub enum Point {
    /// no interleaving: scans only between chunks
    Plain,
    /// RocksDB: apply the chunk at the scan's yield point; File: same as AfterMemoryUpdate
    InScan,
    /// File only (RocksDB: treated as InScan): scan from inside apply_chunk at the named point
    AfterWalWrite,
    AfterMemoryUpdate,
    AfterLastApplied,
}

#[derive(Clone, Debug, Serialize, Deserialize, Hash)]
pub struct Case {
    pub engine: Engine,
    pub prefix: B,
    pub extra_prefixes: Vec<B>,
    pub chunks: Vec<Vec<Cmd>>,
    pub point: Point,
    /// which chunk the scan is interleaved with (monotone pick over chunks)
    pub at: u16,
}

pub struct C25;

fn byte_s() -> BoxedStrategy<u8> {
    prop_oneof![1 => Just(0x00u8), 3 => Just(0x61u8), 2 => Just(0x62u8), 1 => Just(0xFEu8), 3 => Just(0xFFu8)].boxed()
}
fn prefix_s() -> BoxedStrategy<B> {
    prop::collection::vec(byte_s(), 1..=3).prop_map(B).boxed()
}
/// the documented successor bound of a prefix (None for all-0xFF)
pub fn successor(p: &[u8]) -> Option<Vec<u8>> {
    let mut u = p.to_vec();
    while u.last() == Some(&0xFF) {
        u.pop();
    }
    if u.is_empty() {
        return None;
    }
    *u.last_mut().unwrap() += 1;
    Some(u)
}
fn key_for(prefix: Vec<u8>) -> BoxedStrategy<B> {
    let suffix = || prop::collection::vec(byte_s(), 0..=2);
    let p1 = prefix.clone();
    let p2 = prefix.clone();
    let p3 = prefix.clone();
    let p4 = prefix.clone();
    prop_oneof![
        6 => suffix().prop_map(move |s| B([p1.clone(), s].concat())),
        2 => suffix().prop_map(move |s| {
            let base = successor(&p2).unwrap_or_else(|| p2.clone());
            B([base, s].concat())
        }),
        2 => suffix().prop_map(move |s| B([p3[..p3.len() - 1].to_vec(), s].concat())),
        // wrapped "carry" neighbours: prefix with trailing 0xFF replaced by 0x00 / dropped
        1 => suffix().prop_map(move |s| {
            let mut b = p4.clone();
            if let Some(l) = b.last_mut() { *l = l.wrapping_add(1); }
            B([b, s].concat())
        }),
        1 => prop::collection::vec(byte_s(), 0..=3).prop_map(B),
    ]
    .boxed()
}
fn val_s() -> BoxedStrategy<B> {
    prop_oneof![Just(b"x".to_vec()), Just(b"y".to_vec()), Just(b"z".to_vec())].prop_map(B).boxed()
}
fn cmd_for(prefix: Vec<u8>) -> BoxedStrategy<Cmd> {
    prop_oneof![
        7 => (key_for(prefix.clone()), val_s()).prop_map(|(k, v)| Cmd::Put { k, v }),
        3 => key_for(prefix.clone()).prop_map(|k| Cmd::Del { k }),
        2 => (key_for(prefix), prop::option::of(val_s()), val_s()).prop_map(|(k, exp, v)| Cmd::Cas { k, exp, v }),
    ]
    .boxed()
}

type KV = Vec<(Vec<u8>, Vec<u8>)>;
fn filt(st: &BTreeMap<Vec<u8>, Vec<u8>>, p: &[u8]) -> KV {
    st.iter().filter(|(k, _)| k.starts_with(p)).map(|(k, v)| (k.clone(), v.clone())).collect()
}
fn show_kv(kv: &KV) -> String {
    let parts: Vec<String> = kv.iter().map(|(k, v)| format!("{}={}", hex(k), show(v))).collect();
    format!("[{}]", parts.join(", "))
}

fn judge_plain(engine: Engine, prefix: &[u8], got: &KV, revision: u64, applied: usize, states: &[BTreeMap<Vec<u8>, Vec<u8>>]) -> Option<(String, String)> {
    let want = filt(&states[applied], prefix);
    if revision != applied as u64 {
        return Some((
            format!("C25:{}-quiescent-revision-not-last-applied", engine.name()),
            format!("scan_prefix({}) at rest after {} entries reports revision {}", hex(prefix), applied, revision),
        ));
    }
    if *got == want {
        return None;
    }
    let gk: Vec<&Vec<u8>> = got.iter().map(|x| &x.0).collect();
    let wk: Vec<&Vec<u8>> = want.iter().map(|x| &x.0).collect();
    let kind = if wk.iter().any(|k| !gk.contains(k)) {
        "scan-misses-keys"
    } else if gk.iter().any(|k| !wk.contains(k)) {
        "scan-returns-foreign-keys"
    } else {
        "scan-wrong-values"
    };
    Some((
        format!("C25:{}-{kind}", engine.name()),
        format!("scan_prefix({}) at rest, revision {}: got {} want {}", hex(prefix), revision, show_kv(got), show_kv(&want)),
    ))
}

impl Check for C25 {
    type Case = Case;
    fn id(&self) -> &'static str {
        "C25"
    }
    fn rule(&self) -> String {
        "cases = (engine, non-empty prefix over {00,61,62,FE,FF}, 1..=6 chunks of put/delete/CAS on keys around the prefix boundary, schedule); non-trivial = the scan is interleaved with an apply (RocksDB: apply lands between draining the iterator and reading the revision; File: scan lands between the in-memory update and the applied-index update) AND that chunk changes the prefix-filtered contents; distinct by hash of the whole case".into()
    }
    fn assumptions(&self) -> Vec<String> {
        vec![
            "the empty prefix is outside the domain: RocksDBStateMachine::scan_prefix deliberately returns no entries for it".into(),
            "interleavings are produced deterministically through the __verif yield/crash-point hooks, which sit exactly between the data read and the revision read (RocksDB) resp. between the data update and the applied-index update (File); in a node the scan runs on the Raft loop while applies run on the sm-apply thread, so both interleavings are reachable".into(),
            "result order is not judged (entries compared as a sorted set)".into(),
            "the starts_with guard of the RocksDB scan is redundant given a correct upper bound (every key in [prefix, successor) starts with the prefix, and for all-0xFF prefixes every key >= prefix does), so dropping only the guard is an equivalent mutant".into(),
        ]
    }
    fn cases(&self, tier: Tier) -> u32 {
        match tier {
            Tier::Quick => 3_000,
            Tier::Thorough => 40_000,
        }
    }
    fn max_shrink_iters(&self) -> u32 {
        150
    }
    fn workers(&self) -> usize {
        std::env::var("VERIF_WORKERS").ok().and_then(|s| s.parse().ok()).unwrap_or(16)
    }
    fn required_labels(&self) -> Vec<&'static str> {
        vec!["engine_file", "engine_rocksdb", "interleaved_effective", "prefix_trailing_ff", "prefix_all_ff", "plain"]
    }
    fn strategy(&self, _tier: Tier) -> BoxedStrategy<Case> {
        let point = prop_oneof![
            3 => Just(Point::Plain),
            4 => Just(Point::InScan),
            1 => Just(Point::AfterWalWrite),
            3 => Just(Point::AfterMemoryUpdate),
            1 => Just(Point::AfterLastApplied),
        ];
        (prop_oneof![Just(Engine::File), Just(Engine::Rocks)], prefix_s(), point, any::<u16>())
            .prop_flat_map(|(engine, prefix, point, at)| {
                let p = prefix.0.clone();
                (
                    Just(engine),
                    Just(prefix),
                    prop::collection::vec(prefix_s(), 0..=2),
                    prop::collection::vec(prop::collection::vec(cmd_for(p), 1..=6), 1..=6),
                    Just(point),
                    Just(at),
                )
            })
            .prop_map(|(engine, prefix, extra_prefixes, chunks, point, at)| Case { engine, prefix, extra_prefixes, chunks, point, at })
            .boxed()
    }

    fn run(&self, c: &Case) -> Outcome {
        let mut out = Outcome::ok();
        d_engine_core::verif_hooks::set_virtual_wall_ms(Some(T0_MS));
        // flatten the log
        let mut log: Vec<LogEntry> = vec![];
        let mut bounds: Vec<(usize, usize)> = vec![];
        for ch in &c.chunks {
            let s = log.len();
            for cmd in ch {
                let i = log.len() as u64 + 1;
                log.push(LogEntry { index: i, term: 1 + i / 5, cmd: cmd.clone() });
            }
            bounds.push((s, log.len()));
        }
        let (states, _flags) = prefix_states(&log, T0_MS);
        let prefix = c.prefix.0.clone();
        if prefix.is_empty() || c.extra_prefixes.iter().any(|p| p.0.is_empty()) {
            // outside the domain (can only come from a hand-edited replay)
            out.add_label("empty_prefix_skipped");
            return out;
        }
        let j = pick(c.at, bounds.len());
        let interleaved = c.point != Point::Plain;
        let (js, je) = bounds[j];
        let effective = interleaved && filt(&states[js], &prefix) != filt(&states[je], &prefix);

        out.add_label(format!("engine_{}", c.engine.name()));
        out.add_label(if interleaved { "interleaved" } else { "plain" });
        if effective {
            out.add_label("interleaved_effective");
        }
        if prefix.last() == Some(&0xFF) {
            out.add_label("prefix_trailing_ff");
        }
        if prefix.iter().all(|b| *b == 0xFF) {
            out.add_label("prefix_all_ff");
        }
        if prefix.last() == Some(&0xFF) && !prefix.iter().all(|b| *b == 0xFF) {
            out.add_label("prefix_carry");
        }
        if states.iter().any(|s| !filt(s, &prefix).is_empty()) {
            out.add_label("prefix_matches_some_key");
        }
        if let Some(su) = successor(&prefix) {
            if states.iter().any(|s| s.keys().any(|k| k >= &su)) {
                out.add_label("key_at_or_after_successor");
            }
        }
        out.nontrivial = effective;
        out.fingerprint = fp(c);

        let dir = work_dir("c25");
        let rt = new_rt();
        let sm = match rt.block_on(open_sm(c.engine, &dir)) {
            Ok(s) => s,
            Err(e) => panic!("C25 harness error: {e}"),
        };
        let mut prefixes: Vec<Vec<u8>> = vec![prefix.clone()];
        prefixes.extend(c.extra_prefixes.iter().map(|p| p.0.clone()));

        let mut verdict: Option<(String, String)> = None;
        'outer: for (ci, (s, e)) in bounds.iter().enumerate() {
            let entries = to_entries(&log[*s..*e], false);
            if interleaved && ci == j {
                // ---- the scan is interleaved with this chunk's apply
                let scan_res: Rc<RefCell<Option<Result<(KV, u64), String>>>> = Rc::new(RefCell::new(None));
                let apply_err: Rc<RefCell<Option<String>>> = Rc::new(RefCell::new(None));
                match c.engine {
                    Engine::Rocks => {
                        let sm2 = sm.clone();
                        let ents = entries.clone();
                        let fired = Rc::new(RefCell::new(false));
                        let f2 = fired.clone();
                        let ae = apply_err.clone();
                        d_engine_core::verif_hooks::set_yield_point(Some(Box::new(move |name| {
                            if name == "sm.scan.before_revision" && !*f2.borrow() {
                                *f2.borrow_mut() = true;
                                if let Err(er) = futures::executor::block_on(sm2.apply_chunk(&ents)) {
                                    *ae.borrow_mut() = Some(format!("{er:?}"));
                                }
                            }
                        })));
                        let r = sm.scan_prefix(&prefix);
                        d_engine_core::verif_hooks::set_yield_point(None);
                        if !*fired.borrow() {
                            panic!("C25 harness error: yield point sm.scan.before_revision was not reached");
                        }
                        *scan_res.borrow_mut() = Some(r.map(|r| (sorted(&r.entries), r.revision)).map_err(|e| format!("{e:?}")));
                    }
                    Engine::File => {
                        let name_wanted = match c.point {
                            Point::AfterWalWrite => "sm.apply.after_wal_write",
                            Point::AfterLastApplied => "sm.apply.after_last_applied",
                            _ => "sm.apply.after_memory_update",
                        };
                        let sm2 = sm.clone();
                        let p2 = prefix.clone();
                        let sr = scan_res.clone();
                        d_engine_core::verif_hooks::set_crash_point(Some(Box::new(move |name| {
                            if name == name_wanted && sr.borrow().is_none() {
                                let r = sm2.scan_prefix(&p2);
                                *sr.borrow_mut() = Some(r.map(|r| (sorted(&r.entries), r.revision)).map_err(|e| format!("{e:?}")));
                            }
                        })));
                        let r = rt.block_on(sm.apply_chunk(&entries));
                        d_engine_core::verif_hooks::set_crash_point(None);
                        if let Err(er) = r {
                            *apply_err.borrow_mut() = Some(format!("{er:?}"));
                        }
                        if scan_res.borrow().is_none() {
                            panic!("C25 harness error: crash point {name_wanted} was not reached");
                        }
                    }
                }
                if let Some(er) = apply_err.borrow().clone() {
                    panic!("C25 harness error: apply_chunk failed: {er}");
                }
                let sr = scan_res.borrow_mut().take().unwrap();
                match sr {
                    Err(er) => {
                        verdict = Some((format!("C25:{}-scan-error", c.engine.name()), er));
                        break 'outer;
                    }
                    Ok((got, revision)) => {
                        let rev = revision as usize;
                        let ok = rev < states.len() && got == filt(&states[rev], &prefix);
                        if !ok {
                            let is_pre = got == filt(&states[*s], &prefix);
                            let is_post = got == filt(&states[*e], &prefix);
                            let slug = if is_post && rev == *s {
                                match c.engine {
                                    Engine::File => "file-applied-index-updated-after-data".to_string(),
                                    Engine::Rocks => "rocksdb-data-ahead-of-revision".to_string(),
                                }
                            } else if is_pre && rev == *e {
                                match c.engine {
                                    Engine::Rocks => "rocksdb-revision-read-after-iteration".to_string(),
                                    Engine::File => "file-revision-ahead-of-data".to_string(),
                                }
                            } else {
                                format!("{}-interleaved-scan-matches-no-state", c.engine.name())
                            };
                            let want = if rev < states.len() { show_kv(&filt(&states[rev], &prefix)) } else { "<revision beyond log>".into() };
                            verdict = Some((
                                format!("C25:{slug}"),
                                format!(
                                    "scan_prefix({}) interleaved with the apply of entries {}..={} ({:?}): reported revision {} with entries {}; model(1..={}) filtered = {}",
                                    hex(&prefix),
                                    s + 1,
                                    e,
                                    c.point,
                                    revision,
                                    show_kv(&got),
                                    revision,
                                    want
                                ),
                            ));
                            break 'outer;
                        }
                    }
                }
            } else if let Err(er) = rt.block_on(sm.apply_chunk(&entries)) {
                panic!("C25 harness error: apply_chunk failed: {er:?}");
            }
            // ---- quiescent scans after the chunk
            for p in &prefixes {
                match sm.scan_prefix(p) {
                    Err(er) => {
                        verdict = Some((format!("C25:{}-scan-error", c.engine.name()), format!("{er:?}")));
                        break 'outer;
                    }
                    Ok(r) => {
                        if let Some(v) = judge_plain(c.engine, p, &sorted(&r.entries), r.revision, *e, &states) {
                            verdict = Some(v);
                            break 'outer;
                        }
                    }
                }
            }
        }
        drop(sm);
        drop(rt);
        rm_dir(&dir);
        d_engine_core::verif_hooks::set_virtual_wall_ms(None);
        if let Some((sig, detail)) = verdict {
            out.violate(sig, detail);
        }
        out
    }
}

fn sorted(entries: &[(bytes::Bytes, bytes::Bytes)]) -> KV {
    let mut v: KV = entries.iter().map(|(k, v)| (k.to_vec(), v.to_vec())).collect();
    v.sort();
    v
}
