//! Cluster-level properties decided on the simulator (engine E1): one generic check type, parameterised by a
//! generator bias and a judge (monitor) per property.
use std::time::Duration;

use proptest::prelude::*;

use crate::runner::{fp, Check, Outcome, Tier};
use crate::sim::sgen::{scenario, Bias};
use crate::sim::history::Ev;
use crate::sim::monitors::{self, Lin};
use crate::sim::scenario::{run_scenario, OpKind, OpOutcome, RunResult, Scenario};

pub struct SimCheck {
    pub id: &'static str,
    pub bias: Bias,
    pub quick: u32,
    pub thorough: u32,
    pub rule: &'static str,
    pub assumptions: Vec<&'static str>,
    pub required: Vec<&'static str>,
    pub judge: fn(&Scenario, &RunResult, &mut Outcome),
}

const COMMON_ASSUMPTIONS: &[&str] = &[
    "trusted base: the simulator's node wiring mirrors NodeBuilder::build(); SimNet stands in for grpc_transport.rs + grpc_raft_service.rs (vote fan-out over membership.voters(), election BackoffPolicy retries, FIFO bidi replication streams, server-side ordered response forwarding); SimDisk is a correct LogStore/MetaStore with page-cache/durable split; SimSM is a correct reference state machine",
    "hooks (feature __verif): virtual lease clock follows the paused tokio clock, election timeouts come from a seeded source, the log's IO task runs on the simulated runtime",
    "a run is a function of (tree, scenario) up to std HashMap iteration order inside d-engine and tokio's unbiased select!; monitors are pure functions of the recorded history",
];

fn count_leader_terms(res: &RunResult) -> usize {
    monitors::leaders_by_term(res).len()
}

impl Check for SimCheck {
    type Case = Scenario;
    fn id(&self) -> &'static str {
        self.id
    }
    fn rule(&self) -> String {
        self.rule.to_string()
    }
    fn assumptions(&self) -> Vec<String> {
        COMMON_ASSUMPTIONS.iter().chain(self.assumptions.iter()).map(|s| s.to_string()).collect()
    }
    fn cases(&self, tier: Tier) -> u32 {
        match tier {
            // a scenario costs ~15-25 ms of one core (paused clock): the per-check base sizes are scaled so that
            // a quick run takes 10-25 s and a thorough run several minutes on 16 cores
            Tier::Quick => self.quick * 8,
            Tier::Thorough => self.thorough * 8,
        }
    }
    fn required_labels(&self) -> Vec<&'static str> {
        self.required.clone()
    }
    fn case_timeout(&self) -> Duration {
        Duration::from_secs(180)
    }
    fn max_shrink_iters(&self) -> u32 {
        150
    }
    fn strategy(&self, _tier: Tier) -> BoxedStrategy<Scenario> {
        scenario(&self.bias)
    }
    fn run(&self, sc: &Scenario) -> Outcome {
        let res = run_scenario(sc);
        let mut out = Outcome::ok();
        for l in &res.labels {
            out.add_label(l.clone());
        }
        let terms = count_leader_terms(&res);
        if terms >= 2 {
            out.add_label("leader_change");
        }
        if terms == 0 {
            out.add_label("no_leader_ever");
        }
        out.add_label(format!("voters_{}", sc.voters));
        if res.ops.iter().any(|o| matches!(o.outcome, OpOutcome::WriteOk)) {
            out.add_label("writes_acked");
        }
        if res.softened_crashes > 0 {
            out.add_label("crash_softened_c02_exclusion");
            out.count("crashes_softened_to_graceful_stop", res.softened_crashes as u64);
        }
        out.count("skipped_events", res.skipped_events as u64);
        out.count("virtual_ms", res.end_ms);
        for n in &res.final_nodes {
            if let Some(e) = &n.raft_exit {
                if e != "ok" {
                    out.add_label("raft_loop_exited_with_error");
                }
            }
        }
        (self.judge)(sc, &res, &mut out);
        if let Some(v) = out.violation.as_mut() {
            // keep the recorded history of the violating execution (monitors are pure functions of it)
            v.artifact = serde_json::to_string(&res).ok();
        }
        out
    }
}

fn leader_seq_fp(res: &RunResult) -> u64 {
    let l = monitors::leaders_by_term(res);
    let faults: Vec<&String> = res.labels.iter().collect();
    fp(&(format!("{l:?}"), faults))
}

fn checkpoint_violation(res: &RunResult, id: &str, out: &mut Outcome) {
    if let Some((_, sig, detail)) = res.checkpoint_violations.iter().find(|(p, _, _)| p == id) {
        out.violate(sig.clone(), detail.clone());
    }
}

// ---------------------------------------------------------------------------------------------- C01
pub fn c01() -> SimCheck {
    SimCheck {
        id: "C01",
        bias: Bias {
            // 3-5 nodes, even sizes included (a majority of 4 is 3)
            voters: vec![3, 4, 5, 3, 4],
            w_isolate: 8,
            w_partition: 8,
            w_crash: 4,
            w_stop: 3,
            w_restart: 8,
            w_put: 10,
            w_read: 0,
            w_cas: 0,
            w_del: 0,
            w_burst: 1,
            short_noop_timeout: true,
            ..Bias::default()
        },
        quick: 1200,
        thorough: 40_000,
        rule: "scenario = 3/5 real nodes on the simulated network with generated election windows, delays, unary-RPC loss, stream duplication, moving partitions (stall or break), leader isolation up to the noop deadline (same-term step-down), graceful stops, process crashes, restarts, light write load; oracle |Leaders(T)|<=1 for every term; non-trivial = >=2 terms had a leader and >=1 fault happened; distinct by (term->leader map, fault kinds)",
        assumptions: vec!["crashes are process crashes at arbitrary instants (written-but-unsynced data survives, everything in memory is lost): the fault model d-engine documents for its buffered log (\"process crash safe, power loss unsafe\"); power loss is explored by C18 on the log itself"],
        required: vec!["leader_change"],
        judge: |_sc, res, out| {
            let terms = count_leader_terms(res);
            let faults = res.labels.iter().any(|l| ["partition", "isolate_leader", "crash", "stop", "stream_reset", "rpc_loss"].contains(&l.as_str()));
            out.nontrivial = terms >= 2 && faults;
            out.fingerprint = leader_seq_fp(res);
            if let Some((s, d)) = monitors::check_c01(res) {
                out.violate(s, d);
            }
        },
    }
}

// ---------------------------------------------------------------------------------------------- C31
pub fn c31() -> SimCheck {
    SimCheck {
        id: "C31",
        bias: c01().bias,
        quick: 1000,
        thorough: 30_000,
        rule: "same scenario family as C01; oracle over the leader-change watch values of every node: per node (and incarnation) reported terms never decrease, each term maps to <=1 leader id over all nodes, every reported (id,term) is in Leaders(term) (the node really sent AppendEntries / committed its noop in that term); non-trivial = >=2 leader changes observed by >=2 nodes; distinct by (term->leader map, fault kinds)",
        assumptions: vec!["crashes are process crashes at arbitrary instants (written-but-unsynced data survives, everything in memory is lost): the fault model d-engine documents for its buffered log (\"process crash safe, power loss unsafe\"); power loss is explored by C18 on the log itself"],
        required: vec!["leader_change"],
        judge: |_sc, res, out| {
            let mut observers = std::collections::BTreeSet::new();
            let mut changes = 0;
            for (_, e) in &res.history {
                if let Ev::LeaderNotify { node, leader: Some(_), .. } = e {
                    observers.insert(*node);
                    changes += 1;
                }
            }
            out.nontrivial = count_leader_terms(res) >= 2 && observers.len() >= 2 && changes >= 3;
            out.fingerprint = leader_seq_fp(res);
            if let Some((s, d)) = monitors::check_c31(res) {
                out.violate(s, d);
            }
        },
    }
}

fn write_bias() -> Bias {
    Bias {
        w_put: 25,
        w_cas: 8,
        w_del: 4,
        w_burst: 6,
        w_read: 2,
        w_isolate: 5,
        w_partition: 5,
        w_reset: 5,
        w_lag: 2,
        small_caps: true,
        ..Bias::default()
    }
}

// ---------------------------------------------------------------------------------------------- C04
pub fn c04() -> SimCheck {
    SimCheck {
        id: "C04",
        bias: write_bias(),
        quick: 1000,
        thorough: 30_000,
        rule: "scenario = C01 family plus write load (puts/CAS/deletes/bursts), per-request entry caps 1..8 and batch sizes 1..16 with lagging followers, stream resets, restarts; oracle after every scenario step and every 50 ms of the quiet tail: for every pair of live nodes, below the highest index where both hold the same term, every index both hold has equal term and equal payload; non-trivial = >=2 terms had a leader that appended entries and >=1 node lagged or was cut off; distinct by (leader map, faults, final log shapes)",
        assumptions: vec!["crashes are process crashes at arbitrary instants (written-but-unsynced data survives, everything in memory is lost): the fault model d-engine documents for its buffered log (\"process crash safe, power loss unsafe\"); power loss is explored by C18 on the log itself"],
        required: vec!["writes_acked"],
        judge: |_sc, res, out| {
            let shapes: Vec<(u32, u64, u64)> = res.final_nodes.iter().map(|n| (n.id, n.first, n.last)).collect();
            out.nontrivial = count_leader_terms(res) >= 2 && res.committed.max_index >= 3;
            out.fingerprint = fp(&(leader_seq_fp(res), shapes));
            checkpoint_violation(res, "C04", out);
        },
    }
}

// ---------------------------------------------------------------------------------------------- C05
pub fn c05() -> SimCheck {
    SimCheck {
        id: "C05",
        bias: Bias {
            w_crash: 6,
            w_restart: 10,
            ..write_bias()
        },
        quick: 1000,
        thorough: 30_000,
        rule: "scenario = C04 family with crash/restart of at most a minority at arbitrary instants, stream resets right after elections, small caps; committed-sequence oracle (entry N of the first leader whose commit index passes N): no two different entries are ever committed at one index, no live node ever holds a different entry at a committed index, a node that held committed entry i keeps holding it unless compacted, every acting leader holds all committed entries above its purge boundary; non-trivial = a leader change after >=1 commit with a crashed/stopped/cut-off node; distinct by (leader map, faults, committed length)",
        assumptions: vec!["crashes are process crashes at arbitrary instants (written-but-unsynced data survives, everything in memory is lost): the fault model d-engine documents for its buffered log (\"process crash safe, power loss unsafe\"); power loss is explored by C18 on the log itself"],
        required: vec!["writes_acked"],
        judge: |_sc, res, out| {
            let down = res.labels.iter().any(|l| ["crash", "stop", "partition", "isolate_leader"].contains(&l.as_str()));
            out.nontrivial = count_leader_terms(res) >= 2 && res.committed.max_index >= 2 && down;
            out.fingerprint = fp(&(leader_seq_fp(res), res.committed.max_index));
            checkpoint_violation(res, "C05", out);
        },
    }
}

// ---------------------------------------------------------------------------------------------- C09
pub fn c09() -> SimCheck {
    SimCheck {
        id: "C09",
        bias: Bias {
            // (1-voter clusters that grow: the voter set the leader counts with must follow promotions)
            voters: vec![3, 5, 5, 1],
            learners: 2,
            w_join: 4,
            w_partition: 10,
            w_isolate: 6,
            w_reset: 6,
            w_crash: 4,
            w_restart: 8,
            ..write_bias()
        },
        quick: 1000,
        thorough: 30_000,
        rule: "scenario = 3/5-voter clusters under write load with partitions that leave the leader with fewer than a majority of reachable voters, stream resets, out-of-order and late acknowledgements (delays, duplication), restarts; oracle evaluated at the instant each leader moves its commit index to N: the set of its current voters (itself included) whose log — live log, or the disk of a stopped node — holds the identical entry N must be a majority, and entry N must be from the leader's current term; non-trivial = a commit happened while >=1 voter was cut off, down or lagging (holders < voters); distinct by (leader map, faults, holder-set sizes)",
        assumptions: vec![
            "holders are counted when the commit notification is observed (same virtual instant; network delay >= 1 ms so a follower cannot have gained the entry in between)",
            "crashes are process crashes at arbitrary instants (written-but-unsynced data survives, everything in memory is lost): the fault model d-engine documents for its buffered log (\"process crash safe, power loss unsafe\"); power loss is explored by C18 on the log itself",
        ],
        required: vec!["writes_acked"],
        judge: |_sc, res, out| {
            let mut sizes = std::collections::BTreeSet::new();
            let mut partial = false;
            for (_, e) in &res.history {
                if let Ev::CommitQuorum { holders, voters, .. } = e {
                    sizes.insert((holders.len(), voters.len()));
                    if holders.len() < voters.len() {
                        partial = true;
                    }
                }
            }
            if partial {
                out.add_label("commit_with_partial_holders");
            }
            out.nontrivial = partial;
            out.fingerprint = fp(&(leader_seq_fp(res), sizes));
            if let Some((s, d)) = monitors::check_c09_cluster(res) {
                out.violate(s, d);
            }
        },
    }
}

// ---------------------------------------------------------------------------------------------- C06
pub fn c06() -> SimCheck {
    SimCheck {
        id: "C06",
        bias: Bias {
            w_lag: 8,
            w_burst: 10,
            // membership entries in the apply stream (learners join and are promoted; a node that restarted may
            // fail to apply a promotion of a learner it no longer knows): config entries split the dispatch batches
            learners: 2,
            w_join: 4,
            w_restart: 7,
            w_stop: 3,
            ..write_bias()
        },
        quick: 1000,
        thorough: 30_000,
        rule: "scenario = C05 family with put/delete/CAS/TTL-put streams, bursts, state-machine apply lag, and membership entries (learner joins / promotions, also failing ones) in the apply stream; oracle from the state-machine observer: per node (and incarnation) applied indexes are exactly last_applied+1, +2, … (no gap, no repeat), the command applied at index i is identical on every node and equals the committed entry i, and each node's final KV equals the reference model applied to the committed prefix 1..=last_applied; non-trivial = >=3 nodes applied >=10 entries across >=1 leader change; distinct by (leader map, faults, applied length)",
        assumptions: vec!["crashes are process crashes at arbitrary instants (written-but-unsynced data survives, everything in memory is lost): the fault model d-engine documents for its buffered log (\"process crash safe, power loss unsafe\"); power loss is explored by C18 on the log itself", "snapshots are disabled in this family (snapshot boundary semantics are owned by C16/C33)"],
        required: vec!["writes_acked"],
        judge: |_sc, res, out| {
            let mut per_node: std::collections::BTreeMap<u32, u64> = Default::default();
            for a in &res.applies.applied {
                *per_node.entry(a.node).or_default() += 1;
            }
            out.nontrivial = per_node.values().filter(|c| **c >= 10).count() >= 3 && count_leader_terms(res) >= 2;
            out.fingerprint = fp(&(leader_seq_fp(res), res.applies.applied.len()));
            if res.applies.applied.iter().any(|a| a.prev_applied + 1 != a.index) {
                out.add_label("multi_entry_chunks");
            }
            if let Some((s, d)) = monitors::check_c06(res) {
                out.violate(s, d);
            }
        },
    }
}

// ---------------------------------------------------------------------------------------------- linearizability family
fn lin_judge(res: &RunResult, out: &mut Outcome, id: &str, filter: &dyn Fn(&crate::sim::scenario::ClientOp) -> bool) {
    match monitors::check_linearizable(res, filter, 40) {
        Lin::Ok => {}
        Lin::Skipped(why) => {
            out.add_label(format!("lin_skipped"));
            let _ = why;
        }
        Lin::Violation(d) => {
            // root-cause classifier: was one of the judged reads answered by a node that had already been
            // deposed (another node established a higher term before the read was invoked)?
            if let Some((s, dd)) = monitors::check_c12_deposed(res, filter, id) {
                out.violate(s, format!("{dd} || {d}"));
                return;
            }
            let sig = if d.contains("Read") { format!("{id}:non-linearizable-history") } else { format!("{id}:non-linearizable-writes") };
            out.violate(sig, d);
        }
    }
}

pub fn c10() -> SimCheck {
    SimCheck {
        id: "C10",
        bias: Bias {
            voters: vec![1, 3, 3, 5],
            w_read: 8,
            w_crash: 5,
            w_restart: 9,
            w_restart_cluster: 3,
            w_stop: 4,
            // slow disks: acknowledged entries stay memory-only for a while, so graceful stops must flush them
            w_disk_lag: 5,
            read_policies: vec![1],
            final_reads: true,
            ..write_bias()
        },
        quick: 900,
        thorough: 25_000,
        rule: "scenario = 1/3/5-node clusters, concurrent put/delete/CAS clients with unique values, faults as C05, graceful full-cluster restarts, ending with heal + restart of stopped nodes + a linearizable read of every key from the final leader; oracle: per-key Wing–Gong linearizability search over acknowledged writes (required), indeterminate writes (optional, may take effect any time after invoke), definite rejections (excluded) and linearizable reads incl. the final reads — an acknowledged write missing from a later linearizable read has no linearization; non-trivial = >=1 acknowledged write followed by a leader change or restart and a later successful read of that key; distinct by (leader map, faults, op outcomes)",
        assumptions: vec!["crashes are process crashes at arbitrary instants (written-but-unsynced data survives, everything in memory is lost): the fault model d-engine documents for its buffered log (\"process crash safe, power loss unsafe\"); power loss is explored by C18 on the log itself", "search budget exhaustion or >40 ops on one key = inconclusive for that key (label lin_skipped), never a violation"],
        required: vec!["writes_acked"],
        judge: |_sc, res, out| {
            let acked = res.ops.iter().filter(|o| matches!(o.outcome, OpOutcome::WriteOk)).count();
            let reads = res.ops.iter().filter(|o| matches!(o.outcome, OpOutcome::ReadOk(_))).count();
            let disrupted = count_leader_terms(res) >= 2 || res.labels.contains("restart") || res.labels.contains("restart_cluster");
            out.nontrivial = acked >= 1 && reads >= 1 && disrupted;
            let outcomes: Vec<String> = res.ops.iter().map(|o| format!("{:?}", std::mem::discriminant(&o.outcome))).collect();
            out.fingerprint = fp(&(leader_seq_fp(res), outcomes));
            if res.ops.iter().any(|o| o.final_read && matches!(o.outcome, OpOutcome::ReadOk(_))) {
                out.add_label("final_reads_ok");
            }
            lin_judge(res, out, "C10", &|o| matches!(o.kind, OpKind::Read { policy: Some(1), .. }));
        },
    }
}

pub fn c11() -> SimCheck {
    SimCheck {
        id: "C11",
        bias: Bias {
            w_read: 25,
            w_lag: 8,
            w_isolate: 10,
            w_partition: 6,
            leader_pct: 60,
            read_policies: vec![1, 1, 0],
            ..write_bias()
        },
        quick: 900,
        thorough: 25_000,
        rule: "scenario = C10 family biased to reads: leader isolated longer than the lease while its state machine lags, delayed acknowledgements, reads interleaved with writes at the old and the new leader, reads at non-leaders; oracle: the same per-key linearizability search where every successful read issued under the linearizable policy (explicit, or server default = linearizable) must fit; non-trivial = a successful linearizable read that overlapped or followed a partition/isolation/apply-lag fault; distinct by (leader map, faults, op outcomes)",
        assumptions: vec!["crashes are process crashes at arbitrary instants (written-but-unsynced data survives, everything in memory is lost): the fault model d-engine documents for its buffered log (\"process crash safe, power loss unsafe\"); power loss is explored by C18 on the log itself", "search budget exhaustion or >40 ops on one key = inconclusive for that key, never a violation"],
        required: vec!["writes_acked"],
        judge: |_sc, res, out| {
            let reads = res.ops.iter().filter(|o| matches!(o.outcome, OpOutcome::ReadOk(_))).count();
            let faulty = res.labels.iter().any(|l| ["partition", "isolate_leader", "apply_lag"].contains(&l.as_str()));
            out.nontrivial = reads >= 2 && faulty;
            if reads >= 1 {
                out.add_label("reads_ok");
            }
            let outcomes: Vec<String> = res.ops.iter().map(|o| format!("{:?}", std::mem::discriminant(&o.outcome))).collect();
            out.fingerprint = fp(&(leader_seq_fp(res), outcomes));
            // default policy of the simulated nodes is LinearizableRead, so policy None is linearizable too
            lin_judge(res, out, "C11", &|o| matches!(o.kind, OpKind::Read { policy: None | Some(1), .. }));
        },
    }
}

// ---------------------------------------------------------------------------------------------- C02
pub fn c02() -> SimCheck {
    SimCheck {
        id: "C02",
        bias: Bias {
            voters: vec![3, 3, 5],
            w_crash: 14,
            w_restart: 14,
            w_stop: 2,
            w_isolate: 6,
            w_partition: 6,
            w_put: 6,
            w_cas: 0,
            w_del: 0,
            w_read: 0,
            w_burst: 0,
            raw_crashes: true,
            dt_ms: (0, 300),
            ..Bias::default()
        },
        quick: 1200,
        thorough: 40_000,
        rule: "scenario = 3/5 real nodes, elections forced by partitions / leader isolation, and process crashes (written-but-unsynced data survives) of at most a minority at arbitrary instants — i.e. at every kind of point of a node's vote/term history, including right after a vote reply left the node — followed by restart from the simulated disk and further elections; oracle over the multi-incarnation message history: (a) per (node, term) the set of candidates it voted for (granted responses delivered + its own candidacy) has size <= 1, (b) a node never restarts in a term below one it had already acted in (sent/granted votes, sent AppendEntries, published leader info); non-trivial = a crash after the node granted a vote or adopted a new term, followed by a restart; distinct by (leader map, faults, restart terms)",
        assumptions: vec!["only delivered vote responses are observed (a grant whose reply was lost cannot be seen): the oracle under-approximates, never over-approximates"],
        required: vec!["crash"],
        judge: |_sc, res, out| {
            let mut nt = false;
            let mut restart_terms = vec![];
            for (_, e) in &res.history {
                if let Ev::NodeStart { node, incarnation, term, .. } = e {
                    if *incarnation > 1 {
                        restart_terms.push((*node, *term));
                        nt = true;
                    }
                }
            }
            out.nontrivial = nt && res.labels.contains("crash");
            out.fingerprint = fp(&(leader_seq_fp(res), restart_terms));
            if let Some((s, d)) = monitors::check_c02(res) {
                out.violate(s, d);
            }
        },
    }
}

// ---------------------------------------------------------------------------------------------- C07
pub fn c07_cluster() -> SimCheck {
    SimCheck {
        id: "C07",
        bias: Bias {
            w_isolate: 8,
            w_partition: 6,
            ..write_bias()
        },
        quick: 800,
        thorough: 20_000,
        rule: "cluster-level monitor for C07 (the component-level follower check is the primary one): a non-leader never moves its commit index beyond what some leader has committed, and every entry at or below a follower's commit index equals the committed sequence",
        assumptions: vec![],
        required: vec!["writes_acked"],
        judge: |_sc, res, out| {
            out.nontrivial = count_leader_terms(res) >= 2 && res.committed.max_index >= 3;
            out.fingerprint = fp(&(leader_seq_fp(res), res.committed.max_index));
            if let Some((s, d)) = monitors::check_c07_cluster(res) {
                out.violate(s, d);
            }
            checkpoint_violation(res, "C07", out);
        },
    }
}

// ---------------------------------------------------------------------------------------------- C12
pub fn c12() -> SimCheck {
    SimCheck {
        id: "C12",
        bias: Bias {
            voters: vec![3, 5, 5],
            w_read: 30,
            read_policies: vec![2, 2, 2, 1],
            w_isolate: 12,
            w_partition: 8,
            w_lag: 3,
            w_crash: 0,
            w_stop: 1,
            leader_pct: 70,
            dt_ms: (0, 250),
            ..write_bias()
        },
        quick: 1000,
        thorough: 30_000,
        rule: "scenario = 3/5-node clusters, LeaseRead requests through the Raft command path interleaved with writes, leader isolated (stall: acknowledgements of old heartbeats arrive late after the heal; break), minority-side leader that still reaches some followers, step-downs; all timing knobs pass validate() (lease <= election_min/2); oracle with the simulator's perfect clock: a lease read answered with data by node n, invoked after another node had already established itself (noop committed) as leader of a higher term, is a violation (whether lease reads also fit a linearization is recorded as a label only: C12 does not claim it); non-trivial = a lease read answered with data during/after a partition or isolation; distinct by (leader map, faults, op outcomes)",
        assumptions: vec![
            "only the Raft-loop lease path (ClientCmd::Read with LeaseRead) is driven here; the ReadActor/EmbeddedReadHandle fast paths read the same ReadLease object; instruction-level races between those threads and the loop are out of reach (DESIGN §9)",
            "the configuration-validation clause of C12 is decided by C34",
        ],
        required: vec![],
        judge: |_sc, res, out| {
            let lease_ok = res.ops.iter().filter(|o| matches!(o.kind, OpKind::Read { policy: Some(2), .. }) && matches!(o.outcome, OpOutcome::ReadOk(_))).count();
            let faulty = res.labels.iter().any(|l| ["partition", "isolate_leader"].contains(&l.as_str()));
            if lease_ok > 0 {
                out.add_label("lease_reads_ok");
            }
            out.nontrivial = lease_ok >= 1 && faulty;
            let outcomes: Vec<String> = res.ops.iter().map(|o| format!("{:?}", std::mem::discriminant(&o.outcome))).collect();
            out.fingerprint = fp(&(leader_seq_fp(res), outcomes));
            if let Some((s, d)) = monitors::check_c12_deposed(res, &|o| matches!(o.kind, OpKind::Read { policy: Some(2), .. }), "C12") {
                out.violate(s, d);
                return;
            }
            // C12 does not promise that lease reads are linearizable (a freshly elected leader with a valid
            // lease may answer before it has applied an entry its predecessor acknowledged): whether they are is
            // only recorded as a label. (False alarm corrected, see DESIGN.md.)
            if let Lin::Violation(_) = monitors::check_linearizable(res, &|o| matches!(o.kind, OpKind::Read { policy: Some(2), .. }), 40) {
                out.add_label("lease_read_history_not_linearizable");
            }
        },
    }
}

// ---------------------------------------------------------------------------------------------- C32
pub fn c32() -> SimCheck {
    SimCheck {
        id: "C32",
        bias: Bias {
            w_crash: 5,
            w_restart: 6,
            w_isolate: 8,
            w_partition: 8,
            probe_recovery: true,
            // clients that keep polling cluster metadata (every node, faster than the election timeout) while the
            // cluster recovers: traffic that is not from a leader must not keep followers from campaigning
            poll_metadata: true,
            tail_ms: (200, 600),
            ..write_bias()
        },
        quick: 800,
        thorough: 20_000,
        rule: "scenario = any C05-style fault prefix (partitions, isolation, stream resets, crashes/stops of a minority, loss, duplication, apply lag), then faults stop: network healed, default link parameters, every stopped node restarted; oracle (bounded liveness in virtual time): within Q = 100 x election_timeout_max after the heal a probe write sent to whichever node reports itself leader is acknowledged, and within the same bound every live voter's applied index reaches the probe's index; non-trivial = heal after >=2 distinct fault kinds; distinct by (leader map, faults, recovery time bucket)",
        assumptions: vec![
            "election retry policy is scaled with the generated election window exactly as d-engine's defaults relate (vote round < election_timeout_min)",
            "crashes are process crashes at arbitrary instants (written-but-unsynced data survives, everything in memory is lost): the fault model d-engine documents for its buffered log (\"process crash safe, power loss unsafe\"); power loss is explored by C18 on the log itself",
        ],
        required: vec![],
        judge: |_sc, res, out| {
            let kinds = res.labels.iter().filter(|l| ["partition", "isolate_leader", "crash", "stop", "stream_reset", "rpc_loss", "stream_dup", "apply_lag"].contains(&l.as_str())).count();
            out.nontrivial = kinds >= 2 && res.recovery_probed;
            let bucket = res.recovery_write_ok_after_ms.map(|m| m / 200);
            out.fingerprint = fp(&(leader_seq_fp(res), bucket));
            if !res.recovery_probed {
                return;
            }
            match res.recovery_write_ok_after_ms {
                None => out.violate(
                    "C32:no-successful-write-within-bound-after-heal",
                    format!("no probe write was acknowledged within {} ms (100 x election_timeout_max) after the faults stopped at t={}ms", res.recovery_bound_ms, res.heal_ms),
                ),
                Some(_) => {
                    if !res.recovery_unapplied.is_empty() {
                        out.violate(
                            "C32:live-voter-did-not-apply-committed-entries-within-bound",
                            format!("after recovery these live voters (node, applied, needed) lag behind: {:?}", res.recovery_unapplied),
                        );
                    }
                }
            }
        },
    }
}

// ---------------------------------------------------------------------------------------------- membership family
fn membership_bias() -> Bias {
    Bias {
        voters: vec![3, 3, 1],
        learners: 2,
        w_join: 12,
        w_put: 20,
        w_cas: 2,
        w_del: 1,
        w_burst: 3,
        w_read: 0,
        w_isolate: 6,
        w_partition: 4,
        w_crash: 0,
        w_stop: 3,
        w_restart: 6,
        w_lag: 4,
        w_reset: 2,
        steps: (8, 45),
        tail_ms: (2000, 4000),
        ..Bias::default()
    }
}

fn membership_labels(res: &RunResult, out: &mut Outcome) -> (bool, bool) {
    let mut promoted = false;
    let mut joined = false;
    let mut views: std::collections::BTreeSet<Vec<u32>> = Default::default();
    for (_, e) in &res.history {
        match e {
            Ev::Membership { voters, learners, .. } => {
                views.insert(voters.clone());
                if !learners.is_empty() {
                    joined = true;
                }
                if voters.len() as u32 > res.n_nodes {
                    promoted = true;
                }
            }
            _ => {}
        }
    }
    if joined {
        out.add_label("learner_in_membership");
    }
    if promoted {
        out.add_label("learner_promoted");
    }
    if views.len() >= 2 {
        out.add_label("voter_set_changed");
    }
    (joined, promoted)
}

pub fn c26() -> SimCheck {
    SimCheck {
        id: "C26",
        bias: membership_bias(),
        quick: 900,
        thorough: 25_000,
        rule: "scenario = 3 voters (or 1) plus 1-2 learners that discover the leader and join at generated moments and different lags, automatic (batch) promotion by the leader, per-node apply lag so that nodes apply the config entry at different times, leader isolation / partitions / restarts during the change, write load; oracle at every sampled instant, for every pair of live nodes that are voters in their own view: the quorum-intersection predicate max(0,q1-|V1\\V2|)+max(0,q2-|V2\\V1|) > |V1∩V2| on their current voter sets (no majority of one can be disjoint from a majority of the other); non-trivial = two nodes held different voter sets at some instant; distinct by (sequence of voter sets, faults)",
        assumptions: vec!["membership views are sampled after every scenario step and every 50 ms of the quiet tail, not at every instruction"],
        required: vec!["learner_join"],
        judge: |_sc, res, out| {
            let (_, _) = membership_labels(res, out);
            let mut sets: Vec<(u32, Vec<u32>)> = vec![];
            let mut cur: std::collections::BTreeMap<u32, Vec<u32>> = Default::default();
            let mut differ = false;
            for (_, e) in &res.history {
                if let Ev::Membership { node, voters, .. } = e {
                    cur.insert(*node, voters.clone());
                    sets.push((*node, voters.clone()));
                    let distinct: std::collections::BTreeSet<&Vec<u32>> = cur.values().collect();
                    if distinct.len() >= 2 {
                        differ = true;
                    }
                }
            }
            if differ {
                out.add_label("nodes_held_different_voter_sets");
            }
            out.nontrivial = differ;
            out.fingerprint = fp(&(sets, res.labels.iter().collect::<Vec<_>>()));
            // the quorum a leader actually USES to commit must be a majority of its current voter set (a leader that
            // keeps counting with the configuration from before a promotion commits with a quorum that need not
            // intersect the quorums of the new configuration)
            if let Some((s, d)) = monitors::check_c09_cluster(res) {
                if s == "C09:commit-without-voter-majority" {
                    out.violate("C26:commit-quorum-not-a-majority-of-current-voters", d);
                    return;
                }
            }
            if let Some((s, d)) = crate::sim::memmon::check_c26(res) {
                out.violate(s, d);
            }
        },
    }
}

pub fn c27() -> SimCheck {
    SimCheck {
        id: "C27",
        bias: Bias {
            w_isolate: 10,
            w_partition: 6,
            ..membership_bias()
        },
        quick: 900,
        thorough: 25_000,
        rule: "scenario = join / promote histories with learners at varying lag, elections forced while learners exist (vote requests reach every member the candidate knows), duplicate join requests for ids that already are members; oracle: no granted vote from a node that is a learner in its own view, no vote request originated by such a node, a join is answered with success only at or after the time its AddNode entry was first observed committed, a join for an id the leader already lists is never answered with success, and (C09 monitor) commits are backed by a majority of *voters* only; non-trivial = a learner was in some node's membership during an election or was promoted; distinct by (membership sequence, faults)",
        assumptions: vec!["'promotion only after catching up' is not judged directly (the leader's match_index is not observable); a learner counted towards a quorum would show up in the voter-majority monitor"],
        required: vec!["learner_join"],
        judge: |_sc, res, out| {
            let (joined, promoted) = membership_labels(res, out);
            out.nontrivial = joined && (promoted || count_leader_terms(res) >= 2);
            let mem: Vec<String> = res.history.iter().filter_map(|(_, e)| if let Ev::Membership { node, voters, learners, .. } = e { Some(format!("{node}:{voters:?}:{learners:?}")) } else { None }).collect();
            out.fingerprint = fp(&(mem, leader_seq_fp(res)));
            if let Some((s, d)) = crate::sim::memmon::check_c27(res) {
                out.violate(s, d);
                return;
            }
            if let Some((s, d)) = monitors::check_c09_cluster(res) {
                // a learner acknowledgement counted as a voter's would surface here
                out.violate(s.replace("C09:", "C27:quorum-"), d);
            }
        },
    }
}

pub fn c28() -> SimCheck {
    SimCheck {
        id: "C28",
        bias: Bias {
            w_stop: 8,
            w_restart: 12,
            w_restart_cluster: 2,
            w_isolate: 2,
            w_partition: 2,
            ..membership_bias()
        },
        quick: 900,
        thorough: 25_000,
        rule: "scenario = membership histories (learners join, get promoted) followed by graceful restarts of any node (or of the whole cluster) at generated points; oracle at the first membership sample of every restarted incarnation: its voters/learners equal its initial configuration plus every committed membership entry with index <= its applied index at that moment (reference membership model: AddNode -> learner, BatchPromote/Promote -> voter, Remove -> gone); non-trivial = a restart after >=1 applied membership change; distinct by (membership sequence, restart points)",
        assumptions: vec!["crash restarts are generated as graceful stops in this family so that the C02 finding cannot interfere"],
        required: vec!["learner_join", "restart"],
        judge: |sc, res, out| {
            let (joined, _) = membership_labels(res, out);
            let restarted = res.history.iter().any(|(_, e)| matches!(e, Ev::NodeStart { incarnation, .. } if *incarnation > 1));
            out.nontrivial = joined && restarted;
            let mem: Vec<String> = res.history.iter().filter_map(|(_, e)| if let Ev::Membership { node, incarnation, voters, .. } = e { Some(format!("{node}.{incarnation}:{voters:?}")) } else { None }).collect();
            out.fingerprint = fp(&mem);
            if let Some((s, d)) = crate::sim::memmon::check_c28(res, sc.voters as u32) {
                out.violate(s, d);
            }
        },
    }
}

pub fn c03() -> SimCheck {
    SimCheck {
        id: "C03",
        bias: Bias {
            voters: vec![1, 1, 3],
            w_isolate: 12,
            w_heal: 10,
            w_partition: 6,
            w_stop: 2,
            w_restart: 4,
            tail_ms: (3000, 5000),
            ..membership_bias()
        },
        quick: 900,
        thorough: 25_000,
        rule: "scenario = a node started with an initial cluster of size 1 (or 3), expanded by two learners that join and are promoted, then elections forced by isolating/healing the leader so that the original node loses leadership and campaigns again; oracle for every (node, term) in Leaders(T): with V = the node's own voter view when it first acted as leader of T, if |V|>1 it must have received granted vote responses for T from at least floor(|V|/2) other members before that moment; non-trivial = a leader was established while its voter view differed from the initial configuration; distinct by (membership sequence, leader map)",
        assumptions: vec!["only delivered vote responses count (a node cannot rely on a grant it never received)"],
        required: vec!["learner_join"],
        judge: |sc, res, out| {
            let (_, promoted) = membership_labels(res, out);
            let leaders = monitors::leaders_by_term(res);
            out.nontrivial = promoted && leaders.len() >= 2;
            if sc.voters == 1 && promoted {
                out.add_label("single_node_cluster_expanded");
            }
            let mem: Vec<String> = res.history.iter().filter_map(|(_, e)| if let Ev::Membership { node, voters, .. } = e { Some(format!("{node}:{voters:?}")) } else { None }).collect();
            out.fingerprint = fp(&(mem, leader_seq_fp(res)));
            if let Some((s, d)) = crate::sim::memmon::check_c03(res) {
                out.violate(s, d);
            }
        },
    }
}

// ---------------------------------------------------------------------------------------------- C14
pub fn c14() -> SimCheck {
    SimCheck {
        id: "C14",
        bias: Bias {
            leader_pct: 50,
            w_empty: 4,
            w_burst: 12,
            w_isolate: 8,
            tight_backpressure: true,
            short_noop_timeout: true,
            ..write_bias()
        },
        quick: 1000,
        thorough: 30_000,
        rule: "scenario = writes with globally unique values sent to every role (50% to non-leaders), empty commands, back-pressure limit 1..4 with bursts, leaders forced to step down (isolation, short noop deadline) with a non-empty propose buffer; oracle: a write answered with a definite rejection (failed_precondition 'Not leader', invalid_argument, resource_exhausted) never appears in any node's applied sequence; non-trivial = >=1 definite rejection at a node that was or later became leader, or a back-pressure rejection; distinct by (leader map, faults, rejection kinds)",
        assumptions: vec!["crashes are process crashes at arbitrary instants (written-but-unsynced data survives, everything in memory is lost): the fault model d-engine documents for its buffered log (\"process crash safe, power loss unsafe\"); power loss is explored by C18 on the log itself"],
        required: vec![],
        judge: |_sc, res, out| {
            let leaders: std::collections::BTreeSet<u32> = monitors::leaders_by_term(res).values().flatten().copied().collect();
            let mut kinds = std::collections::BTreeSet::new();
            let mut nt = false;
            for o in &res.ops {
                if let OpOutcome::Rejected(w) = &o.outcome {
                    let kind = w.split(':').next().unwrap_or("").to_string();
                    if leaders.contains(&o.node) || kind == "ResourceExhausted" {
                        nt = true;
                    }
                    out.add_label(format!("rejected_{kind}"));
                    kinds.insert(kind);
                }
            }
            out.labels.sort();
            out.labels.dedup();
            out.nontrivial = nt;
            out.fingerprint = fp(&(leader_seq_fp(res), kinds));
            if let Some((s, d)) = monitors::check_c14(res) {
                out.violate(s, d);
            }
        },
    }
}

// ---------------------------------------------------------------------------------------------- C29
pub fn c29() -> SimCheck {
    SimCheck {
        id: "C29",
        bias: Bias {
            w_burst: 25,
            w_cas: 12,
            w_lag: 6,
            w_isolate: 4,
            w_partition: 2,
            w_crash: 0,
            w_stop: 1,
            ..write_bias()
        },
        quick: 1000,
        thorough: 30_000,
        rule: "scenario = bursts of 2..20 concurrent put/CAS (two keys, CAS chained on the previous value so that some succeed and some fail inside one batch) mixed with single writes, apply lag, step-downs; oracle: each request's unique value locates its log entry in the serving node's apply log; a success/CAS-failed response at time t implies that node applied the entry at or before t and the index is committed; the CAS response's succeeded flag equals the outcome applied at that entry (so no request receives another request's outcome); non-trivial = a batch with >=2 CAS on one key answered; distinct by (leader map, op outcomes)",
        assumptions: vec!["'exactly one response' is enforced by the oneshot channel type itself; a missing response is judged by C30"],
        required: vec!["writes_acked"],
        judge: |_sc, res, out| {
            let cas_answered = res.ops.iter().filter(|o| matches!(o.kind, OpKind::Cas { .. }) && matches!(o.outcome, OpOutcome::WriteOk | OpOutcome::CasFailed)).count();
            let cas_failed = res.ops.iter().filter(|o| matches!(o.outcome, OpOutcome::CasFailed)).count();
            if cas_failed > 0 {
                out.add_label("cas_failed_seen");
            }
            out.nontrivial = cas_answered >= 2;
            let outcomes: Vec<String> = res.ops.iter().map(|o| format!("{:?}", std::mem::discriminant(&o.outcome))).collect();
            out.fingerprint = fp(&(leader_seq_fp(res), outcomes));
            if let Some((s, d)) = monitors::check_c29(res) {
                out.violate(s, d);
            }
        },
    }
}

// ---------------------------------------------------------------------------------------------- C30
pub fn c30() -> SimCheck {
    SimCheck {
        id: "C30",
        bias: Bias {
            w_read: 15,
            read_policies: vec![0, 1, 2, 3],
            w_isolate: 10,
            w_partition: 8,
            w_burst: 8,
            // no artificial state-machine slowness here: a response that waits for a slow apply is late because
            // of the state machine, which the property's deadline mechanisms (commit/read/lease/join sweeps) do not cover
            w_lag: 0,
            w_crash: 0,
            w_stop: 0,
            w_restart: 0,
            short_noop_timeout: true,
            tail_ms: (2500, 4000),
            ..write_bias()
        },
        quick: 1000,
        thorough: 30_000,
        rule: "scenario = reads (all policies) and writes outstanding while the leader steps down (higher-term response, noop deadline), is isolated, or permanently loses quorum; oracle: every request accepted by a node is answered — never left pending, never has its response channel dropped — no later than invoke + general_raft_timeout + slack (2 heartbeat ticks + 2 election_timeout_max, because the code documents tick-granular expiry and a candidate's vote round blocks the loop), in virtual time; requests cut short by the serving node's own stop are not judged; non-trivial = >=1 request still outstanding when a step-down/isolation happened; distinct by (leader map, faults, op outcomes)",
        assumptions: vec!["deadline = general_raft_timeout_duration_in_ms as used for pending_client_writes / pending_reads / pending_lease_reads"],
        required: vec![],
        judge: |sc, res, out| {
            let slack = 2 * res.tick_ms + 2 * (sc.knobs.election_min_ms as u64 + sc.knobs.election_span_ms as u64) + 50;
            let faulty = res.labels.iter().any(|l| ["partition", "isolate_leader"].contains(&l.as_str()));
            let slow = res.ops.iter().filter(|o| o.return_ms.map(|r| r > o.invoke_ms + 20).unwrap_or(true)).count();
            out.nontrivial = faulty && slow >= 1;
            let outcomes: Vec<String> = res.ops.iter().map(|o| format!("{:?}", std::mem::discriminant(&o.outcome))).collect();
            out.fingerprint = fp(&(leader_seq_fp(res), outcomes));
            if let Some((s, d)) = monitors::check_c30(res, slack) {
                out.violate(s, d);
            }
        },
    }
}

// ---------------------------------------------------------------------------------------------- C33
pub fn c33() -> SimCheck {
    SimCheck {
        id: "C33",
        bias: Bias {
            snapshots: true,
            probe_recovery: true,
            w_put: 20,
            w_burst: 18,
            w_cas: 6,
            w_del: 3,
            w_read: 0,
            w_isolate: 6,
            w_partition: 8,
            w_crash: 6,
            w_stop: 3,
            w_restart: 9,
            w_restart_cluster: 2,
            w_lag: 4,
            steps: (10, 45),
            tail_ms: (300, 800),
            ..write_bias()
        },
        quick: 900,
        thorough: 25_000,
        rule: "scenario = write-heavy load (bursts) on 3/5 real nodes with snapshots enabled (threshold 1..30 entries, retained 1..3), lagging / cut-off / crashed / stopped followers that fall below the leader's purge boundary, leader crashes and restarts, full-cluster restarts, apply lag; then faults stop; oracle (a) at every step on every live node: purge boundary <= highest committed index and <= last_included of the snapshot that node holds; (b) committed entries are not lost by compaction (C05 checkpoints); (c) bounded liveness: within 100 x election_timeout_max after the heal a probe write is acknowledged and every live voter has applied it — by log or by snapshot; (d) every node's final state equals the reference model folded over the committed prefix up to its applied index (snapshot installs included); non-trivial = some log was purged and afterwards a node was restarted or installed a snapshot; distinct by (leader map, faults, purge/installs shape)",
        assumptions: vec![
            "the simulated state machine implements snapshots correctly (as-of-index images, metadata persisted with the image) and the simulated log store persists the purge boundary: engine-specific snapshot/purge persistence of the File and RocksDB engines is covered by C15/C16/C18/C20, not here",
            "crashes are process crashes at arbitrary instants (written-but-unsynced data survives): the fault model d-engine documents for its buffered log",
        ],
        required: vec!["log_purged"],
        judge: |_sc, res, out| {
            c33_judge(res, out);
            // root-cause classifier for whatever was found: did a node install a snapshot that ends below
            // what it had already applied? (the consequences show up as purge-boundary, gap or state violations)
            if let Some(v) = out.violation.as_mut() {
                if let Some(desc) = c33_stale_install(res) {
                    v.detail = format!("{desc}; consequence: {}: {}", v.signature, v.detail);
                    v.signature = "C33:stale-snapshot-install-rolls-back-applied-state".into();
                } else if let Some(desc) = c33_applied_below_install(res) {
                    v.detail = format!("{desc}; consequence: {}: {}", v.signature, v.detail);
                    v.signature = "C33:entries-below-installed-snapshot-applied-on-top-of-it".into();
                }
            }
        },
    }
}

/// An entry at or below the last_included index of a snapshot the node installed earlier in the same
/// incarnation was applied on top of that snapshot (the chunk had been dispatched before the install).
fn c33_applied_below_install(res: &RunResult) -> Option<String> {
    for a in &res.applies.applied {
        if a.index <= a.prev_applied {
            if let Some(ins) = res.applies.installs.iter().find(|i| i.node == a.node && i.incarnation == a.incarnation && i.at_ms <= a.at_ms && i.last_included >= a.index) {
                return Some(format!(
                    "node {} (incarnation {}) installed a snapshot ending at {} (t={}ms) and afterwards applied index {} on top of it (state machine last_applied before the chunk = {}, t={}ms)",
                    a.node, a.incarnation, ins.last_included, ins.at_ms, a.index, a.prev_applied, a.at_ms
                ));
            }
        }
    }
    None
}

fn c33_stale_install(res: &RunResult) -> Option<String> {
    for ins in &res.applies.installs {
        let started_at = res
            .history
            .iter()
            .filter_map(|(_, e)| if let Ev::NodeStart { node, incarnation, last_applied, .. } = e { (*node == ins.node && *incarnation == ins.incarnation).then_some(*last_applied) } else { None })
            .next()
            .unwrap_or(0);
        let applied_before = res
            .applies
            .applied
            .iter()
            .filter(|a| a.node == ins.node && a.incarnation == ins.incarnation && a.at_ms < ins.at_ms)
            .map(|a| a.index)
            .max()
            .unwrap_or(0)
            .max(started_at);
        if ins.last_included < applied_before {
            return Some(format!("node {} (incarnation {}) had applied up to {applied_before} and then installed a snapshot ending at {} (t={}ms)", ins.node, ins.incarnation, ins.last_included, ins.at_ms));
        }
    }
    None
}

fn c33_judge(res: &RunResult, out: &mut Outcome) {
    let purged = res.labels.contains("log_purged");
    let installs = res.applies.installs.len();
    if installs > 0 {
        out.add_label("snapshot_installed_on_follower");
    }
    let restarted = res.labels.contains("restart") || res.labels.contains("restart_cluster");
    out.nontrivial = purged && (installs > 0 || restarted);
    let shape: Vec<(u32, u64)> = res.applies.installs.iter().map(|i| (i.node, i.last_included)).collect();
    let firsts: Vec<(u32, u64)> = res.final_nodes.iter().map(|n| (n.id, n.first)).collect();
    out.fingerprint = fp(&(leader_seq_fp(res), shape, firsts));
    checkpoint_violation(res, "C33", out);
    if out.violation.is_some() {
        return;
    }
    if let Some((_, sig, detail)) = res.checkpoint_violations.iter().find(|(p, _, _)| p == "C05") {
        out.violate(format!("C33:committed-entry-lost-with-compaction({sig})"), detail.clone());
        return;
    }
    if res.recovery_probed {
        match res.recovery_write_ok_after_ms {
            None => {
                out.violate(
                    "C33:no-successful-write-within-bound-after-heal",
                    format!("no probe write was acknowledged within {} ms (100 x election_timeout_max) after the faults stopped at t={}ms", res.recovery_bound_ms, res.heal_ms),
                );
                return;
            }
            Some(_) => {
                if !res.recovery_unapplied.is_empty() {
                    out.violate(
                        "C33:lagging-voter-not-caught-up-across-purge-boundary",
                        format!("after recovery these live voters (node, applied, needed) lag behind: {:?}; final (node, first, last) = {:?}", res.recovery_unapplied, res.final_nodes.iter().map(|n| (n.id, n.first, n.last)).collect::<Vec<_>>()),
                    );
                    return;
                }
            }
        }
    }
    if let Some((s, d)) = monitors::check_c06(res) {
        out.violate(format!("C33:state-after-compaction-differs({s})"), d);
    }
}
