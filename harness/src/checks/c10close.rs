//! Auxiliary engine of C10: "a graceful stop ... preserves it" at the level of one node's log.
//!
//! The real `BufferedRaftLog` over the simulated disk (optionally slow), IO task on the test runtime. A case is a
//! sequence of appends / yields / disk-speed changes followed by `RaftLog::close()` (what `Raft::run` calls on the
//! shutdown signal). Oracle: once the IO task has finished its shutdown work, the store holds every entry that
//! `append_entries` had accepted before `close()` was called — the entries a follower has acknowledged and a leader
//! counts towards its quorum. (The cluster-level C10 check cannot reach the windows where only the last poll's
//! appends are unwritten, because acknowledged entries are at least one message round trip old there.)
use std::time::Duration;

use bytes::Bytes;
use d_engine_core::{BufferedRaftLog, RaftLog, RaftNodeConfig};
use d_engine_proto::common::{Entry, EntryPayload};
use proptest::prelude::*;
use serde::{Deserialize, Serialize};

use crate::runner::{fp, Check, Outcome, Tier};
use crate::sim::disk::SimDisk;
use crate::sim::SimT;

#[derive(Clone, Debug, Serialize, Deserialize, Hash)]
pub enum Op {
    Append { n: u8 },
    /// let other tasks (the IO task) run `n` times
    Yield { n: u8 },
    /// virtual time passes
    Sleep { ms: u16 },
    DiskLag { ms: u16 },
    Flush,
}

#[derive(Clone, Debug, Serialize, Deserialize, Hash)]
pub struct Case {
    pub ops: Vec<Op>,
}

#[derive(Clone)]
pub struct C10Close;

impl Check for C10Close {
    type Case = Case;
    fn id(&self) -> &'static str {
        "C10"
    }
    fn rule(&self) -> String {
        "case = 1..14 ops on one real BufferedRaftLog over the simulated disk {append 1..5 entries, yield to the IO task, let virtual time pass, change the disk latency (0..400 ms per persist), flush} followed by close(); oracle: after the IO task finished its shutdown, every entry accepted by append_entries before close() is in the store; non-trivial = at least one entry was still memory-only (above durable_index) when close() was called; distinct by (ops, index of the first memory-only entry)".into()
    }
    fn assumptions(&self) -> Vec<String> {
        vec![
            "IO task runs on the test runtime (hook io_task_on_caller_runtime), paused tokio clock; tokio's select! picks among ready branches at random, so a case explores one of the possible branch orders per run".into(),
            "close() is called once, after the last op (as Raft::run does after leaving its loop)".into(),
        ]
    }
    fn cases(&self, tier: Tier) -> u32 {
        match tier {
            Tier::Quick => 20_000,
            Tier::Thorough => 1_000_000,
        }
    }
    fn required_labels(&self) -> Vec<&'static str> {
        vec!["memory_only_at_close"]
    }
    fn strategy(&self, _tier: Tier) -> BoxedStrategy<Case> {
        let op = prop_oneof![
            6 => (1u8..6).prop_map(|n| Op::Append { n }),
            3 => (1u8..4).prop_map(|n| Op::Yield { n }),
            2 => (1u16..500).prop_map(|ms| Op::Sleep { ms }),
            2 => prop_oneof![Just(0u16), 1u16..400].prop_map(|ms| Op::DiskLag { ms }),
            1 => Just(Op::Flush),
        ];
        proptest::collection::vec(op, 1..=14).prop_map(|ops| Case { ops }).boxed()
    }
    fn run(&self, c: &Case) -> Outcome {
        let mut out = Outcome::ok();
        let rt = tokio::runtime::Builder::new_current_thread().enable_all().start_paused(true).build().expect("runtime");
        let ops = c.ops.clone();
        let (appended, durable_at_close, stored, flush_err): (u64, u64, Vec<u64>, Option<String>) = rt.block_on(async move {
            d_engine_core::verif_hooks::set_io_task_on_caller_runtime(true);
            let disk = SimDisk::new();
            let (log, rx) = BufferedRaftLog::<SimT>::new(1, RaftNodeConfig::default().raft.persistence.clone(), disk.storage());
            let log = log.start(rx, None);
            let mut next = 1u64;
            let mut flush_err = None;
            for op in &ops {
                match op {
                    Op::Append { n } => {
                        let es: Vec<Entry> = (0..*n as u64)
                            .map(|k| Entry { index: next + k, term: 1, payload: Some(EntryPayload::command(Bytes::from(format!("e{}", next + k).into_bytes()))) })
                            .collect();
                        next += *n as u64;
                        let _ = log.append_entries(es).await;
                    }
                    Op::Yield { n } => {
                        for _ in 0..*n {
                            tokio::task::yield_now().await;
                        }
                    }
                    Op::Sleep { ms } => tokio::time::sleep(Duration::from_millis(*ms as u64)).await,
                    Op::DiskLag { ms } => disk.set_lag_ms(*ms as u64),
                    Op::Flush => {
                        if let Err(e) = log.flush().await {
                            flush_err = Some(format!("{e:?}"));
                        }
                    }
                }
            }
            let durable = log.durable_index();
            log.close().await;
            // the IO task finishes its shutdown work (any in-flight slow persist included)
            tokio::time::sleep(Duration::from_secs(30)).await;
            let stored: Vec<u64> = disk.cache_log().entries.keys().copied().collect();
            d_engine_core::verif_hooks::set_io_task_on_caller_runtime(false);
            (next - 1, durable, stored, flush_err)
        });
        drop(rt);
        if flush_err.is_some() {
            out.add_label("flush_failed");
        }
        if appended > durable_at_close {
            out.add_label("memory_only_at_close");
            out.nontrivial = true;
        }
        out.fingerprint = fp(&(c, durable_at_close));
        let missing: Vec<u64> = (1..=appended).filter(|i| !stored.contains(i)).collect();
        if !missing.is_empty() {
            out.violate(
                "C10:graceful-close-lost-accepted-entries",
                format!("{appended} entries were appended (durable_index {durable_at_close} when close() was called) but after the graceful close the store lacks indexes {missing:?}; ops {:?}", c.ops),
            );
        }
        out
    }
}
