//! C20 — File and RocksDB log stores honour the storage contract.
//!
//! Model part: a generated op sequence (persist in any order / rewrites / gaps, truncate incl. beyond
//! the last index, replace_range, purge, reset, flush, reopen) is applied to `FileLogStore`,
//! `RocksDBLogStore` and a `BTreeMap` reference. After every op (and after every reopen) `entry(i)`
//! for all small i, `get_entries` over several ranges, `last_index()` and `load_purge_boundary()` are
//! compared with the reference; the two engines are also compared with each other.
//! Reference semantics (trait docs + property statement): entries = last write per index that was not
//! truncated / purged / reset; last_index = highest index currently stored (0 if empty);
//! purge boundary = LogId of the last `purge()` call (None if never purged), live and after reopen.
//!
//! Crash part: `replace_range` atomicity under a process crash — a child process runs a prefix of
//! "clean" ops, records the store content, and aborts at every crash point inside `replace_range`
//! (File: `log.replace.after_set_len|after_entry_write`) and right after it returned (File and
//! RocksDB); after reopen the store must hold either the old or the new content.
//!
//! When a deviation is found the engine is brought back in line with the reference using legitimate
//! operations only (reopen; if needed reset + purge + persist + reopen), so that the rest of the
//! sequence is still judged and one root cause cannot mask another.
use std::cell::Cell;
use std::collections::BTreeMap;
use std::path::{Path, PathBuf};
use std::rc::Rc;

use d_engine_core::{verif_hooks, Error, LogStore, StorageEngine};
use d_engine_proto::common::{Entry, LogId};
use d_engine_server::{FileStorageEngine, RocksDBStorageEngine};
use proptest::prelude::*;
use serde::{Deserialize, Serialize};

use super::simdisk::{crash_now, ent_of, ents_of, mk_entry, read_obs, read_spec, spawn_child, sub_dir, ChildExit, Ent, Findings, ObsLog};
use crate::runner::{fp, rm_dir, work_dir, Check, Outcome, Tier};

const MAXI: u8 = 14;

#[derive(Clone, Debug, Serialize, Deserialize, Hash, PartialEq)]
pub enum Op {
    /// persist a batch with explicit (index, term) pairs: any order, rewrites, gaps, duplicates
    Persist { ents: Vec<(u8, u8)> },
    /// persist `n` consecutive entries starting at `start`
    PersistRun { start: u8, n: u8, term: u8 },
    /// persist `n` consecutive entries right after the highest stored index (the IO task's shape)
    PersistTail { n: u8, term: u8 },
    Truncate { from: u8 },
    /// replace_range(from, n consecutive entries starting at from) — the IO task's shape
    Replace { from: u8, n: u8, term: u8 },
    /// replace_range(from, arbitrary entries)
    ReplaceAny { from: u8, ents: Vec<(u8, u8)> },
    Purge { idx: u8, term: u8 },
    Reset,
    Flush,
    Reopen,
}

#[derive(Clone, Debug, Serialize, Deserialize, Hash)]
pub struct CrashTail {
    pub from: u8,
    pub ents: Vec<(u8, u8)>,
    /// true: entries are renumbered consecutively from `from` (the real caller's shape)
    pub consecutive: bool,
}

#[derive(Clone, Debug, Serialize, Deserialize, Hash)]
pub struct Case {
    pub ops: Vec<Op>,
    /// extra get_entries ranges (lo, len)
    pub ranges: Vec<(u8, u8)>,
    /// Some: crash-atomicity case (ops are a clean prefix, then replace_range with crashes)
    pub crash: Option<CrashTail>,
}

#[derive(Clone, Debug)]
enum Conc {
    Persist(Vec<Entry>),
    Truncate(u64),
    Replace(u64, Vec<Entry>),
    Purge(LogId),
    Reset,
    Flush,
    Reopen,
}
impl Conc {
    fn kind(&self) -> &'static str {
        match self {
            Conc::Persist(_) => "persist",
            Conc::Truncate(_) => "truncate",
            Conc::Replace(..) => "replace-range",
            Conc::Purge(_) => "purge",
            Conc::Reset => "reset",
            Conc::Flush => "flush",
            Conc::Reopen => "reopen",
        }
    }
}

/// Turns a generated op into concrete store arguments. `cur_max` = highest index currently stored.
fn concretize(op: &Op, op_idx: usize, cur_max: u64) -> Conc {
    let uid = |pos: usize| ((op_idx as u32) << 8) | pos as u32;
    match op {
        Op::Persist { ents } => Conc::Persist(ents.iter().enumerate().map(|(p, (i, t))| mk_entry(*i as u64, *t as u64, uid(p))).collect()),
        Op::PersistRun { start, n, term } => Conc::Persist((0..*n as u64).map(|k| mk_entry(*start as u64 + k, *term as u64, uid(k as usize))).collect()),
        Op::PersistTail { n, term } => Conc::Persist((0..*n as u64).map(|k| mk_entry(cur_max + 1 + k, *term as u64, uid(k as usize))).collect()),
        Op::Truncate { from } => Conc::Truncate(*from as u64),
        Op::Replace { from, n, term } => Conc::Replace(*from as u64, (0..*n as u64).map(|k| mk_entry(*from as u64 + k, *term as u64, uid(k as usize))).collect()),
        Op::ReplaceAny { from, ents } => Conc::Replace(*from as u64, ents.iter().enumerate().map(|(p, (i, t))| mk_entry(*i as u64, *t as u64, uid(p))).collect()),
        Op::Purge { idx, term } => Conc::Purge(LogId { index: *idx as u64, term: *term as u64 }),
        Op::Reset => Conc::Reset,
        Op::Flush => Conc::Flush,
        Op::Reopen => Conc::Reopen,
    }
}
fn concretize_tail(t: &CrashTail, op_idx: usize) -> (u64, Vec<Entry>) {
    let from = t.from as u64;
    let ents = t
        .ents
        .iter()
        .enumerate()
        .map(|(p, (i, term))| {
            let idx = if t.consecutive { from + p as u64 } else { *i as u64 };
            mk_entry(idx, *term as u64, ((op_idx as u32) << 8) | p as u32)
        })
        .collect();
    (from, ents)
}

// ------------------------------------------------------------------------------------------------
// reference model
// ------------------------------------------------------------------------------------------------
#[derive(Default, Clone)]
struct Ref {
    ents: BTreeMap<u64, Entry>,
    b_last: Option<LogId>,
    b_max: Option<LogId>,
    /// a reset happened after the last purge: the docs do not say whether the boundary survives it
    b_none_ok: bool,
}
impl Ref {
    fn last(&self) -> u64 {
        self.ents.keys().next_back().copied().unwrap_or(0)
    }
    fn apply(&mut self, c: &Conc) {
        match c {
            Conc::Persist(v) => {
                for e in v {
                    self.ents.insert(e.index, e.clone());
                }
            }
            Conc::Truncate(from) => self.ents.retain(|&i, _| i < *from),
            Conc::Replace(from, v) => {
                self.ents.retain(|&i, _| i < *from);
                for e in v {
                    self.ents.insert(e.index, e.clone());
                }
            }
            Conc::Purge(l) => {
                self.ents.retain(|&i, _| i > l.index);
                self.b_last = Some(*l);
                if self.b_max.is_none_or(|m| l.index >= m.index) {
                    self.b_max = Some(*l);
                }
                self.b_none_ok = false;
            }
            Conc::Reset => {
                self.ents.clear();
                if self.b_last.is_some() {
                    self.b_none_ok = true;
                }
            }
            Conc::Flush | Conc::Reopen => {}
        }
    }
    fn boundary_ok(&self, b: &Option<LogId>) -> bool {
        match b {
            None => self.b_last.is_none() || self.b_none_ok,
            Some(_) => *b == self.b_last || *b == self.b_max,
        }
    }
}

#[derive(Clone, Debug, PartialEq)]
struct StepObs {
    ents: Vec<Ent>,
    last: u64,
    boundary: Option<(u64, u64)>,
}

struct Live<SE: StorageEngine> {
    name: &'static str,
    dir: PathBuf,
    open: fn(&Path) -> Result<SE, Error>,
    eng: Option<SE>,
}
impl<SE: StorageEngine> Live<SE> {
    fn store(&self) -> std::sync::Arc<SE::LogStore> {
        self.eng.as_ref().expect("engine open").log_store()
    }
    /// drop every handle (RocksDB releases its LOCK file), then open the same directory again
    fn reopen(&mut self) -> Result<(), String> {
        self.eng = None;
        match (self.open)(&self.dir) {
            Ok(e) => {
                self.eng = Some(e);
                Ok(())
            }
            Err(e) => Err(format!("{e:?}")),
        }
    }
    async fn apply(&mut self, c: &Conc) -> Result<(), String> {
        let r = match c {
            Conc::Persist(v) => self.store().persist_entries(v.clone()).await,
            Conc::Truncate(f) => self.store().truncate(*f).await,
            Conc::Replace(f, v) => self.store().replace_range(*f, v.clone()).await,
            Conc::Purge(l) => self.store().purge(*l).await,
            Conc::Reset => self.store().reset().await,
            Conc::Flush => self.store().flush(),
            Conc::Reopen => return self.reopen(),
        };
        r.map_err(|e| format!("{e:?}"))
    }
}

#[derive(Default)]
struct Flags {
    /// File only: records in log.data are in strictly ascending index order without duplicates
    sorted: bool,
    /// File only: a truncate / replace_range ran while the file was not in index order
    trunc_on_unsorted: bool,
}

struct Dev {
    entries: Option<String>,
    last: Option<String>,
    boundary: Option<String>,
}

/// Reads everything observable from the store and compares it with the reference.
async fn observe<SE: StorageEngine>(lv: &Live<SE>, m: &Ref, ranges: &[(u8, u8)]) -> (StepObs, Dev) {
    let st = lv.store();
    let mut dev = Dev { entries: None, last: None, boundary: None };
    let all = st.get_entries(0..=u64::MAX);
    let ref_all: Vec<Entry> = m.ents.values().cloned().collect();
    let obs_ents = match &all {
        Ok(v) => ents_of(v),
        Err(_) => vec![],
    };
    match &all {
        Ok(v) if *v == ref_all => {}
        Ok(v) => dev.entries = Some(format!("get_entries(0..=MAX) = {:?}, reference = {:?}", ents_of(v), ents_of(&ref_all))),
        Err(e) => dev.entries = Some(format!("get_entries(0..=MAX) failed: {e:?}")),
    }
    if dev.entries.is_none() {
        for i in 0..=(MAXI as u64 + 6) {
            let got = st.entry(i).await;
            let want = m.ents.get(&i).cloned();
            match got {
                Ok(g) if g == want => {}
                other => {
                    dev.entries = Some(format!("entry({i}) = {:?}, reference = {:?} (get_entries(all) agreed with the reference)", other.map(|o| o.as_ref().map(ent_of)), want.as_ref().map(ent_of)));
                    break;
                }
            }
        }
    }
    if dev.entries.is_none() {
        let mut rs: Vec<(u64, u64)> = ranges.iter().map(|(lo, len)| (*lo as u64, *lo as u64 + *len as u64)).collect();
        if m.last() >= 1 {
            rs.push((1, m.last()));
        }
        for (a, b) in rs {
            let want: Vec<Entry> = m.ents.range(a..=b).map(|(_, e)| e.clone()).collect();
            match st.get_entries(a..=b) {
                Ok(v) if v == want => {}
                other => {
                    dev.entries = Some(format!("get_entries({a}..={b}) = {:?}, reference = {:?}", other.map(|v| ents_of(&v)), ents_of(&want)));
                    break;
                }
            }
        }
    }
    let last = st.last_index();
    if last != m.last() {
        dev.last = Some(format!("last_index() = {last}, reference (highest stored index) = {}", m.last()));
    }
    let b = st.load_purge_boundary();
    let bobs = match &b {
        Ok(x) => x.map(|l| (l.index, l.term)),
        Err(_) => None,
    };
    match &b {
        Ok(x) if m.boundary_ok(x) => {}
        Ok(x) => dev.boundary = Some(format!("load_purge_boundary() = {:?}, reference = last purge {:?}", x, m.b_last)),
        Err(e) => dev.boundary = Some(format!("load_purge_boundary() failed: {e:?}")),
    }
    (StepObs { ents: obs_ents, last, boundary: bobs }, dev)
}

#[derive(Default)]
struct Stats {
    heals_light: u64,
    heals_reopen: u64,
    heals_full: u64,
    dead: u64,
}

/// Runs the whole sequence on one engine. Returns one observation per op (None once the engine could
/// not be brought back in line) and a per-op flag telling whether the step deviated.
async fn exec<SE: StorageEngine>(mut lv: Live<SE>, case: &Case, f: &mut Findings, stats: &mut Stats, labels: &mut Vec<&'static str>) -> Vec<Option<(StepObs, bool)>> {
    let name = lv.name;
    let is_file = name == "file";
    let mut m = Ref::default();
    let mut fl = Flags { sorted: true, trunc_on_unsorted: false };
    let mut out = vec![];
    let mut dead = false;
    let mut purged_since_reopen = false;
    for (i, op) in case.ops.iter().enumerate() {
        if dead {
            out.push(None);
            continue;
        }
        let before_last = m.last();
        let c = concretize(op, i, before_last);
        // ---- labels / file layout bookkeeping (from the reference, i.e. the intended content) ----
        match &c {
            Conc::Persist(v) => {
                if let (Some(mn), Some(mx)) = (v.iter().map(|e| e.index).min(), v.iter().map(|e| e.index).max()) {
                    if mx < before_last {
                        labels.push("rewrite_lower_after_higher");
                    }
                    if mn > before_last + 1 {
                        labels.push("gap_persist");
                    }
                    if v.windows(2).any(|w| w[1].index < w[0].index) {
                        labels.push("out_of_order_batch");
                    }
                    let asc = v.windows(2).all(|w| w[1].index > w[0].index);
                    fl.sorted = fl.sorted && asc && mn > before_last;
                }
            }
            Conc::Truncate(from) => {
                if *from > before_last {
                    labels.push("truncate_beyond_last");
                }
                if !fl.sorted {
                    fl.trunc_on_unsorted = true;
                }
            }
            Conc::Replace(from, v) => {
                labels.push("replace_range");
                if !fl.sorted {
                    fl.trunc_on_unsorted = true;
                }
                let rem_max = m.ents.range(..*from).next_back().map(|(k, _)| *k).unwrap_or(0);
                if let Some(mn) = v.iter().map(|e| e.index).min() {
                    let asc = v.windows(2).all(|w| w[1].index > w[0].index);
                    fl.sorted = fl.sorted && asc && mn > rem_max;
                }
            }
            Conc::Purge(l) => {
                purged_since_reopen = true;
                if m.b_last.is_some_and(|b| l.index < b.index) {
                    labels.push("purge_nonmonotone");
                }
                if l.index >= before_last && before_last > 0 {
                    labels.push("purge_everything");
                }
            }
            Conc::Reset => {}
            Conc::Flush => {}
            Conc::Reopen => {
                labels.push("reopen");
                if m.b_last.is_some() {
                    labels.push("purge_then_reopen");
                }
            }
        }
        let _ = purged_since_reopen;
        let kind = c.kind();
        let r = lv.apply(&c).await;
        if let Err(e) = &r {
            if matches!(c, Conc::Reopen) {
                f.add(format!("C20:{name}-reopen-failed"), format!("op #{i} {op:?}: reopening the directory failed: {e}"));
                dead = true;
                stats.dead += 1;
                out.push(None);
                continue;
            }
            f.add(format!("C20:{name}-{kind}-returned-error"), format!("op #{i} {op:?} returned {e}"));
        }
        if r.is_ok() {
            m.apply(&c);
            if matches!(c, Conc::Purge(_) | Conc::Reset) {
                fl.sorted = true;
                fl.trunc_on_unsorted = false; // the file was rewritten from memory
            }
        }
        let (obs, dev) = observe(&lv, &m, &case.ranges).await;
        let deviated = dev.entries.is_some() || dev.last.is_some() || dev.boundary.is_some();
        let ctx = format!("engine={name} after op #{i} {op:?}");
        if let Some(d) = &dev.entries {
            let sig = if is_file && matches!(c, Conc::Reopen) && fl.trunc_on_unsorted {
                "C20:file-truncate-offset-assumes-index-order".to_string()
            } else {
                format!("C20:{name}-entries-differ-after-{kind}")
            };
            f.add(sig, format!("{ctx}: {d}"));
        }
        // a wrong last_index that merely mirrors wrong entries (it equals the engine's own highest
        // index) is a consequence of the entries deviation, not a separate root cause
        let last_is_consequence = dev.entries.is_some() && obs.last == obs.ents.last().map(|e| e.0).unwrap_or(0);
        if let Some(d) = dev.last.as_ref().filter(|_| !last_is_consequence) {
            let eng_last = obs.last;
            let sig = match &c {
                Conc::Persist(v) if v.iter().map(|e| e.index).max() == Some(eng_last) && m.last() > eng_last => format!("C20:{name}-last-index-from-batch-max"),
                Conc::Purge(_) if eng_last == before_last && m.last() == 0 => format!("C20:{name}-last-index-stale-after-purge"),
                Conc::Truncate(from) if !is_file && eng_last == from.saturating_sub(1) => "C20:rocksdb-truncate-last-index-from-minus-one".to_string(),
                Conc::Replace(from, v) if !is_file && eng_last == v.last().map(|e| e.index).unwrap_or(from.saturating_sub(1)) => "C20:rocksdb-replace-range-last-index-from-args".to_string(),
                _ => format!("C20:{name}-last-index-differs-after-{kind}"),
            };
            f.add(sig, format!("{ctx}: {d}"));
        }
        if let Some(d) = &dev.boundary {
            let sig = if is_file && obs.boundary.is_none() { "C20:file-purge-boundary-not-persisted".to_string() } else { format!("C20:{name}-purge-boundary-differs-after-{kind}") };
            f.add(sig, format!("{ctx}: {d}"));
        }
        out.push(Some((obs, deviated)));

        // ---- bring the engine back in line with the reference using legitimate ops only --------
        let need_full = dev.entries.is_some() || (dev.boundary.is_some() && !is_file);
        let need_reopen = dev.last.is_some();
        if need_full || need_reopen {
            let mut ok = false;
            if !need_full {
                // cheapest legitimate re-sync of a wrong last_index cache: File recomputes it in
                // truncate(last+1) (a no-op on the content); RocksDB takes it from a re-persist of the
                // (unchanged) top entry, or from reset() when the store is empty anyway
                stats.heals_light += 1;
                let st = lv.store();
                let r = if is_file {
                    if !fl.sorted {
                        fl.trunc_on_unsorted = true;
                    }
                    st.truncate(m.last() + 1).await
                } else if let Some((_, top)) = m.ents.iter().next_back() {
                    st.persist_entries(vec![top.clone()]).await
                } else {
                    st.reset().await
                };
                drop(st);
                if r.is_ok() {
                    let (_, d2) = observe(&lv, &m, &case.ranges).await;
                    ok = d2.entries.is_none() && d2.last.is_none();
                }
            }
            if !need_full && !ok {
                stats.heals_reopen += 1;
                if lv.reopen().is_ok() {
                    let (_, d2) = observe(&lv, &m, &case.ranges).await;
                    if let Some(d) = &d2.entries {
                        let sig = if is_file && fl.trunc_on_unsorted { "C20:file-truncate-offset-assumes-index-order".to_string() } else { format!("C20:{name}-entries-differ-after-reopen") };
                        f.add(sig, format!("{ctx} and a reopen: {d}"));
                    }
                    ok = d2.entries.is_none() && d2.last.is_none();
                }
            }
            if !ok {
                stats.heals_full += 1;
                ok = full_heal(&mut lv, &m, &case.ranges).await;
                fl.sorted = true;
                fl.trunc_on_unsorted = false;
            }
            if !ok {
                dead = true;
                stats.dead += 1;
            }
        }
    }
    lv.eng = None;
    out
}

async fn full_heal<SE: StorageEngine>(lv: &mut Live<SE>, m: &Ref, ranges: &[(u8, u8)]) -> bool {
    if lv.eng.is_none() && lv.reopen().is_err() {
        return false;
    }
    let st = lv.store();
    if st.reset().await.is_err() {
        return false;
    }
    if let Some(b) = m.b_last {
        if st.purge(b).await.is_err() {
            return false;
        }
    }
    let all: Vec<Entry> = m.ents.values().cloned().collect();
    if !all.is_empty() && st.persist_entries(all).await.is_err() {
        return false;
    }
    drop(st);
    if lv.reopen().is_err() {
        return false;
    }
    let (_, d) = observe(lv, m, ranges).await;
    d.entries.is_none() && d.last.is_none() && (d.boundary.is_none() || lv.name == "file")
}

fn open_file(p: &Path) -> Result<FileStorageEngine, Error> {
    FileStorageEngine::new(p.to_path_buf())
}
fn open_rocks(p: &Path) -> Result<RocksDBStorageEngine, Error> {
    RocksDBStorageEngine::new(p)
}

// ------------------------------------------------------------------------------------------------
// crash part
// ------------------------------------------------------------------------------------------------
#[derive(Clone, Debug, Serialize, Deserialize)]
pub struct ChildSpec {
    pub engine: String,
    pub dir: String,
    pub obs: String,
    pub ops: Vec<Op>,
    pub tail: CrashTail,
    /// crash at the k-th crash-point hit inside replace_range; None = abort right after it returned
    pub crash_at: Option<usize>,
}
#[derive(Clone, Debug, Serialize, Deserialize)]
enum Rec {
    Old(Vec<Ent>),
    CrashAt(String),
    Returned(bool),
}

async fn run_prefix_and_tail<SE: StorageEngine>(mut lv: Live<SE>, ops: &[Op], tail: &CrashTail, mut before_tail: impl FnMut(&[Entry]), mut after_tail: impl FnMut(bool)) {
    for (i, op) in ops.iter().enumerate() {
        let cur_max = lv.store().get_entries(0..=u64::MAX).expect("get_entries").last().map(|e| e.index).unwrap_or(0);
        let c = concretize(op, i, cur_max);
        lv.apply(&c).await.expect("harness: prefix op failed");
    }
    let st = lv.store();
    let old = st.get_entries(0..=u64::MAX).expect("get_entries");
    before_tail(&old);
    let (from, ents) = concretize_tail(tail, ops.len());
    let r = st.replace_range(from, ents).await;
    after_tail(r.is_ok());
}

pub fn child(spec_path: &str) -> i32 {
    let spec: ChildSpec = read_spec(spec_path);
    let rt = tokio::runtime::Builder::new_current_thread().enable_all().build().unwrap();
    let obs = Rc::new(std::cell::RefCell::new(ObsLog::create(Path::new(&spec.obs))));
    let crash_at = spec.crash_at;
    let o1 = obs.clone();
    let o2 = obs.clone();
    let before = move |old: &[Entry]| {
        o1.borrow_mut().put(&Rec::Old(ents_of(old)));
        if let Some(k) = crash_at {
            let mut seen = 0usize;
            let o3 = o1.clone();
            verif_hooks::set_crash_point(Some(Box::new(move |name| {
                if seen == k {
                    o3.borrow_mut().put(&Rec::CrashAt(name.to_string()));
                    crash_now();
                }
                seen += 1;
            })));
        }
    };
    let after = move |ok: bool| {
        verif_hooks::set_crash_point(None);
        o2.borrow_mut().put(&Rec::Returned(ok));
    };
    rt.block_on(async {
        if spec.engine == "file" {
            let lv = Live { name: "file", dir: spec.dir.clone().into(), open: open_file, eng: Some(open_file(Path::new(&spec.dir)).expect("open")) };
            run_prefix_and_tail(lv, &spec.ops, &spec.tail, before, after).await;
        } else {
            let lv = Live { name: "rocksdb", dir: spec.dir.clone().into(), open: open_rocks, eng: Some(open_rocks(Path::new(&spec.dir)).expect("open")) };
            run_prefix_and_tail(lv, &spec.ops, &spec.tail, before, after).await;
        }
    });
    if spec.crash_at.is_some() {
        return 0; // crash point not reached
    }
    crash_now()
}

fn read_all(engine: &str, dir: &Path) -> Result<Vec<Ent>, String> {
    if engine == "file" {
        let e = open_file(dir).map_err(|e| format!("open: {e:?}"))?;
        e.log_store().get_entries(0..=u64::MAX).map(|v| ents_of(&v)).map_err(|e| format!("{e:?}"))
    } else {
        let e = open_rocks(dir).map_err(|e| format!("open: {e:?}"))?;
        let r = e.log_store().get_entries(0..=u64::MAX).map(|v| ents_of(&v)).map_err(|e| format!("{e:?}"));
        drop(e);
        r
    }
}

fn run_crash_case(case: &Case, tail: &CrashTail, root: &Path, f: &mut Findings, out: &mut Outcome) {
    let rt = tokio::runtime::Builder::new_current_thread().enable_all().build().unwrap();
    // dry run in-process: count the crash points inside the final replace_range
    let count = {
        let dir = sub_dir(root, "dry");
        let n = Rc::new(Cell::new(0usize));
        let n2 = n.clone();
        let lv = Live { name: "file", dir: dir.clone(), open: open_file, eng: Some(open_file(&dir).expect("harness: open dry")) };
        rt.block_on(run_prefix_and_tail(
            lv,
            &case.ops,
            tail,
            move |_| {
                let n3 = n2.clone();
                verif_hooks::set_crash_point(Some(Box::new(move |_| n3.set(n3.get() + 1))));
            },
            |_| verif_hooks::set_crash_point(None),
        ));
        n.get()
    };
    let (from, new_ents) = concretize_tail(tail, case.ops.len());
    let mut points: Vec<(&str, Option<usize>)> = (0..count).map(|k| ("file", Some(k))).collect();
    points.push(("file", None));
    points.push(("rocksdb", None));
    let mut torn_seen = false;
    for (pi, (engine, crash_at)) in points.iter().enumerate() {
        let dir = sub_dir(root, &format!("p{pi}"));
        let data = dir.join("data");
        let obs_path = dir.join("obs.jsonl");
        let spec = ChildSpec { engine: engine.to_string(), dir: data.display().to_string(), obs: obs_path.display().to_string(), ops: case.ops.clone(), tail: tail.clone(), crash_at: *crash_at };
        let ex = spawn_child("c20", &dir, "spec.json", &spec);
        if ex != ChildExit::Aborted {
            panic!("harness: C20 child did not crash as requested ({engine} {crash_at:?})");
        }
        let recs: Vec<Rec> = read_obs(&obs_path);
        let old = recs.iter().find_map(|r| if let Rec::Old(v) = r { Some(v.clone()) } else { None }).expect("harness: child wrote no Old record");
        let at = recs.iter().find_map(|r| if let Rec::CrashAt(n) = r { Some(n.clone()) } else { None });
        let returned = recs.iter().any(|r| matches!(r, Rec::Returned(true)));
        if crash_at.is_none() && !returned {
            f.add(format!("C20:{engine}-replace-range-returned-error"), "replace_range failed in the child".to_string());
            continue;
        }
        let mut new: BTreeMap<u64, Ent> = old.iter().filter(|e| e.0 < from).map(|e| (e.0, *e)).collect();
        for e in &new_ents {
            new.insert(e.index, ent_of(e));
        }
        let new: Vec<Ent> = new.into_values().collect();
        out.count("crash_points_executed", 1);
        let got = match read_all(engine, &data) {
            Ok(g) => g,
            Err(e) => {
                f.add(format!("C20:{engine}-reopen-failed-after-crash"), format!("engine={engine} crash at {at:?} inside replace_range({from}, {:?}): reopen failed: {e}", ents_of(&new_ents)));
                continue;
            }
        };
        let where_ = at.clone().unwrap_or_else(|| "after-return".into());
        let ctx = format!("engine={engine} prefix={:?} replace_range({from}, {:?}) crash at {where_}: old={old:?} new={new:?} after reopen={got:?}", case.ops, ents_of(&new_ents));
        if crash_at.is_none() {
            if got != new {
                f.add(format!("C20:{engine}-replace-range-lost-after-return"), ctx);
            }
            continue;
        }
        if got == old || got == new {
            continue;
        }
        torn_seen = true;
        // neither old nor new: is at least the kept prefix (< from) intact and nothing foreign present?
        let kept_old: Vec<Ent> = old.iter().filter(|e| e.0 < from).cloned().collect();
        let kept_ok = kept_old.iter().all(|e| got.contains(e) || new_ents.iter().any(|n| n.index == e.0));
        let rest_ok = got.iter().all(|e| old.contains(e) || new_ents.iter().any(|n| ent_of(n) == *e));
        if kept_ok && rest_ok {
            f.add("C20:file-replace-range-not-crash-atomic", ctx);
        } else {
            f.add("C20:file-replace-range-crash-damages-kept-prefix", ctx);
        }
    }
    if torn_seen {
        out.add_label("crash_torn_state_seen");
    }
    out.add_label("crash_replace");
    if count >= 2 {
        out.add_label("crash_multi_point");
    }
}

// ------------------------------------------------------------------------------------------------
// generator
// ------------------------------------------------------------------------------------------------
fn pair() -> impl Strategy<Value = (u8, u8)> {
    (1u8..=MAXI, 1u8..=4)
}
fn op_any() -> BoxedStrategy<Op> {
    prop_oneof![
        4 => (1u8..=4, 1u8..=4).prop_map(|(n, term)| Op::PersistTail { n, term }),
        3 => (1u8..=MAXI, 1u8..=4, 1u8..=4).prop_map(|(start, n, term)| Op::PersistRun { start, n, term }),
        2 => proptest::collection::vec(pair(), 0..=4).prop_map(|ents| Op::Persist { ents }),
        3 => (0u8..=MAXI + 3).prop_map(|from| Op::Truncate { from }),
        2 => (1u8..=MAXI + 1, 0u8..=3, 1u8..=4).prop_map(|(from, n, term)| Op::Replace { from, n, term }),
        1 => (0u8..=MAXI + 1, proptest::collection::vec(pair(), 0..=3)).prop_map(|(from, ents)| Op::ReplaceAny { from, ents }),
        2 => (1u8..=MAXI + 2, 1u8..=4).prop_map(|(idx, term)| Op::Purge { idx, term }),
        1 => Just(Op::Reset),
        1 => Just(Op::Flush),
        2 => Just(Op::Reopen),
    ]
    .boxed()
}
/// ops that keep log.data in index order (used as prefix of crash cases)
fn op_clean() -> BoxedStrategy<Op> {
    prop_oneof![
        6 => (1u8..=4, 1u8..=4).prop_map(|(n, term)| Op::PersistTail { n, term }),
        1 => (1u8..=MAXI + 3).prop_map(|from| Op::Truncate { from }),
        1 => (1u8..=MAXI + 1, 0u8..=3, 1u8..=4).prop_map(|(from, n, term)| Op::Replace { from, n, term }),
        1 => (1u8..=MAXI, 1u8..=4).prop_map(|(idx, term)| Op::Purge { idx, term }),
        1 => Just(Op::Flush),
        1 => Just(Op::Reopen),
    ]
    .boxed()
}

pub struct C20;

impl Check for C20 {
    type Case = Case;
    fn id(&self) -> &'static str {
        "C20"
    }
    fn rule(&self) -> String {
        "cases = op sequences (1..=12 ops over indexes 1..=17: persist any order/rewrite/gap/tail, truncate incl. beyond last, replace_range, purge, reset, flush, reopen) applied to FileLogStore, RocksDBLogStore and a BTreeMap reference, all observables compared after every op; ~6% of cases are crash cases (clean prefix + replace_range aborted in a child at every File crash point and after return on both engines); non-trivial = the sequence rewrites a lower index after a higher one, or reopens after a purge, or is a crash case with >=1 crash point inside replace_range; distinct by hash of the case".into()
    }
    fn assumptions(&self) -> Vec<String> {
        vec![
            "entry index 0 and inverted get_entries ranges are never generated (no Raft caller produces them)".into(),
            "purge boundary after a non-monotone purge may be the last or the highest cutoff; after a reset it may also be None (docs are silent)".into(),
            "crash atomicity is judged under process-crash semantics only (child abort)".into(),
            "after a deviation the engine is re-synchronised with legitimate ops (reopen / reset+purge+persist) so later ops are still judged".into(),
        ]
    }
    fn cases(&self, tier: Tier) -> u32 {
        match tier {
            Tier::Quick => 1200,
            Tier::Thorough => 12_000,
        }
    }
    fn required_labels(&self) -> Vec<&'static str> {
        vec!["rewrite_lower_after_higher", "purge_then_reopen", "truncate_beyond_last", "replace_range", "crash_replace"]
    }
    fn case_timeout(&self) -> std::time::Duration {
        std::time::Duration::from_secs(300)
    }
    fn strategy(&self, _tier: Tier) -> BoxedStrategy<Case> {
        let ranges = proptest::collection::vec((0u8..=MAXI + 2, 0u8..=6), 2);
        // optional "purge ... reopen" insertion (the purge-then-reopen class needs both ops in this
        // order); shrinks to the plain sequence
        let ins = proptest::option::weighted(0.3, (any::<u16>(), any::<u16>(), 1u8..=MAXI + 2, 1u8..=4));
        let model = (proptest::collection::vec(op_any(), 1..=12), ins, ranges.clone()).prop_map(|(mut ops, ins, ranges)| {
            if let Some((p1, p2, idx, term)) = ins {
                let a = crate::runner::pick(p1, ops.len() + 1);
                ops.insert(a, Op::Purge { idx, term });
                let b = a + 1 + crate::runner::pick(p2, ops.len() - a);
                ops.insert(b, Op::Reopen);
            }
            Case { ops, ranges, crash: None }
        });
        let crash = (
            proptest::collection::vec(op_clean(), 0..=6),
            1u8..=MAXI + 1,
            proptest::collection::vec(pair(), 0..=3),
            prop_oneof![4 => Just(true), 1 => Just(false)],
        )
            .prop_map(|(ops, from, ents, consecutive)| Case { ops, ranges: vec![], crash: Some(CrashTail { from, ents, consecutive }) });
        prop_oneof![12 => model, 1 => crash].boxed()
    }
    fn fixed_cases(&self) -> Vec<Case> {
        vec![
            // crash inside replace_range over a non-empty old range
            Case {
                ops: vec![Op::PersistTail { n: 3, term: 1 }],
                ranges: vec![],
                crash: Some(CrashTail { from: 2, ents: vec![(2, 2), (3, 2)], consecutive: true }),
            },
        ]
    }

    fn run(&self, case: &Case) -> Outcome {
        let mut out = Outcome::ok();
        let root = work_dir("c20");
        let mut f = Findings::default();
        out.fingerprint = fp(case);
        if let Some(tail) = &case.crash {
            run_crash_case(case, tail, &root, &mut f, &mut out);
            out.nontrivial = true;
            rm_dir(&root);
            f.report("C20", &mut out);
            return out;
        }
        let rt = tokio::runtime::Builder::new_current_thread().enable_all().build().unwrap();
        let mut stats = Stats::default();
        let mut labels: Vec<&'static str> = vec![];
        let fdir = sub_dir(&root, "file");
        let rdir = root.join("rocks");
        let (fo, ro) = rt.block_on(async {
            let lv = Live { name: "file", dir: fdir.clone(), open: open_file, eng: Some(open_file(&fdir).expect("harness: open file engine")) };
            let fo = exec(lv, case, &mut f, &mut stats, &mut labels).await;
            let mut l2 = vec![];
            let lv = Live { name: "rocksdb", dir: rdir.clone(), open: open_rocks, eng: Some(open_rocks(&rdir).expect("harness: open rocksdb engine")) };
            let ro = exec(lv, case, &mut f, &mut stats, &mut l2).await;
            (fo, ro)
        });
        // differential File ≡ RocksDB on steps where neither deviated from the reference
        for (i, (a, b)) in fo.iter().zip(ro.iter()).enumerate() {
            if let (Some((a, da)), Some((b, db))) = (a, b) {
                if !da && !db {
                    if a.ents != b.ents {
                        f.add("C20:file-rocksdb-disagree-entries", format!("after op #{i}: file={:?} rocksdb={:?}", a.ents, b.ents));
                    } else if a.last != b.last {
                        f.add("C20:file-rocksdb-disagree-last-index", format!("after op #{i}: file={} rocksdb={}", a.last, b.last));
                    }
                }
            }
        }
        rm_dir(&root);
        labels.sort();
        labels.dedup();
        out.nontrivial = labels.contains(&"rewrite_lower_after_higher") || labels.contains(&"purge_then_reopen");
        for l in labels {
            out.add_label(l);
        }
        out.count("heal_light", stats.heals_light);
        out.count("heal_reopen", stats.heals_reopen);
        out.count("heal_full", stats.heals_full);
        out.count("engine_given_up", stats.dead);
        out.count("ops_judged", (fo.iter().flatten().count() + ro.iter().flatten().count()) as u64);
        f.report("C20", &mut out);
        out
    }
}
