//! C15 — each committed entry is applied exactly once across crashes (fault_enumeration).
//!
//! Generator: op sequences over the C22 alphabet — Apply(chunk of put / put-ttl / delete / CAS, with
//! non-idempotent CAS chains such as [cas(c->a), cas(b->c)] mixed in), Big(1000 no-ops + chunk, hits the
//! File engine's count-based checkpoint), FlushAsync, Flush — for the File and the RocksDB engine.
//! For every sequence a dry run counts the crash-point hook hits; then EVERY crash point (after each
//! op, and at each hook hit inside apply_chunk / checkpoint / persist_*) is executed: a child process
//! runs the ops on a fresh directory and abort()s there; the parent reopens the directory as a
//! restarting node does (new + set_lease + start), reads a' = last_applied().index, re-applies the
//! committed entries (a', N] (Raft restarts with commit index = applied index and re-applies everything
//! above it) and compares the contents with model(1..=N).
use std::collections::BTreeMap;
use std::path::{Path, PathBuf};

use proptest::prelude::*;
use serde::{Deserialize, Serialize};

use super::c22::{cmd_s, KEYS, T0_MS};
use super::kvmodel::*;
use crate::runner::{fp, rm_dir, work_dir, Check, Outcome, Tier};

#[derive(Clone, Debug, PartialEq, Eq, Hash, Serialize, Deserialize)]
pub enum Op {
    Apply(Vec<Cmd>),
    /// one chunk of 1000 no-op entries followed by the commands (>= 1000 entries => File checkpoint)
    Big(Vec<Cmd>),
    FlushAsync,
    Flush,
}

#[derive(Clone, Debug, Serialize, Deserialize, Hash)]
pub struct Case {
    pub engine: Engine,
    pub ops: Vec<Op>,
    /// chunk size used when re-applying (a', N] after the restart; 0 = one chunk
    pub reapply_chunk: u8,
    /// replay files only: restrict the enumeration to crash points whose hook name contains this text
    /// ("after_op" selects the between-op points). Generated cases always enumerate everything.
    #[serde(default)]
    pub focus: Option<String>,
    /// File engine only: after the first recovery re-apply just one chunk, crash a second time (the state
    /// machine object is leaked without Drop: only what reached the files survives) and recover again.
    #[serde(default)]
    pub second_crash: bool,
}

#[derive(Clone, Debug, Serialize, Deserialize)]
enum Crash {
    AfterOp(usize),
    /// abort at the k-th (0-based) crash-point hook hit
    Hook(u64),
}

#[derive(Clone, Debug, Serialize, Deserialize)]
struct Spec {
    engine: Engine,
    dir: PathBuf,
    ops: Vec<Op>,
    crash: Crash,
}

pub struct C15;

const BIG_NOOPS: usize = 1000;

fn b(s: &[u8]) -> B {
    B(s.to_vec())
}

/// hand-shaped non-idempotent chains on one key
fn chain_s() -> BoxedStrategy<Vec<Cmd>> {
    (0usize..3, 0usize..6).prop_map(|(ki, shape)| {
        let k = b(KEYS[ki]);
        let (x, y, z) = (b(b"x"), b(b"y"), b(b"z"));
        match shape {
            // from absent: create y, (z->x) fails, (y->z) succeeds  => z ; re-applied on z: x
            0 => vec![
                Cmd::Cas { k: k.clone(), exp: None, v: y.clone() },
                Cmd::Cas { k: k.clone(), exp: Some(z.clone()), v: x.clone() },
                Cmd::Cas { k: k.clone(), exp: Some(y.clone()), v: z.clone() },
            ],
            // 3-cycle step: x->y, y->z, z->x applied in "wrong" order
            1 => vec![
                Cmd::Cas { k: k.clone(), exp: Some(z.clone()), v: x.clone() },
                Cmd::Cas { k: k.clone(), exp: Some(y.clone()), v: z.clone() },
                Cmd::Cas { k: k.clone(), exp: Some(x.clone()), v: y.clone() },
            ],
            // create-if-absent then delete: re-applied create succeeds again only if the delete was applied
            2 => vec![Cmd::Cas { k: k.clone(), exp: None, v: x.clone() }, Cmd::Del { k: k.clone() }, Cmd::Cas { k: k.clone(), exp: None, v: y.clone() }],
            // put then guarded moves
            3 => vec![
                Cmd::Put { k: k.clone(), v: y.clone() },
                Cmd::Cas { k: k.clone(), exp: Some(z.clone()), v: x.clone() },
                Cmd::Cas { k: k.clone(), exp: Some(y.clone()), v: z.clone() },
            ],
            // ttl put then guarded move
            4 => vec![Cmd::PutTtl { k: k.clone(), v: x.clone(), ttl: 5 }, Cmd::Cas { k: k.clone(), exp: Some(x.clone()), v: y.clone() }],
            // toggle
            _ => vec![Cmd::Cas { k: k.clone(), exp: Some(x.clone()), v: y.clone() }, Cmd::Cas { k: k.clone(), exp: Some(y.clone()), v: x.clone() }],
        }
    })
    .boxed()
}

fn chunk_s() -> BoxedStrategy<Vec<Cmd>> {
    prop_oneof![
        3 => prop::collection::vec(cmd_s(2), 1..=5),
        2 => chain_s(),
        1 => (chain_s(), prop::collection::vec(cmd_s(2), 0..=2)).prop_map(|(mut a, b)| { a.extend(b); a }),
    ]
    .boxed()
}

fn op_s() -> BoxedStrategy<Op> {
    prop_oneof![
        20 => chunk_s().prop_map(Op::Apply),
        4 => Just(Op::FlushAsync),
        3 => Just(Op::Flush),
        1 => prop::collection::vec(cmd_s(2), 0..=2).prop_map(Op::Big),
    ]
    .boxed()
}

/// flattens ops into the committed log + the entry range of each op
fn flatten(ops: &[Op]) -> (Vec<LogEntry>, Vec<Option<(usize, usize)>>) {
    let mut log = vec![];
    let mut ranges = vec![];
    for (oi, op) in ops.iter().enumerate() {
        let term = 1 + (oi as u64) / 3;
        match op {
            Op::Apply(cmds) => {
                let s = log.len();
                for c in cmds {
                    let index = log.len() as u64 + 1;
                    log.push(LogEntry { index, term, cmd: c.clone() });
                }
                ranges.push(Some((s, log.len())));
            }
            Op::Big(cmds) => {
                let s = log.len();
                for _ in 0..BIG_NOOPS {
                    let index = log.len() as u64 + 1;
                    log.push(LogEntry { index, term, cmd: Cmd::Noop });
                }
                for c in cmds {
                    let index = log.len() as u64 + 1;
                    log.push(LogEntry { index, term, cmd: c.clone() });
                }
                ranges.push(Some((s, log.len())));
            }
            Op::FlushAsync | Op::Flush => ranges.push(None),
        }
    }
    (log, ranges)
}

async fn exec_op(sm: &Sm, op: &Op, range: Option<(usize, usize)>, log: &[LogEntry]) -> Result<(), String> {
    match op {
        Op::Apply(_) | Op::Big(_) => {
            let (s, e) = range.unwrap();
            if s == e {
                return Ok(());
            }
            let entries = to_entries(&log[s..e], false);
            sm.apply_chunk(&entries).await.map_err(|e| format!("apply_chunk: {e:?}"))?;
            Ok(())
        }
        Op::FlushAsync => sm.flush_async().await.map_err(|e| format!("flush_async: {e:?}")),
        Op::Flush => sm.flush().map_err(|e| format!("flush: {e:?}")),
    }
}

/// child process: run the ops, abort at the crash point. Returns only if the point was not reached.
pub fn child_main(spec_path: &str) -> i32 {
    child_no_core();
    let spec: Spec = serde_json::from_str(&std::fs::read_to_string(spec_path).expect("read spec")).expect("spec json");
    d_engine_core::verif_hooks::set_virtual_wall_ms(Some(T0_MS));
    let (log, ranges) = flatten(&spec.ops);
    let rt = new_rt();
    let r: Result<(), String> = rt.block_on(async {
        let sm = open_sm(spec.engine, &spec.dir).await?;
        if let Crash::Hook(k) = spec.crash {
            let mut n = 0u64;
            d_engine_core::verif_hooks::set_crash_point(Some(Box::new(move |_name| {
                if n == k {
                    std::process::abort();
                }
                n += 1;
            })));
        }
        for (i, op) in spec.ops.iter().enumerate() {
            exec_op(&sm, op, ranges[i], &log).await?;
            if let Crash::AfterOp(j) = spec.crash {
                if j == i {
                    std::process::abort();
                }
            }
        }
        // crash point not reached: leave without running destructors that would persist state
        std::process::exit(3);
    });
    match r {
        Ok(()) => 3,
        Err(_) => 4,
    }
}

#[derive(Clone, Debug)]
struct PointInfo {
    crash: Crash,
    op: usize,
    name: Option<&'static str>,
}

/// Names the root cause from the crash location, the reported applied index `a`, and which log
/// prefixes the recovered contents `s0` correspond to — judged on the keys that ended up wrong
/// (`bad`), so that an unrelated key cannot blur the attribution.
fn classify(engine: Engine, name: Option<&str>, a: u64, s0: &BTreeMap<Vec<u8>, Vec<u8>>, states: &[BTreeMap<Vec<u8>, Vec<u8>>], bad: &[Vec<u8>], prev_persisted: u64) -> String {
    let js: Vec<u64> = (0..states.len()).filter(|j| bad.iter().all(|k| states[*j].get(k) == s0.get(k))).map(|j| j as u64).collect();
    let n = name.unwrap_or("");
    let last = states.last().unwrap();
    if engine == Engine::File && !bad.is_empty() && bad.iter().all(|k| last.get(k).map(|v| v.is_empty()).unwrap_or(false)) {
        // every wrong key should hold an empty value: WAL replay skips INSERT records with value_len == 0
        return "C15:file-wal-replay-drops-empty-value-insert".into();
    }
    // contents can coincide with several log prefixes (states repeat): "ahead" wins over "behind"
    let ahead = js.iter().any(|j| *j > a);
    let exact = js.contains(&a);
    let behind = js.iter().any(|j| *j < a);
    if a < prev_persisted {
        // the applied index went backwards relative to what an earlier completed flush/checkpoint stored
        if engine == Engine::File && n.starts_with("sm.persist_metadata.") {
            return "C15:file-metadata-truncated-before-rewrite".into();
        }
        return format!("C15:{}-applied-index-regressed", engine.name());
    }
    if engine == Engine::File && n == "sm.persist_data.after_truncate" && !ahead && !exact {
        return "C15:file-state-data-truncated-before-rewrite".into();
    }
    if exact {
        format!("C15:{}-reapply-diverges-from-consistent-state", engine.name())
    } else if ahead {
        match engine {
            Engine::Rocks => "C15:rocksdb-applied-index-not-atomic-with-data".into(),
            Engine::File => "C15:file-wal-replay-does-not-restore-applied-index".into(),
        }
    } else if behind {
        format!("C15:{}-applied-index-ahead-of-data", engine.name())
    } else {
        format!("C15:{}-recovered-contents-match-no-log-prefix", engine.name())
    }
}

fn keys() -> Vec<Vec<u8>> {
    KEYS.iter().map(|k| k.to_vec()).collect()
}

impl Check for C15 {
    type Case = Case;
    fn id(&self) -> &'static str {
        "C15"
    }
    fn level(&self) -> &'static str {
        "fault_enumeration"
    }
    fn rule(&self) -> String {
        "cases = (engine, op sequence of Apply/Big/FlushAsync/Flush over keys {a,ab,b,\"\"} x values {x,y,z,\"\"}); for each case ALL crash points are executed (after every op + every crash-point hook hit found by a dry run), each in a child process that abort()s; non-trivial = at least one crash point of the case lies after >=1 state-changing entry applied since the last flush/checkpoint op; distinct by hash of (engine, ops)".into()
    }
    fn assumptions(&self) -> Vec<String> {
        vec![
            "crash = process abort (SIGABRT): data handed to the OS survives, nothing else does (no power-loss model)".into(),
            "after the restart the node re-applies exactly the committed entries above the reported applied index (node/builder.rs: commit index restarts at last_applied)".into(),
            "the tokio clock is paused in both processes, so the File engine's time-based checkpoint (10 s) never fires; checkpoints come from FlushAsync ops and the 1000-entry rule (Big)".into(),
            "the virtual wall clock is fixed, TTL keys never expire here (TTL is C23)".into(),
            "if a case violates with several signatures, one that is not an open known finding is reported first".into(),
        ]
    }
    fn cases(&self, tier: Tier) -> u32 {
        match tier {
            // every crash point = one child process + one reopen (RocksDB: two DB opens, 0.1-0.5 s)
            Tier::Quick => 96,
            Tier::Thorough => 1_600,
        }
    }
    fn max_shrink_iters(&self) -> u32 {
        60
    }
    fn workers(&self) -> usize {
        std::env::var("VERIF_WORKERS").ok().and_then(|s| s.parse().ok()).unwrap_or(16)
    }
    fn required_labels(&self) -> Vec<&'static str> {
        vec!["engine_file", "engine_rocksdb", "has_flush_op", "nonidempotent_tail", "nontrivial"]
    }
    fn strategy(&self, _tier: Tier) -> BoxedStrategy<Case> {
        (prop_oneof![3 => Just(Engine::File), 1 => Just(Engine::Rocks)], prop::collection::vec(op_s(), 1..=6), prop_oneof![Just(0u8), 1u8..=4], any::<bool>())
            .prop_map(|(engine, ops, reapply_chunk, second_crash)| Case { engine, ops, reapply_chunk, focus: None, second_crash: second_crash && engine == Engine::File })
            .boxed()
    }

    fn run(&self, c: &Case) -> Outcome {
        let mut out = Outcome::ok();
        d_engine_core::verif_hooks::set_virtual_wall_ms(Some(T0_MS));
        let (log, ranges) = flatten(&c.ops);
        let (states, _flags) = prefix_states(&log, T0_MS);
        let n = log.len();
        out.add_label(format!("engine_{}", c.engine.name()));
        if c.ops.iter().any(|o| matches!(o, Op::FlushAsync | Op::Flush)) {
            out.add_label("has_flush_op");
        }
        if c.ops.iter().any(|o| matches!(o, Op::Big(_))) {
            out.add_label("has_big_chunk");
        }
        if log.iter().any(|e| matches!(e.cmd, Cmd::PutTtl { .. })) {
            out.add_label("has_ttl_put");
        }
        out.fingerprint = fp(&(c.engine, &c.ops));

        // ---- dry run: count hook hits, check the uncrashed run
        let mut points: Vec<PointInfo> = vec![];
        {
            let dir = work_dir("c15dry");
            let rt = new_rt();
            let hits: std::rc::Rc<std::cell::RefCell<Vec<&'static str>>> = Default::default();
            let h2 = hits.clone();
            let res: Result<BTreeMap<Vec<u8>, Vec<u8>>, String> = rt.block_on(async {
                let sm = open_sm(c.engine, &dir).await?;
                d_engine_core::verif_hooks::set_crash_point(Some(Box::new(move |name| h2.borrow_mut().push(name))));
                let mut k = 0u64;
                for (i, op) in c.ops.iter().enumerate() {
                    let before = hits.borrow().len();
                    exec_op(&sm, op, ranges[i], &log).await?;
                    let after = hits.borrow().len();
                    for h in before..after {
                        points.push(PointInfo { crash: Crash::Hook(k), op: i, name: Some(hits.borrow()[h]) });
                        k += 1;
                    }
                    points.push(PointInfo { crash: Crash::AfterOp(i), op: i, name: None });
                }
                d_engine_core::verif_hooks::set_crash_point(None);
                let d = dump(&sm, &keys())?;
                drop(sm);
                Ok(d)
            });
            d_engine_core::verif_hooks::set_crash_point(None);
            drop(rt);
            rm_dir(&dir);
            match res {
                Err(e) => panic!("C15 harness error in dry run: {e}"),
                Ok(d) => {
                    if d != states[n] {
                        out.violate(
                            format!("C15:{}-uncrashed-run-differs-from-model", c.engine.name()),
                            format!("without any crash the contents are {} but the reference is {}", show_map(&d), show_map(&states[n])),
                        );
                        d_engine_core::verif_hooks::set_virtual_wall_ms(None);
                        return out;
                    }
                }
            }
        }

        // ---- enumerate all crash points
        let known: Vec<String> = crate::runner::load_known_findings().into_iter().filter(|k| k.property == "C15" && k.status == "open").map(|k| k.signature).collect();
        let mut violations: Vec<(String, String)> = vec![];
        let mut nontrivial = false;
        let mut nonidem = false;
        let mut executed = 0u64;
        let mut us_child = 0u64;
        let mut us_reopen = 0u64;
        for p in &points {
            if let Some(f) = &c.focus {
                if !p.name.unwrap_or("after_op").contains(f.as_str()) {
                    continue;
                }
            }
            // entries applied (possibly) at this point: ops <= p.op; since the last flush op strictly before p.op
            let applied_end = (0..=p.op).filter_map(|i| ranges[i]).map(|r| r.1).max().unwrap_or(0);
            let last_flush = (0..=p.op).rev().find(|i| ranges[*i].is_none() && (*i < p.op || p.name.is_none()));
            let since = last_flush.map(|f| (0..f).filter_map(|i| ranges[i]).map(|r| r.1).max().unwrap_or(0)).unwrap_or(0);
            if (since..applied_end).any(|i| states[i] != states[i + 1]) {
                nontrivial = true;
            }
            // would re-applying (since, N] on top of model(applied_end) change the outcome? (label only)
            {
                let mut m = KvModel { map: states[applied_end].clone(), ttl: Default::default() };
                for e in &log[since..] {
                    m.apply(&e.cmd, T0_MS);
                }
                if m.map != states[n] {
                    nonidem = true;
                }
            }

            // applied index stored by the last flush-type op completed before this op
            let prev_persisted = (0..p.op)
                .rev()
                .find(|i| match &c.ops[*i] {
                    Op::FlushAsync | Op::Flush => true,
                    Op::Big(_) => c.engine == Engine::File,
                    Op::Apply(_) => false,
                })
                .map(|f| (0..=f).filter_map(|i| ranges[i]).map(|r| r.1).max().unwrap_or(0) as u64)
                .unwrap_or(0);
            // single-crash run first; the double-crash run (own child process) only where the single one is clean,
            // so that a failure there is attributable to the second crash
            let modes: &[bool] = if c.second_crash && c.engine == Engine::File { &[false, true] } else { &[false] };
            let mut point_failed = false;
            for &second in modes {
            if second && point_failed {
                continue;
            }
            let dir = work_dir("c15");
            let spec = Spec { engine: c.engine, dir: dir.clone(), ops: c.ops.clone(), crash: p.crash.clone() };
            let spec_path = spec_file(&dir);
            std::fs::write(&spec_path, serde_json::to_string(&spec).unwrap()).expect("write spec");
            let t_child = std::time::Instant::now();
            let (signalled, code) = spawn_child("c15", &spec_path);
            us_child += t_child.elapsed().as_micros() as u64;
            let t_re = std::time::Instant::now();
            let _ = std::fs::remove_file(&spec_path);
            if !signalled {
                panic!("C15 harness error: child did not abort at {:?} (exit code {:?})", p, code);
            }
            executed += 1;
            let rt = new_rt();
            let res: Result<Option<(String, String)>, String> = rt.block_on(async {
                let sm = match open_sm(c.engine, &dir).await {
                    Ok(s) => s,
                    Err(e) => {
                        return Ok(Some((format!("C15:{}-cannot-reopen-after-crash", c.engine.name()), format!("crash {}: {e}", describe(p)))));
                    }
                };
                let a = sm.last_applied().index;
                let s0 = dump(&sm, &keys())?;
                if a as usize > n {
                    return Ok(Some((
                        format!("C15:{}-applied-index-beyond-log", c.engine.name()),
                        format!("crash {}: reopened state machine reports last_applied={} > {} committed entries", describe(p), a, n),
                    )));
                }
                // re-apply (a', N]
                let mut rest = &log[a as usize..];
                // (a Big op would otherwise be re-applied in hundreds of tiny chunks)
                let step = if c.reapply_chunk == 0 { rest.len().max(1) } else if rest.len() > 200 { 400 + c.reapply_chunk as usize } else { c.reapply_chunk as usize };
                let mut sm = sm;
                if second {
                    // second crash before any checkpoint: re-apply one (short) chunk, lose the process, recover again
                    let first = &rest[..rest.len().min(step.min(2))];
                    if !first.is_empty() {
                        let entries = to_entries(first, false);
                        sm.apply_chunk(&entries).await.map_err(|e| format!("re-apply before second crash: {e:?}"))?;
                    }
                    std::mem::forget(sm);
                    sm = match open_sm(c.engine, &dir).await {
                        Ok(s) => s,
                        Err(e) => return Ok(Some((format!("C15:{}-cannot-reopen-after-second-crash", c.engine.name()), format!("crash {} then a second crash: {e}", describe(p))))),
                    };
                    let a2 = sm.last_applied().index;
                    if a2 as usize > n {
                        return Ok(Some((
                            format!("C15:{}-applied-index-beyond-log", c.engine.name()),
                            format!("crash {} then a second crash: reopened state machine reports last_applied={} > {} committed entries", describe(p), a2, n),
                        )));
                    }
                    rest = &log[a2 as usize..];
                }
                for ch in rest.chunks(step) {
                    let entries = to_entries(ch, false);
                    sm.apply_chunk(&entries).await.map_err(|e| format!("re-apply: {e:?}"))?;
                }
                let fin = dump(&sm, &keys())?;
                drop(sm);
                if fin != states[n] {
                    let bad: Vec<Vec<u8>> = keys().into_iter().filter(|k| fin.get(k) != states[n].get(k)).collect();
                    let sig = if second { format!("C15:{}-state-lost-by-second-crash-before-checkpoint", c.engine.name()) } else { classify(c.engine, p.name, a, &s0, &states, &bad, prev_persisted) };
                    let detail = format!(
                        "{}crash {}: reopened with last_applied={} and contents {} (model(1..={}) = {}); after re-applying entries {}..={} contents are {} but model(1..={}) = {}",
                        if second { "(double-crash run: after the first recovery one chunk was re-applied, then the process was lost again without a checkpoint) " } else { "" },
                        describe(p),
                        a,
                        show_map(&s0),
                        a,
                        show_map(&states[a as usize]),
                        a + 1,
                        n,
                        show_map(&fin),
                        n,
                        show_map(&states[n])
                    );
                    return Ok(Some((sig, detail)));
                }
                Ok(None)
            });
            drop(rt);
            rm_dir(&dir);
            us_reopen += t_re.elapsed().as_micros() as u64;
            match res {
                Err(e) => panic!("C15 harness error after crash {}: {e}", describe(p)),
                Ok(Some(v)) => {
                    point_failed = true;
                    if !violations.iter().any(|x| x.0 == v.0) {
                        violations.push(v);
                    }
                }
                Ok(None) => {}
            }
            } // modes
        }
        if c.second_crash {
            out.add_label("second_crash_before_checkpoint");
        }
        out.count("crash_points_executed", executed);
        out.count(&format!("crash_points_{}", c.engine.name()), executed);
        out.count(&format!("us_child_{}", c.engine.name()), us_child);
        out.count(&format!("us_reopen_{}", c.engine.name()), us_reopen);
        if nontrivial {
            out.add_label("nontrivial");
        }
        if nonidem {
            out.add_label("nonidempotent_tail");
        }
        out.nontrivial = nontrivial;
        for v in &violations {
            out.add_label(format!("violates:{}", v.0));
        }
        if let Some(v) = violations.iter().find(|v| !known.contains(&v.0)).or(violations.first()) {
            out.violate(v.0.clone(), v.1.clone());
        }
        d_engine_core::verif_hooks::set_virtual_wall_ms(None);
        out
    }
}

fn describe(p: &PointInfo) -> String {
    match (&p.crash, p.name) {
        (Crash::Hook(k), Some(n)) => format!("at hook #{k} `{n}` inside op {}", p.op),
        (Crash::AfterOp(i), _) => format!("after op {i}"),
        (c, _) => format!("{c:?}"),
    }
}

fn spec_file(dir: &Path) -> PathBuf {
    let mut s = dir.as_os_str().to_owned();
    s.push(".spec.json");
    PathBuf::from(s)
}
