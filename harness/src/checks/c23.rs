//! C23 — TTL: keys expire when due and overwrites clear old TTLs.
//!
//! Generator: histories over keys {a,ab,b,""} x values {x,y,z,""}: put-with-TTL (1..=5 s), plain put,
//! CAS, delete (consecutive writes optionally joined into one apply chunk), clock advance 0..7 s
//! (virtual wall clock), `lease_background_cleanup()`, `flush_async()`, restart — graceful with
//! stop()+drop, close_storage()+drop (EmbeddedEngine::stop path), drop only (StandaloneEngine path) or
//! crash (the segment runs in a child process that abort()s) — and snapshot install
//! (generate_snapshot_data on the source, apply_snapshot_from_file into a fresh instance).
//! After every reopen the committed entries above the reported applied index are re-applied, as a
//! restarting node does.
//! Oracle (from the statement only, with a +-1 s safety margin for whole-second rounding):
//!  (1) a TTL key is readable with its value while clock < deadline - 1 s;
//!  (2) after a cleanup run at clock >= deadline + 1 s it is absent (and stays absent);
//!  (3) a key whose latest write is a plain put is present with that value at all times, a deleted key
//!      stays absent — whatever TTL the key carried before;
//!  (4) the same across restarts and snapshot install.
//! Not judged: a TTL key between deadline-1s and the first cleanup after deadline+1s; any key after a
//! successful CAS over a TTL key (until its next put/delete); keys touched by a CAS that is re-applied
//! after a restart (C15's territory).
use std::path::PathBuf;

use bytes::Bytes;
use d_engine_proto::server::storage::SnapshotMetadata;
use proptest::prelude::*;
use serde::{Deserialize, Serialize};

use super::c22::{val_s, KEYS};
use super::kvmodel::*;
use crate::runner::{fp, rm_dir, work_dir, Check, Outcome, Tier};

pub const T0_MS: u64 = 1_700_000_000_000;
const MARGIN: u64 = 1000;

#[derive(Clone, Copy, Debug, PartialEq, Eq, Hash, Serialize, Deserialize)]
pub enum RestartMode {
    /// sm.stop() then drop
    Stop,
    /// sm.close_storage() then drop (EmbeddedEngine::stop)
    CloseStorage,
    /// drop only (StandaloneEngine shutdown)
    DropOnly,
    /// process abort
    Crash,
}

#[derive(Clone, Debug, PartialEq, Eq, Hash, Serialize, Deserialize)]
pub enum Op {
    /// a write; `join` = same apply chunk as the preceding write (if the preceding op is a write)
    Kv { cmd: Cmd, join: bool },
    Advance { ms: u32 },
    Cleanup,
    Flush,
    Restart(RestartMode),
    Snapshot,
}

#[derive(Clone, Debug, Serialize, Deserialize, Hash)]
pub struct Case {
    pub engine: Engine,
    pub ops: Vec<Op>,
}

#[derive(Clone, Debug, PartialEq, Eq, Hash, Serialize, Deserialize)]
enum Step {
    Chunk(Vec<Cmd>),
    Advance(u32),
    Cleanup,
    Flush,
    Snapshot,
}

#[derive(Clone, Copy, Debug, PartialEq, Eq, Hash, Serialize, Deserialize)]
enum End {
    Restart(RestartMode),
    Final,
}

#[derive(Clone, Debug, Serialize, Deserialize)]
struct SegSpec {
    engine: Engine,
    base: PathBuf,
    node_idx: u32,
    clock_ms: u64,
    log: Vec<LogEntry>,
    steps: Vec<Step>,
    end: End,
    obs_path: Option<PathBuf>,
}

#[derive(Clone, Debug, Serialize, Deserialize)]
struct ObsRec {
    tag: String,
    /// last_applied().index at this point
    a: u64,
    gets: Vec<Option<B>>,
    cleaned: Vec<B>,
}

pub struct C23;

fn segments(ops: &[Op]) -> Vec<(Vec<Step>, End)> {
    let mut out = vec![];
    let mut cur: Vec<Step> = vec![];
    let mut prev_kv = false;
    for op in ops {
        match op {
            Op::Kv { cmd, join } => {
                if *join && prev_kv {
                    if let Some(Step::Chunk(v)) = cur.last_mut() {
                        v.push(cmd.clone());
                    }
                } else {
                    cur.push(Step::Chunk(vec![cmd.clone()]));
                }
                prev_kv = true;
                continue;
            }
            Op::Advance { ms } => cur.push(Step::Advance(*ms)),
            Op::Cleanup => cur.push(Step::Cleanup),
            Op::Flush => cur.push(Step::Flush),
            Op::Snapshot => cur.push(Step::Snapshot),
            Op::Restart(m) => {
                out.push((std::mem::take(&mut cur), End::Restart(*m)));
            }
        }
        prev_kv = false;
    }
    out.push((cur, End::Final));
    out
}

fn node_dir(base: &std::path::Path, idx: u32) -> PathBuf {
    base.join(format!("n{idx}"))
}

fn get_all(sm: &Sm) -> Result<Vec<Option<B>>, String> {
    let mut v = vec![];
    for k in KEYS {
        v.push(sm.get(k).map_err(|e| format!("get: {e:?}"))?.map(|b| B(b.to_vec())));
    }
    Ok(v)
}

/// Runs one segment (open .. end). Shared by the in-process path and the crash child.
async fn exec_segment(spec: &SegSpec) -> Result<Vec<ObsRec>, String> {
    let mut obs = vec![];
    let mut clock = spec.clock_ms;
    d_engine_core::verif_hooks::set_virtual_wall_ms(Some(clock));
    let mut node_idx = spec.node_idx;
    let mut sm = open_sm(spec.engine, &node_dir(&spec.base, node_idx)).await?;
    let mut log = spec.log.clone();
    let a = sm.last_applied().index;
    obs.push(ObsRec { tag: "open".into(), a, gets: get_all(&sm)?, cleaned: vec![] });
    if (a as usize) < log.len() {
        let entries = to_entries(&log[a as usize..], false);
        sm.apply_chunk(&entries).await.map_err(|e| format!("re-apply: {e:?}"))?;
        obs.push(ObsRec { tag: "reapplied".into(), a: sm.last_applied().index, gets: get_all(&sm)?, cleaned: vec![] });
    }
    if (a as usize) <= log.len() {
        for (si, st) in spec.steps.iter().enumerate() {
            let mut cleaned = vec![];
            match st {
                Step::Chunk(cmds) => {
                    let s = log.len();
                    for c in cmds {
                        let index = log.len() as u64 + 1;
                        log.push(LogEntry { index, term: 1, cmd: c.clone() });
                    }
                    let entries = to_entries(&log[s..], false);
                    sm.apply_chunk(&entries).await.map_err(|e| format!("apply_chunk: {e:?}"))?;
                }
                Step::Advance(ms) => {
                    clock += *ms as u64;
                    d_engine_core::verif_hooks::set_virtual_wall_ms(Some(clock));
                }
                Step::Cleanup => {
                    let ks = sm.lease_background_cleanup().await.map_err(|e| format!("lease_background_cleanup: {e:?}"))?;
                    cleaned = ks.into_iter().map(|b| B(b.to_vec())).collect();
                    cleaned.sort();
                }
                Step::Flush => sm.flush_async().await.map_err(|e| format!("flush_async: {e:?}"))?,
                Step::Snapshot => {
                    let snapdir = spec.base.join(format!("snap{node_idx}"));
                    let la = sm.last_applied();
                    let checksum = sm.generate_snapshot_data(snapdir.clone(), la).await.map_err(|e| format!("generate_snapshot_data: {e:?}"))?;
                    let meta = SnapshotMetadata { last_included: Some(la), checksum: Bytes::from(checksum.to_vec()) };
                    let sm2 = open_sm(spec.engine, &node_dir(&spec.base, node_idx + 1)).await?;
                    sm2.apply_snapshot_from_file(&meta, snapdir).await.map_err(|e| format!("apply_snapshot_from_file: {e:?}"))?;
                    sm.close_storage();
                    drop(sm);
                    sm = sm2;
                    node_idx += 1;
                }
            }
            obs.push(ObsRec { tag: format!("step{si}"), a: sm.last_applied().index, gets: get_all(&sm)?, cleaned });
        }
    }
    match spec.end {
        End::Restart(RestartMode::Crash) => {
            let p = spec.obs_path.as_ref().expect("crash segment needs obs_path");
            std::fs::write(p, serde_json::to_string(&obs).unwrap()).map_err(|e| format!("write obs: {e}"))?;
            std::process::abort();
        }
        End::Restart(RestartMode::Stop) => {
            sm.stop().map_err(|e| format!("stop: {e:?}"))?;
            drop(sm);
        }
        End::Restart(RestartMode::CloseStorage) | End::Final => {
            sm.close_storage();
            drop(sm);
        }
        End::Restart(RestartMode::DropOnly) => drop(sm),
    }
    Ok(obs)
}

pub fn child_main(spec_path: &str) -> i32 {
    child_no_core();
    let spec: SegSpec = serde_json::from_str(&std::fs::read_to_string(spec_path).expect("read spec")).expect("spec json");
    let rt = new_rt();
    match rt.block_on(exec_segment(&spec)) {
        Ok(_) => 3,
        Err(e) => {
            if let Some(p) = &spec.obs_path {
                let _ = std::fs::write(p.with_extension("err"), e);
            }
            4
        }
    }
}

// ---------------------------------------------------------------------------------------------
// judge
// ---------------------------------------------------------------------------------------------
#[derive(Clone, Debug, PartialEq)]
enum KS {
    Unknown,
    Absent,
    Plain(Vec<u8>),
    Ttl { v: Vec<u8>, lo: u64, hi: u64 },
}

#[derive(Clone, Debug)]
struct KeyInfo {
    st: KS,
    /// deadline of a TTL registration that was not cancelled by a delete / expiry (naming + labels only)
    ttl_reg: Option<u64>,
    /// set while the key is Absent because it expired and was cleaned (value, lo, hi): after a restart /
    /// snapshot install such a key is only required to be absent again after the next cleanup
    expired_from: Option<(Vec<u8>, u64, u64)>,
    /// (kind, key was a live TTL key at that moment) since the last definite write (naming only)
    crossings: Vec<(&'static str, bool)>,
}

impl KeyInfo {
    fn suffix(&self) -> String {
        match self.crossings.last() {
            Some((k, _)) => format!("-after-{k}"),
            None => String::new(),
        }
    }
}

struct Judge {
    engine: Engine,
    keys: Vec<KeyInfo>,
    labels: Vec<String>,
    decisive: bool,
}

fn kidx(k: &B) -> usize {
    KEYS.iter().position(|x| *x == k.0.as_slice()).expect("key of the alphabet")
}

impl Judge {
    fn write(&mut self, cmd: &Cmd, clock: u64, first_deadline: Option<u64>, reapplied: bool) {
        let Some(k) = cmd.key() else { return };
        let Judge { keys, labels, .. } = self;
        let ki = &mut keys[kidx(k)];
        if !cmd.is_cas() {
            ki.expired_from = None;
        }
        match cmd {
            Cmd::Put { v, .. } => {
                if matches!(ki.st, KS::Ttl { .. }) {
                    labels.push("plain_put_over_ttl_key".into());
                }
                ki.st = KS::Plain(v.0.clone());
                ki.crossings.clear();
            }
            Cmd::PutTtl { v, ttl, .. } => {
                let hi = clock + ttl * 1000;
                let lo = first_deadline.unwrap_or(hi).min(hi);
                ki.st = KS::Ttl { v: v.0.clone(), lo, hi };
                ki.ttl_reg = Some(hi);
                ki.crossings.clear();
            }
            Cmd::Del { .. } => {
                ki.st = KS::Absent;
                ki.ttl_reg = None;
                ki.crossings.clear();
            }
            Cmd::Cas { exp, v, .. } => {
                if reapplied {
                    ki.st = KS::Unknown;
                    return;
                }
                let exp = exp.as_ref().map(|e| e.0.clone());
                match ki.st.clone() {
                    KS::Unknown => {}
                    KS::Absent => {
                        if exp.is_none() {
                            ki.st = KS::Plain(v.0.clone());
                            ki.crossings.clear();
                            ki.expired_from = None;
                        }
                    }
                    KS::Plain(cur) => {
                        if exp.as_ref() == Some(&cur) {
                            ki.st = KS::Plain(v.0.clone());
                        }
                    }
                    KS::Ttl { v: cur, lo, .. } => {
                        if clock + MARGIN < lo {
                            if exp.as_ref() == Some(&cur) {
                                // successful CAS over a live TTL key: the statement is silent about the TTL
                                ki.st = KS::Unknown;
                                labels.push("cas_over_live_ttl_key".into());
                            }
                        } else {
                            ki.st = KS::Unknown;
                        }
                    }
                }
            }
            Cmd::Noop => {}
        }
    }

    fn crossing(&mut self, kind: &'static str, clock: u64) {
        let Judge { keys, labels, .. } = self;
        for ki in keys.iter_mut() {
            if let (KS::Absent, Some((v, lo, hi))) = (&ki.st, ki.expired_from.clone()) {
                ki.st = KS::Ttl { v, lo, hi };
            }
            match &ki.st {
                KS::Unknown => {}
                KS::Ttl { lo, .. } => {
                    let live = clock < *lo;
                    ki.crossings.push((kind, live));
                }
                _ => ki.crossings.push((kind, false)),
            }
        }
        if keys.iter().any(|k| matches!(&k.st, KS::Ttl { lo, .. } if clock + MARGIN < *lo)) {
            labels.push(format!("live_ttl_key_crosses_{kind}"));
        }
        if keys.iter().any(|k| matches!(&k.st, KS::Ttl { hi, .. } if clock >= *hi + MARGIN)) {
            labels.push(format!("expired_uncleaned_key_crosses_{kind}"));
        }
    }

    /// expiry transition at a cleanup run; returns a violation if an expired key is still there
    fn cleanup(&mut self, clock: u64, gets: &[Option<B>]) -> Option<(String, String)> {
        let Judge { keys, labels, decisive, engine } = self;
        let engine = *engine;
        for (i, ki) in keys.iter_mut().enumerate() {
            if let (KS::Plain(_), Some(reg)) = (&ki.st, ki.ttl_reg) {
                if clock >= reg + MARGIN {
                    // the verdict itself is the Plain check that follows every step
                    *decisive = true;
                    labels.push("plain_put_checked_past_old_deadline".into());
                }
            }
            if let KS::Ttl { v, hi, .. } = ki.st.clone() {
                if clock >= hi + MARGIN {
                    *decisive = true;
                    labels.push("expiry_checked".into());
                    if !ki.crossings.is_empty() {
                        labels.push("expiry_checked_after_crossing".into());
                    }
                    if let Some(got) = &gets[i] {
                        let e = engine.name();
                        let sig = if got.0 != v {
                            format!("C23:{e}-expired-key-replaced-by-stale-value-after-restart")
                        } else {
                            expiry_sig(engine, &ki.crossings)
                        };
                        return Some((
                            sig,
                            format!(
                                "key {} was written with a TTL that ended at {}..{} ms (relative to start); a cleanup ran at {} ms but get() still returns {} (crossings since the write: {:?})",
                                show(KEYS[i]),
                                v_rel(ki_lo(&ki.st)),
                                v_rel(hi),
                                v_rel(clock),
                                show(&got.0),
                                ki.crossings
                            ),
                        ));
                    }
                    ki.expired_from = Some((v.clone(), ki_lo(&ki.st), hi));
                    ki.st = KS::Absent;
                    ki.ttl_reg = None;
                }
            }
        }
        None
    }

    fn check(&mut self, clock: u64, gets: &[Option<B>], at: &str) -> Option<(String, String)> {
        let Judge { keys, labels, engine, .. } = self;
        let e = engine.name();
        for (i, ki) in keys.iter().enumerate() {
            let got = gets[i].as_ref().map(|b| b.0.clone());
            let kname = show(KEYS[i]);
            match &ki.st {
                KS::Unknown => {}
                KS::Absent => {
                    if let Some(g) = &got {
                        return Some((
                            format!("C23:{e}-absent-key-reappears{}", ki.suffix()),
                            format!("{at} (t={} ms): key {kname} was deleted / expired and cleaned but get() returns {}", v_rel(clock), show(g)),
                        ));
                    }
                }
                KS::Plain(v) => {
                    if ki.ttl_reg.is_some() {
                        labels.push("plain_key_with_stale_ttl_checked".into());
                    }
                    if got.as_ref() != Some(v) {
                        let sig = match &got {
                            _ if v.is_empty() && *engine == Engine::File && !ki.crossings.is_empty() => "C23:file-wal-replay-drops-empty-value-insert".to_string(),
                            None if ki.ttl_reg.is_some() => format!("C23:{e}-plain-put-does-not-cancel-ttl"),
                            None => format!("C23:{e}-plain-key-lost{}", ki.suffix()),
                            Some(_) => format!("C23:{e}-wrong-value{}", ki.suffix()),
                        };
                        return Some((
                            sig,
                            format!(
                                "{at} (t={} ms): key {kname} was last written by a plain put/CAS with value {} but get() returns {}{}",
                                v_rel(clock),
                                show(v),
                                show_opt(&got),
                                if ki.ttl_reg.is_some() { " — the key carried a TTL before that write" } else { "" }
                            ),
                        ));
                    }
                }
                KS::Ttl { v, lo, .. } => {
                    if clock + MARGIN < *lo {
                        if !ki.crossings.is_empty() {
                            labels.push("liveness_checked_after_crossing".into());
                        }
                        if got.as_ref() != Some(v) {
                            let sig = match &got {
                                _ if v.is_empty() && *engine == Engine::File && !ki.crossings.is_empty() => "C23:file-wal-replay-drops-empty-value-insert".to_string(),
                                None => format!("C23:{e}-ttl-key-lost-before-expiry{}", ki.suffix()),
                                Some(_) => format!("C23:{e}-wrong-value{}", ki.suffix()),
                            };
                            return Some((
                                sig,
                                format!("{at} (t={} ms): TTL key {kname}={} expires at {} ms but get() returns {}", v_rel(clock), show(v), v_rel(*lo), show_opt(&got)),
                            ));
                        }
                    }
                }
            }
        }
        None
    }
}

/// Names the root cause of "TTL key still present after deadline + cleanup" from the restarts /
/// snapshot installs the key went through since its TTL write. (engine, kind) pairs whose TTL
/// persistence works for live keys are skipped; the first remaining crossing decides.
fn expiry_sig(engine: Engine, crossings: &[(&'static str, bool)]) -> String {
    let e = engine.name();
    for (kind, live) in crossings {
        let works_for_live = matches!((engine, *kind), (Engine::File, "stop-restart") | (Engine::Rocks, "stop-restart") | (Engine::Rocks, "close-restart") | (Engine::Rocks, "snapshot-install"));
        let reloads = works_for_live || *kind == "snapshot-install";
        if reloads && !*live {
            return "C23:expired-ttl-dropped-on-reload-key-never-removed".to_string();
        }
        if works_for_live {
            continue;
        }
        if engine == Engine::File && matches!(*kind, "crash-restart" | "drop-restart" | "close-restart") {
            return "C23:file-ttl-lost-across-restart-without-stop".to_string();
        }
        return format!("C23:{e}-ttl-lost-across-{kind}");
    }
    match crossings.last() {
        None => format!("C23:{e}-expired-key-survives-cleanup"),
        Some((kind, _)) => format!("C23:{e}-ttl-lost-across-{kind}"),
    }
}

fn ki_lo(st: &KS) -> u64 {
    match st {
        KS::Ttl { lo, .. } => *lo,
        _ => 0,
    }
}
fn v_rel(ms: u64) -> i64 {
    ms as i64 - T0_MS as i64
}

/// keys are drawn with a per-case "hot" key (2/3 of all writes) so that multi-step patterns on one key
/// (put-ttl, delete, plain put, wait, cleanup ...) are frequent
fn hot_key_s(hot: usize) -> BoxedStrategy<B> {
    prop_oneof![8 => Just(hot), 1 => Just(0usize), 1 => Just(1usize), 1 => Just(2usize), 1 => Just(3usize)].prop_map(|i| B(KEYS[i].to_vec())).boxed()
}

fn op_s(hot: usize) -> BoxedStrategy<Op> {
    let kv = prop_oneof![
        5 => (hot_key_s(hot), val_s(), 1u64..=5).prop_map(|(k, v, ttl)| Cmd::PutTtl { k, v, ttl }),
        4 => (hot_key_s(hot), val_s()).prop_map(|(k, v)| Cmd::Put { k, v }),
        3 => hot_key_s(hot).prop_map(|k| Cmd::Del { k }),
        2 => (hot_key_s(hot), prop::option::weighted(0.8, val_s()), val_s()).prop_map(|(k, exp, v)| Cmd::Cas { k, exp, v }),
    ];
    prop_oneof![
        10 => (kv, prop::bool::weighted(0.3)).prop_map(|(cmd, join)| Op::Kv { cmd, join }),
        5 => prop_oneof![1 => 0u32..1500, 3 => 1500u32..=7000].prop_map(|ms| Op::Advance { ms }),
        5 => Just(Op::Cleanup),
        1 => Just(Op::Flush),
        1 => Just(Op::Restart(RestartMode::Stop)),
        1 => Just(Op::Restart(RestartMode::CloseStorage)),
        1 => Just(Op::Restart(RestartMode::DropOnly)),
        1 => Just(Op::Restart(RestartMode::Crash)),
        1 => Just(Op::Snapshot),
    ]
    .boxed()
}

fn crossing_s() -> BoxedStrategy<Op> {
    prop_oneof![
        Just(Op::Restart(RestartMode::Stop)),
        Just(Op::Restart(RestartMode::CloseStorage)),
        Just(Op::Restart(RestartMode::DropOnly)),
        Just(Op::Restart(RestartMode::Crash)),
        Just(Op::Snapshot),
    ]
    .boxed()
}

/// a history is a concatenation of segments: single random ops (3/4) and short scenario templates
/// (1/4) that line up the multi-step patterns the statement talks about
fn seg_s(hot: usize) -> BoxedStrategy<Vec<Op>> {
    let kv = |c: Cmd| Op::Kv { cmd: c, join: false };
    let past = |ttl: u64, extra: u32| Op::Advance { ms: (ttl * 1000) as u32 + 1000 + extra };
    prop_oneof![
        15 => op_s(hot).prop_map(|o| vec![o]),
        // TTL key deleted, re-created without TTL, old deadline passes
        1 => (hot_key_s(hot), val_s(), val_s(), 1u64..=4, 0u32..2000, any::<bool>()).prop_map(move |(k, v, w, ttl, extra, cas)| vec![
            kv(Cmd::PutTtl { k: k.clone(), v, ttl }),
            kv(Cmd::Del { k: k.clone() }),
            kv(if cas { Cmd::Cas { k: k.clone(), exp: None, v: w } } else { Cmd::Put { k: k.clone(), v: w } }),
            past(ttl, extra),
            Op::Cleanup,
        ]),
        // TTL key overwritten without TTL, old deadline passes
        1 => (hot_key_s(hot), val_s(), val_s(), 1u64..=4, 0u32..2000).prop_map(move |(k, v, w, ttl, extra)| vec![
            kv(Cmd::PutTtl { k: k.clone(), v, ttl }),
            kv(Cmd::Put { k: k.clone(), v: w }),
            past(ttl, extra),
            Op::Cleanup,
        ]),
        // live TTL key crosses a restart / snapshot install, then expires
        1 => (hot_key_s(hot), val_s(), 2u64..=5, crossing_s(), 0u32..2000, any::<bool>()).prop_map(move |(k, v, ttl, x, extra, flush)| {
            let mut o = vec![kv(Cmd::PutTtl { k, v, ttl })];
            if flush { o.push(Op::Flush); }
            o.push(x);
            o.push(past(ttl, extra));
            o.push(Op::Cleanup);
            o
        }),
        // expired but not yet cleaned TTL key crosses a restart / snapshot install
        1 => (hot_key_s(hot), val_s(), 1u64..=3, crossing_s(), 0u32..2000, any::<bool>()).prop_map(move |(k, v, ttl, x, extra, flush)| {
            let mut o = vec![kv(Cmd::PutTtl { k, v, ttl })];
            if flush { o.push(Op::Flush); }
            o.push(past(ttl, extra));
            o.push(x);
            o.push(Op::Cleanup);
            o
        }),
        // several writes of one key inside ONE chunk (delete / plain put / TTL put in any order, the last one decides
        // whether the key carries a TTL), then the deadline passes: the lease table must follow the order of the entries
        2 => (hot_key_s(hot), val_s(), val_s(), 1u64..=3, 0u32..1500, 0u8..4).prop_map(move |(k, v, w, ttl, extra, shape)| {
            let j = |c: Cmd| Op::Kv { cmd: c, join: true };
            let mut o = match shape {
                0 => vec![kv(Cmd::Del { k: k.clone() }), j(Cmd::PutTtl { k: k.clone(), v, ttl })],
                1 => vec![kv(Cmd::Put { k: k.clone(), v: w }), j(Cmd::PutTtl { k: k.clone(), v, ttl })],
                2 => vec![kv(Cmd::PutTtl { k: k.clone(), v: w, ttl }), j(Cmd::Del { k: k.clone() }), j(Cmd::PutTtl { k: k.clone(), v, ttl })],
                _ => vec![kv(Cmd::PutTtl { k: k.clone(), v, ttl }), j(Cmd::Put { k: k.clone(), v: w })],
            };
            o.push(past(ttl, extra));
            o.push(Op::Cleanup);
            o
        }),
        // a live TTL key must stay readable across a crossing
        1 => (hot_key_s(hot), val_s(), 4u64..=5, crossing_s(), 0u32..2500).prop_map(move |(k, v, ttl, x, ms)| vec![
            kv(Cmd::PutTtl { k, v, ttl }),
            x,
            Op::Advance { ms },
            Op::Cleanup,
        ]),
    ]
    .boxed()
}

fn kind_of(m: RestartMode) -> &'static str {
    match m {
        RestartMode::Stop => "stop-restart",
        RestartMode::CloseStorage => "close-restart",
        RestartMode::DropOnly => "drop-restart",
        RestartMode::Crash => "crash-restart",
    }
}

impl Check for C23 {
    type Case = Case;
    fn id(&self) -> &'static str {
        "C23"
    }
    fn rule(&self) -> String {
        "cases = (engine, history = 1..=12 segments (single random op, or a 4-5 op scenario template), one hot key per case: put-ttl/put/CAS/delete, clock advance, cleanup, flush, restart{stop,close,drop,crash}, snapshot install); non-trivial = at least one decisive TTL verdict was evaluated: an expiry check (a cleanup run at clock >= deadline+1s of a TTL key) or a plain-put/CAS-written key that carried a TTL before, read after a cleanup run past the old deadline+1s; distinct by hash of the whole case".into()
    }
    fn assumptions(&self) -> Vec<String> {
        vec![
            "virtual wall clock (thread-local __verif hook) drives all TTL code; TTLs are whole seconds, verdicts keep a +-1 s margin around every deadline".into(),
            "nothing is asserted for a TTL key between deadline-1s and the first cleanup at/after deadline+1s, nor for a key after a successful CAS over a TTL key until its next put/delete".into(),
            "restart = reopen the same directory with new(dir) + set_lease(fresh TtlLease) + start(), then re-apply committed entries above last_applied(); a re-applied TTL put may legitimately carry either its original deadline or restart-time + ttl (both accepted: deadline interval); keys touched by a re-applied CAS are not judged until their next put/delete".into(),
            "graceful restart variants: stop()+drop (the only path that calls StateMachine::stop; no production caller exists), close_storage()+drop (EmbeddedEngine::stop), drop only (StandaloneEngine); crash = child process abort".into(),
            "snapshot install: generate_snapshot_data(dir, last_applied) on the source, apply_snapshot_from_file(metadata, dir) on a fresh started instance, history continues on the receiver (no compression/transfer: that is C16/C17)".into(),
            "TtlLease::may_have_expired_keys samples only the first 10 entries; with <=4 keys this fast path never hides an expired key, so it is outside the explored domain".into(),
        ]
    }
    fn cases(&self, tier: Tier) -> u32 {
        match tier {
            // RocksDB opens (70-250 ms each) and crash children dominate
            Tier::Quick => 700,
            Tier::Thorough => 9_000,
        }
    }
    fn max_shrink_iters(&self) -> u32 {
        200
    }
    fn workers(&self) -> usize {
        std::env::var("VERIF_WORKERS").ok().and_then(|s| s.parse().ok()).unwrap_or(16)
    }
    fn required_labels(&self) -> Vec<&'static str> {
        vec!["engine_file", "engine_rocksdb", "expiry_checked", "plain_put_over_ttl_key", "has_restart", "has_snapshot", "has_crash"]
    }
    fn strategy(&self, _tier: Tier) -> BoxedStrategy<Case> {
        (prop_oneof![3 => Just(Engine::File), 2 => Just(Engine::Rocks)], 0usize..4)
            .prop_flat_map(|(engine, hot)| (Just(engine), prop::collection::vec(seg_s(hot), 1..=12)))
            .prop_map(|(engine, segs)| Case { engine, ops: segs.into_iter().flatten().collect() })
            .boxed()
    }

    fn run(&self, c: &Case) -> Outcome {
        let mut out = Outcome::ok();
        out.fingerprint = fp(c);
        out.add_label(format!("engine_{}", c.engine.name()));
        if c.ops.iter().any(|o| matches!(o, Op::Restart(_))) {
            out.add_label("has_restart");
        }
        if c.ops.iter().any(|o| matches!(o, Op::Restart(RestartMode::Crash))) {
            out.add_label("has_crash");
        }
        if c.ops.iter().any(|o| matches!(o, Op::Snapshot)) {
            out.add_label("has_snapshot");
        }
        let segs = segments(&c.ops);
        let base = work_dir("c23");
        let mut j = Judge {
            engine: c.engine,
            keys: (0..KEYS.len()).map(|_| KeyInfo { st: KS::Absent, ttl_reg: None, expired_from: None, crossings: vec![] }).collect(),
            labels: vec![],
            decisive: false,
        };
        let mut clock = T0_MS;
        let mut log: Vec<LogEntry> = vec![];
        let mut first_deadline: Vec<Option<u64>> = vec![];
        let mut node_idx = 0u32;
        let mut verdict: Option<(String, String)> = None;
        let mut prev_end: Option<RestartMode> = None;

        'segs: for (si, (steps, end)) in segs.iter().enumerate() {
            let crash = matches!(end, End::Restart(RestartMode::Crash));
            let obs_path = base.join(format!("obs{si}.json"));
            let spec = SegSpec {
                engine: c.engine,
                base: base.clone(),
                node_idx,
                clock_ms: clock,
                log: log.clone(),
                steps: steps.clone(),
                end: *end,
                obs_path: if crash { Some(obs_path.clone()) } else { None },
            };
            let obs: Vec<ObsRec> = if crash {
                let spec_path = base.join(format!("seg{si}.json"));
                std::fs::write(&spec_path, serde_json::to_string(&spec).unwrap()).expect("write spec");
                let (signalled, code) = spawn_child("c23", &spec_path);
                if !signalled {
                    let err = std::fs::read_to_string(obs_path.with_extension("err")).unwrap_or_default();
                    panic!("C23 harness error: crash child ended with code {code:?} instead of aborting: {err}");
                }
                serde_json::from_str(&std::fs::read_to_string(&obs_path).expect("obs file of crash child")).expect("obs json")
            } else {
                let rt = new_rt();
                let r = rt.block_on(exec_segment(&spec));
                drop(rt);
                match r {
                    Ok(o) => o,
                    Err(e) => panic!("C23 harness error: {e}"),
                }
            };
            d_engine_core::verif_hooks::set_virtual_wall_ms(None);

            // ---- judge the segment
            let mut it = obs.iter();
            let open = it.next().expect("open record");
            let n = log.len() as u64;
            if open.a > n {
                verdict = Some((
                    format!("C23:{}-applied-index-beyond-log", c.engine.name()),
                    format!("after {:?} the state machine reports last_applied={} but only {} entries were ever applied", prev_end, open.a, n),
                ));
                break 'segs;
            }
            let mut last = open;
            if let Some(m) = prev_end {
                j.crossing(kind_of(m), clock);
            }
            if open.a < n {
                let re = it.next().expect("reapplied record");
                out.add_label("reapply_after_restart");
                for (e, fd) in log[open.a as usize..].iter().zip(first_deadline[open.a as usize..].iter()) {
                    j.write(&e.cmd, clock, *fd, true);
                }
                last = re;
            }
            if si > 0 {
                if let Some(v) = j.check(clock, &last.gets, &format!("after {}", kind_of(prev_end.unwrap()))) {
                    verdict = Some(v);
                    break 'segs;
                }
            }
            for (sti, st) in steps.iter().enumerate() {
                let rec = it.next().expect("step record");
                let at = format!("after op-step {sti} of segment {si} ({st:?})");
                match st {
                    Step::Chunk(cmds) => {
                        for cmd in cmds {
                            let index = log.len() as u64 + 1;
                            log.push(LogEntry { index, term: 1, cmd: cmd.clone() });
                            first_deadline.push(match cmd {
                                Cmd::PutTtl { ttl, .. } => Some(clock + ttl * 1000),
                                _ => None,
                            });
                            j.write(cmd, clock, None, false);
                        }
                    }
                    Step::Advance(ms) => clock += *ms as u64,
                    Step::Cleanup => {
                        if let Some(v) = j.cleanup(clock, &rec.gets) {
                            verdict = Some(v);
                            break 'segs;
                        }
                    }
                    Step::Flush => {}
                    Step::Snapshot => {
                        node_idx += 1;
                        j.crossing("snapshot-install", clock);
                        if rec.a != log.len() as u64 {
                            verdict = Some((
                                format!("C23:{}-snapshot-install-applied-index", c.engine.name()),
                                format!("after snapshot install last_applied={} but the snapshot was taken at {}", rec.a, log.len()),
                            ));
                            break 'segs;
                        }
                    }
                }
                if let Some(v) = j.check(clock, &rec.gets, &at) {
                    verdict = Some(v);
                    break 'segs;
                }
            }
            prev_end = match end {
                End::Restart(m) => Some(*m),
                End::Final => None,
            };
        }
        rm_dir(&base);
        d_engine_core::verif_hooks::set_virtual_wall_ms(None);

        // decisive: expiry check, or a plain key with a stale TTL read at/after the old deadline
        let mut labels = std::mem::take(&mut j.labels);
        labels.sort();
        labels.dedup();
        for l in labels {
            out.add_label(l);
        }
        out.nontrivial = j.decisive;
        if let Some((sig, detail)) = verdict {
            out.violate(sig, detail);
        }
        out
    }
}
