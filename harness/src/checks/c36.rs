//! C36 — merging queued AppendEntries does not change the outcome.
//!
//! Differential / metamorphic check on a real follower (`Raft<SimT>` event loop, real
//! `BufferedRaftLog`, real replication handler, commit handler and state-machine worker):
//! the same queue of AppendEntries requests is delivered
//!   (A) all at once — every request sits in the node's inbound channel before the loop runs, so
//!       `Raft::merge_append_entries` sees the whole queue — and
//!   (S) one at a time — each request is answered before the next one is sent, so nothing is merged.
//! Oracle: final log, final commit index and applied command sequence are identical, every sender is
//! answered, and each sender's acknowledgement is of the same kind and term as in (S); for successful
//! requests the reported match index is at least what (S) reported to that sender and at most what (S)
//! reported to the last request of the same term (a merged group answers every sender with the merged
//! result — the leader learns the truth earlier, never something false).
use std::collections::BTreeMap;
use std::time::Duration;

use bytes::Bytes;
use d_engine_core::InboundEvent;
use d_engine_core::MaybeCloneOneshot;
use d_engine_core::RaftOneshot;
use d_engine_proto::common::{Entry, EntryPayload};
use d_engine_proto::server::replication::append_entries_response::Result as AeResult;
use d_engine_proto::server::replication::{AppendEntriesRequest, AppendEntriesResponse};
use proptest::prelude::*;
use serde::{Deserialize, Serialize};

use crate::runner::{fp, pick, Check, Outcome, Tier};
use crate::sim::history::Ev;
use crate::sim::{make_config, node_meta, LogView, NodeKnobs, Sim, World};

#[derive(Clone, Debug, Serialize, Deserialize)]
pub enum Q {
    /// the next `n` entries after the cursor (the leader appends new ones as needed)
    Next { n: u8, commit: u16 },
    /// empty request at the cursor (only sent when the cursor is the leader's last index)
    Heartbeat { commit: u16 },
    /// re-send from `back` entries below the cursor (retransmission / pipelined overlap)
    Overlap { back: u8, n: u8, commit: u16 },
    /// request whose prev lies `gap` entries above the cursor (non-contiguous with the queue before it)
    Skip { gap: u8, n: u8, commit: u16 },
    /// a new leader takes over: term + 1, its log is the old leader's log cut `cut` entries below its end
    /// (never below what was committed) plus its own no-op
    NewTerm { cut: u8 },
}

#[derive(Clone, Debug, Serialize, Deserialize)]
pub struct Case {
    pub shared: u8,
    pub follower_has: u16,
    pub stale: u8,
    pub leader_own: u8,
    pub commit0: u16,
    pub max_merge: u8,
    pub queue: Vec<Q>,
}

#[derive(Clone, Debug, PartialEq)]
enum Ack {
    Success { term: u64, matched: u64 },
    Conflict { term: u64 },
    HigherTerm { term: u64 },
    Error(String),
    None,
}

#[derive(Clone, Debug, Default)]
struct RunOut {
    acks: Vec<Ack>,
    log: Vec<(u64, u64, Vec<u8>)>,
    commit: u64,
    applied: Vec<(u64, u64)>,
    node_died: Option<String>,
}

fn ent(index: u64, term: u64) -> Entry {
    // unique payload per (index, term): a Put the simulated state machine can apply
    use d_engine_proto::client::write_command::{Insert, Operation};
    use d_engine_proto::client::WriteCommand;
    use prost::Message;
    let wc = WriteCommand {
        operation: Some(Operation::Insert(Insert {
            key: Bytes::from(format!("k{}", index % 3).into_bytes()),
            value: Bytes::from(format!("i{index}t{term}").into_bytes()),
            ttl_secs: 0,
        })),
    };
    Entry { index, term, payload: Some(EntryPayload::command(Bytes::from(wc.encode_to_vec()))) }
}

/// The requests of a case, built from the leaders' logs (what a leader can send: correct prev term, entries
/// copied from its log, commit index non-decreasing within a term and never above its last index).
struct Built {
    setup: AppendEntriesRequest,
    reqs: Vec<AppendEntriesRequest>,
    labels: Vec<&'static str>,
}

fn build(case: &Case) -> Built {
    let shared = case.shared as u64; // entries 1..=shared, term 1 (on every node)
    let p = pick(case.follower_has, shared as usize + 1) as u64; // follower holds 1..=p of them
    let mut labels = vec![];
    // follower's initial log: shared prefix + stale tail written by the deposed leader 2 (term 2)
    let mut f0: Vec<Entry> = (1..=p).map(|i| ent(i, 1)).collect();
    for k in 0..case.stale as u64 {
        f0.push(ent(p + 1 + k, 2));
    }
    if case.stale > 0 {
        labels.push("follower_has_stale_tail");
    }
    let commit0 = pick(case.commit0, p as usize + 1) as u64;
    let setup = AppendEntriesRequest { term: 2, leader_id: 2, prev_log_index: 0, prev_log_term: 0, entries: f0, leader_commit_index: commit0 };

    // leader 3 (term 3): shared prefix + its own entries (at least its no-op)
    let mut term = 3u64;
    let mut leader_id = 3u32;
    let mut llog: Vec<Entry> = (1..=shared).map(|i| ent(i, 1)).collect();
    for _ in 0..case.leader_own.max(1) {
        let i = llog.len() as u64 + 1;
        llog.push(ent(i, term));
    }
    let mut committed = commit0; // what the current leader knows to be committed
    // where the leader believes the follower's log ends
    let mut cursor = p.min(llog.len() as u64);
    let mut reqs = vec![];
    let term_of = |l: &Vec<Entry>, i: u64| if i == 0 { 0 } else { l[(i - 1) as usize].term };
    for q in &case.queue {
        match q {
            Q::NewTerm { cut } => {
                term += 1;
                leader_id = if leader_id == 3 { 2 } else { 3 };
                let keep = (llog.len() as u64).saturating_sub(*cut as u64).max(committed);
                llog.truncate(keep as usize);
                let i = llog.len() as u64 + 1;
                llog.push(ent(i, term));
                cursor = cursor.min(keep);
                labels.push("leader_change");
                continue;
            }
            Q::Heartbeat { commit } => {
                // a d-engine leader sends an empty request only to a peer it believes caught up
                let prev = llog.len() as u64;
                committed = committed.max(pick(*commit, prev as usize + 1) as u64);
                reqs.push(AppendEntriesRequest {
                    term,
                    leader_id,
                    prev_log_index: prev,
                    prev_log_term: term_of(&llog, prev),
                    entries: vec![],
                    leader_commit_index: committed,
                });
                if prev != cursor {
                    labels.push("heartbeat_not_contiguous");
                }
                cursor = prev;
                labels.push("heartbeat");
            }
            Q::Next { n, commit } | Q::Overlap { n, commit, .. } | Q::Skip { n, commit, .. } => {
                let prev = match q {
                    Q::Next { .. } => cursor,
                    Q::Overlap { back, .. } => {
                        labels.push("overlap");
                        cursor.saturating_sub(*back as u64 + 1)
                    }
                    Q::Skip { gap, .. } => {
                        labels.push("non_contiguous");
                        cursor + *gap as u64 + 1
                    }
                    _ => unreachable!(),
                };
                let n = (*n).max(1) as u64;
                while (llog.len() as u64) < prev + n {
                    let i = llog.len() as u64 + 1;
                    llog.push(ent(i, term));
                }
                let entries: Vec<Entry> = llog[prev as usize..(prev + n) as usize].to_vec();
                committed = committed.max(pick(*commit, llog.len() + 1) as u64);
                reqs.push(AppendEntriesRequest {
                    term,
                    leader_id,
                    prev_log_index: prev,
                    prev_log_term: term_of(&llog, prev),
                    entries,
                    leader_commit_index: committed,
                });
                cursor = prev + n;
            }
        }
    }
    Built { setup, reqs, labels }
}

async fn send_one(w: &World, req: AppendEntriesRequest) -> Option<tokio::sync::oneshot::Receiver<Ack>> {
    let tx = w.nodes.get(&1)?.event_tx.clone();
    let (resp_tx, resp_rx) = MaybeCloneOneshot::new();
    tx.try_send(InboundEvent::AppendEntries(req, vec![resp_tx])).ok()?;
    let (otx, orx) = tokio::sync::oneshot::channel();
    tokio::spawn(async move {
        let a = match tokio::time::timeout(Duration::from_secs(20), resp_rx).await {
            Err(_) => Ack::None,
            Ok(Err(_)) => Ack::None,
            Ok(Ok(Err(status))) => Ack::Error(format!("{:?}", status.code())),
            Ok(Ok(Ok(r))) => classify(&r),
        };
        let _ = otx.send(a);
    });
    Some(orx)
}

fn classify(r: &AppendEntriesResponse) -> Ack {
    match &r.result {
        Some(AeResult::Success(s)) => Ack::Success { term: r.term, matched: s.last_match.map(|l| l.index).unwrap_or(0) },
        Some(AeResult::Conflict(_)) => Ack::Conflict { term: r.term },
        Some(AeResult::HigherTerm(t)) => Ack::HigherTerm { term: *t },
        None => Ack::Error("empty result".into()),
    }
}

fn run_world(case: &Case, built: &Built, merged: bool) -> RunOut {
    let case = case.clone();
    let setup = built.setup.clone();
    let reqs = built.reqs.clone();
    Sim::run(7, move |mut w| async move {
        let knobs = NodeKnobs { election_min_ms: 10_000_000, election_max_ms: 20_000_000, heartbeat_ms: 1000, lease_ms: 100, ..NodeKnobs::default() };
        let cluster = vec![node_meta(1, false), node_meta(2, false), node_meta(3, false)];
        let mut cfg = make_config(1, cluster, &knobs, &w.root);
        cfg.raft.batching.max_merge_entries = case.max_merge.max(1) as usize;
        w.start_node(1, cfg, None, 1).await;
        tokio::time::sleep(Duration::from_millis(50)).await;
        let mut out = RunOut::default();
        // setup: the follower's initial log, delivered by the deposed leader (identical in both worlds)
        if !setup.entries.is_empty() || setup.leader_commit_index > 0 {
            match send_one(&w, setup).await {
                Some(rx) => {
                    let _ = rx.await;
                }
                None => {
                    out.node_died = Some("setup request could not be delivered".into());
                    return out;
                }
            }
            tokio::time::sleep(Duration::from_millis(200)).await;
        }
        if merged {
            let mut rxs = vec![];
            for r in reqs {
                rxs.push(send_one(&w, r).await);
            }
            for rx in rxs {
                out.acks.push(match rx {
                    Some(rx) => rx.await.unwrap_or(Ack::None),
                    None => Ack::Error("not delivered".into()),
                });
            }
        } else {
            for r in reqs {
                let a = match send_one(&w, r).await {
                    Some(rx) => rx.await.unwrap_or(Ack::None),
                    None => Ack::Error("not delivered".into()),
                };
                out.acks.push(a);
                tokio::time::sleep(Duration::from_millis(20)).await;
            }
        }
        tokio::time::sleep(Duration::from_millis(1500)).await;
        if let Some(n) = w.nodes.get(&1) {
            out.node_died = n.raft_exit.lock().unwrap().clone();
        }
        if let Some(LogView::Live(l)) = w.log_views.lock().unwrap().get(&1).cloned() {
            use d_engine_core::RaftLog;
            let first = l.first_entry_id();
            let last = l.last_entry_id();
            if first > 0 {
                for i in first..=last {
                    if let Ok(Some(e)) = l.entry(i) {
                        out.log.push((e.index, e.term, crate::sim::scenario::payload_bytes(&e)));
                    }
                }
            }
        }
        for (_, e) in w.history.lock().unwrap().events.iter() {
            if let Ev::Commit { node: 1, index, .. } = e {
                out.commit = *index;
            }
        }
        out.applied = w.applies.lock().unwrap().applied.iter().filter(|a| a.node == 1).map(|a| (a.index, a.term)).collect();
        w.shutdown_all().await;
        // (two worlds per case: without this the per-process work directory collects millions of empty
        // directories in a thorough run and its removal at exit takes longer than the run itself)
        crate::runner::rm_dir(&w.root);
        out
    })
}

#[derive(Clone)]
pub struct C36;

impl Check for C36 {
    type Case = Case;
    fn id(&self) -> &'static str {
        "C36"
    }
    fn rule(&self) -> String {
        "case = follower log (shared prefix 0..12 entries, optional stale tail of a deposed leader, initial commit) + a queue of 2..9 AppendEntries built from real leader logs (consecutive batches, heartbeats, overlapping re-sends, non-contiguous requests, leader changes with higher terms and log cuts) + max_merge_entries 1..12|100; the queue is run merged (all requests in the inbound channel before the Raft loop runs) and one at a time on two fresh real followers; non-trivial = at least two consecutive requests of one term whose prev/len chain (a merge candidate) and at least one entry-carrying request succeeded; distinct by (request shapes, acks)".into()
    }
    fn assumptions(&self) -> Vec<String> {
        vec![
            "requests are ones a leader can send: entries copied from its log with the true prev term, commit index non-decreasing within a term (FIFO stream), empty requests only at the leader's last index".into(),
            "a merged group answers every sender with the merged result: for successful requests the match index may exceed what the sender's own request would report, but never what the last request of that term reports in the one-at-a-time run; conflict hints are not compared (a merged group reports the hint of its first request)".into(),
            "single follower driven through its inbound event channel (the same channel the gRPC handlers use), paused tokio clock".into(),
        ]
    }
    fn cases(&self, tier: Tier) -> u32 {
        match tier {
            Tier::Quick => 24_000,
            Tier::Thorough => 3_000_000,
        }
    }
    fn required_labels(&self) -> Vec<&'static str> {
        vec!["merge_candidate"]
    }
    fn strategy(&self, _tier: Tier) -> BoxedStrategy<Case> {
        let q = prop_oneof![
            8 => (1u8..5, any::<u16>()).prop_map(|(n, commit)| Q::Next { n, commit }),
            3 => any::<u16>().prop_map(|commit| Q::Heartbeat { commit }),
            2 => (0u8..4, 1u8..4, any::<u16>()).prop_map(|(back, n, commit)| Q::Overlap { back, n, commit }),
            1 => (0u8..3, 1u8..3, any::<u16>()).prop_map(|(gap, n, commit)| Q::Skip { gap, n, commit }),
            1 => (0u8..3).prop_map(|cut| Q::NewTerm { cut }),
        ];
        (
            0u8..12,
            any::<u16>(),
            prop_oneof![2 => Just(0u8), 1 => 1u8..4],
            1u8..4,
            any::<u16>(),
            prop_oneof![3 => 1u8..12, 1 => Just(100u8)],
            proptest::collection::vec(q, 2..=9),
        )
            .prop_map(|(shared, follower_has, stale, leader_own, commit0, max_merge, queue)| Case { shared, follower_has, stale, leader_own, commit0, max_merge, queue })
            .boxed()
    }
    fn run(&self, case: &Case) -> Outcome {
        let mut out = Outcome::ok();
        let built = build(case);
        for l in &built.labels {
            out.add_label(*l);
        }
        if built.reqs.len() < 2 {
            out.add_label("fewer_than_two_requests");
            return out;
        }
        // merge candidates: consecutive requests of one term whose prev/len chain
        let mut cand = 0;
        let max = case.max_merge.max(1) as usize;
        for w in built.reqs.windows(2) {
            if w[0].term == w[1].term && w[0].prev_log_index + w[0].entries.len() as u64 == w[1].prev_log_index {
                cand += 1;
                if w[0].entries.len() + w[1].entries.len() > max {
                    out.add_label("merge_limit_hit");
                }
            }
        }
        if cand > 0 {
            out.add_label("merge_candidate");
        }
        let a = run_world(case, &built, true);
        let s = run_world(case, &built, false);
        if let Some(d) = &s.node_died {
            // the reference run itself failed: nothing to compare against
            out.add_label("reference_run_failed");
            let _ = d;
            return out;
        }
        let succeeded_with_entries = built.reqs.iter().zip(&s.acks).any(|(r, k)| !r.entries.is_empty() && matches!(k, Ack::Success { .. }));
        out.nontrivial = cand > 0 && succeeded_with_entries;
        let shapes: Vec<(u64, u64, usize, u64)> = built.reqs.iter().map(|r| (r.term, r.prev_log_index, r.entries.len(), r.leader_commit_index)).collect();
        out.fingerprint = fp(&(shapes.clone(), format!("{:?}", s.acks)));
        if s.acks.iter().any(|k| matches!(k, Ack::Conflict { .. })) {
            out.add_label("some_request_rejected");
        }
        if s.commit > 0 {
            out.add_label("commit_advanced");
        }
        let ctx = || format!("requests (term, prev, n, leader_commit) = {shapes:?}, max_merge_entries = {max}; one-at-a-time: acks {:?} commit {} log {:?}; merged: acks {:?} commit {} log {:?}", s.acks, s.commit, brief(&s.log), a.acks, a.commit, brief(&a.log));
        if let Some(d) = &a.node_died {
            out.violate("C36:follower-stopped-while-processing-merged-queue", format!("{d}; {}", ctx()));
            return out;
        }
        if a.log != s.log {
            out.violate("C36:log-differs-from-one-at-a-time", ctx());
            return out;
        }
        if a.commit != s.commit {
            out.violate("C36:commit-index-differs-from-one-at-a-time", ctx());
            return out;
        }
        if a.applied != s.applied {
            out.violate("C36:applied-sequence-differs-from-one-at-a-time", format!("applied merged {:?} vs one-at-a-time {:?}; {}", a.applied, s.applied, ctx()));
            return out;
        }
        // acknowledgements
        let mut last_of_term: BTreeMap<u64, u64> = BTreeMap::new();
        for (r, k) in built.reqs.iter().zip(&s.acks) {
            if let Ack::Success { matched, .. } = k {
                let e = last_of_term.entry(r.term).or_insert(0);
                *e = (*e).max(*matched);
            }
        }
        for (i, (r, (ka, ks))) in built.reqs.iter().zip(a.acks.iter().zip(&s.acks)).enumerate() {
            match (ka, ks) {
                (Ack::None, _) => {
                    out.violate("C36:sender-never-answered", format!("request #{i} got no answer in the merged run; {}", ctx()));
                    return out;
                }
                (Ack::Success { term: ta, matched: ma }, Ack::Success { term: ts, matched: ms }) => {
                    // the term field of a success/conflict answer is the follower's term when the request was
                    // picked up (the first answer of a new term still carries the old one): a merged group
                    // shares one answer, so only "not above the request's term" is comparable
                    if (*ta > r.term) != (*ts > r.term) {
                        out.violate("C36:ack-term-differs", format!("request #{i}; {}", ctx()));
                        return out;
                    }
                    let hi = last_of_term.get(&r.term).copied().unwrap_or(*ms);
                    if ma < ms || *ma > hi {
                        out.violate("C36:ack-match-index-outside-one-at-a-time-range", format!("request #{i}: merged run reported match {ma}, one-at-a-time {ms}, last request of the term {hi}; {}", ctx()));
                        return out;
                    }
                    if ma != ms {
                        out.add_label("ack_match_upgraded_by_merge");
                    }
                }
                (Ack::Conflict { term: ta }, Ack::Conflict { term: ts }) => {
                    if (*ta > r.term) != (*ts > r.term) {
                        out.violate("C36:ack-term-differs", format!("request #{i}; {}", ctx()));
                        return out;
                    }
                }
                (Ack::HigherTerm { term: ta }, Ack::HigherTerm { term: ts }) => {
                    if ta != ts {
                        out.violate("C36:ack-term-differs", format!("request #{i}; {}", ctx()));
                        return out;
                    }
                }
                (x, y) if std::mem::discriminant(x) == std::mem::discriminant(y) => {}
                _ => {
                    out.violate("C36:ack-kind-differs-from-one-at-a-time", format!("request #{i}: merged {ka:?} vs one-at-a-time {ks:?}; {}", ctx()));
                    return out;
                }
            }
        }
        out
    }
    fn workers(&self) -> usize {
        16
    }
    fn max_shrink_iters(&self) -> u32 {
        300
    }
}

fn brief(l: &[(u64, u64, Vec<u8>)]) -> Vec<(u64, u64)> {
    l.iter().map(|(i, t, _)| (*i, *t)).collect()
}
