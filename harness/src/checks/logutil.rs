//! Shared helpers for the raft-log / replication checks (C19, C08, C07):
//! a real `BufferedRaftLog` over a `FileStorageEngine` in a scratch directory, deterministic entry
//! construction, and the plain reference log (`BTreeMap` + purge boundary) used as the oracle.
use std::collections::BTreeMap;
use std::future::Future;
use std::path::{Path, PathBuf};
use std::sync::atomic::{AtomicU64, Ordering};
use std::sync::Arc;

use bytes::Bytes;
use d_engine_core::{BufferedRaftLog, PersistenceConfig, RaftLog, ReplicationHandler};
use d_engine_proto::common::{Entry, EntryPayload, LogId};
use d_engine_server::node::RaftTypeConfig;
use d_engine_server::{FileStateMachine, FileStorageEngine};

pub type TC = RaftTypeConfig<FileStorageEngine, FileStateMachine>;
pub type Log = BufferedRaftLog<TC>;
pub type Rep = ReplicationHandler<TC>;

/// Fresh scratch directory. Prefers tmpfs (`/dev/shm`) because the File log store fsyncs on every
/// IO-thread wake-up; falls back to `runner::work_dir`. Override with VERIF_SCRATCH=<dir> or
/// VERIF_SCRATCH=work (force `runner::work_dir`).
pub fn scratch_dir(tag: &str) -> PathBuf {
    static N: AtomicU64 = AtomicU64::new(0);
    let base: Option<PathBuf> = match std::env::var("VERIF_SCRATCH") {
        Ok(s) if s == "work" => None,
        Ok(s) if !s.is_empty() => Some(PathBuf::from(s)),
        _ => {
            if Path::new("/dev/shm").is_dir() {
                Some(PathBuf::from("/dev/shm/dverif-work"))
            } else {
                None
            }
        }
    };
    if let Some(b) = base {
        let n = N.fetch_add(1, Ordering::Relaxed);
        let p = b.join(format!("{}", std::process::id())).join(format!("{tag}-{n}"));
        if std::fs::create_dir_all(&p).is_ok() {
            return p;
        }
    }
    crate::runner::work_dir(tag)
}

/// Removes the per-process scratch root (called by checks at the end of each case for their own dirs;
/// this removes the now-empty parent too when possible).
pub fn rm_scratch(p: &Path) {
    let _ = std::fs::remove_dir_all(p);
    if let Some(parent) = p.parent() {
        let _ = std::fs::remove_dir(parent); // only succeeds when empty
    }
}

/// A started `BufferedRaftLog` and the directory it lives in.
pub struct LogBox {
    pub log: Arc<Log>,
    dir: PathBuf,
}

impl LogBox {
    pub fn open(tag: &str, node_id: u32) -> LogBox {
        let dir = scratch_dir(tag);
        let storage = Arc::new(FileStorageEngine::new(dir.clone()).expect("FileStorageEngine::new"));
        let (log, rx) = Log::new(node_id, PersistenceConfig::default(), storage);
        let log = log.start(rx, None);
        LogBox { log, dir }
    }
    /// Joins the IO thread and removes the directory.
    pub async fn close(self) {
        self.log.close().await;
        drop(self.log);
        rm_scratch(&self.dir);
    }
}

/// Runs a future on this worker thread's current-thread runtime. The runtime object is reused across
/// the cases of one worker (building one costs several syscalls and its blocking pool a thread); it
/// carries no state between cases: every case joins its own IO threads before returning.
pub fn block_on<F: Future>(f: F) -> F::Output {
    thread_local! {
        static RT: tokio::runtime::Runtime = tokio::runtime::Builder::new_current_thread().enable_all().build().expect("runtime");
    }
    RT.with(|rt| rt.block_on(f))
}

/// Payload determined by (index, term): in a protocol-plausible world an (index, term) pair identifies
/// one entry, so equal pairs must carry equal payloads and different pairs different ones.
pub fn payload_for(index: u64, term: u64) -> EntryPayload {
    if (index * 3 + term) % 7 == 0 {
        EntryPayload::noop()
    } else {
        EntryPayload::command(Bytes::from(format!("i{index}t{term}").into_bytes()))
    }
}

pub fn ent(index: u64, term: u64) -> Entry {
    Entry { index, term, payload: Some(payload_for(index, term)) }
}

pub fn lid(index: u64, term: u64) -> LogId {
    LogId { term, index }
}

pub fn show(e: &[Entry]) -> String {
    let v: Vec<String> = e.iter().map(|x| format!("{}:t{}", x.index, x.term)).collect();
    format!("[{}]", v.join(","))
}

/// Result of the reference conflict-aware append.
#[derive(Clone, Debug, PartialEq, Eq)]
pub enum ConflictAppend {
    /// prev does not match: log unchanged.
    Rejected,
    /// prev matched ((0,0) is the virtual position that matches every log). `skipped_purged`: leading
    /// request entries at or below the purge boundary (committed, covered by the snapshot) that were
    /// ignored; `nothing_left`: all of them were; `truncated_from`: first index removed because of a
    /// term conflict; `appended`: entries written; `retained_beyond`: entries above the request's last
    /// index were kept (no conflict inside the request).
    Accepted { skipped_purged: usize, nothing_left: bool, truncated_from: Option<u64>, appended: usize, retained_beyond: bool },
}

/// Plain reference log: present entries + purge boundary.
#[derive(Clone, Debug, Default)]
pub struct PlainLog {
    pub entries: BTreeMap<u64, Entry>,
    /// (index, term) of the last purged entry; (0,0) = never purged.
    pub boundary: (u64, u64),
    /// The boundary survived a reset(): the trait documentation ("MUST clear all metadata") and the
    /// code (keeps the in-memory boundary) can be read both ways, so boundary-dependent answers are
    /// not judged while this flag is set.
    pub boundary_ambiguous: bool,
}

impl PlainLog {
    pub fn first(&self) -> u64 {
        self.entries.keys().next().copied().unwrap_or(0)
    }
    pub fn last(&self) -> u64 {
        self.entries.keys().next_back().copied().unwrap_or(0)
    }
    pub fn is_empty(&self) -> bool {
        self.entries.is_empty()
    }
    /// Term at `i`: a present entry, else the purge boundary, else None.
    pub fn term_at(&self, i: u64) -> Option<u64> {
        if let Some(e) = self.entries.get(&i) {
            return Some(e.term);
        }
        if self.boundary.0 > 0 && i == self.boundary.0 {
            return Some(self.boundary.1);
        }
        None
    }
    /// true when `term_at(i)` is answered from a boundary whose survival is ambiguous.
    pub fn term_at_is_ambiguous(&self, i: u64) -> bool {
        self.boundary_ambiguous && self.boundary.0 > 0 && i == self.boundary.0 && !self.entries.contains_key(&i)
    }
    pub fn last_log_id(&self) -> Option<(u64, u64)> {
        if let Some((i, e)) = self.entries.iter().next_back() {
            return Some((*i, e.term));
        }
        if self.boundary.0 > 0 {
            return Some(self.boundary);
        }
        None
    }
    pub fn last_log_id_is_ambiguous(&self) -> bool {
        self.entries.is_empty() && self.boundary_ambiguous && self.boundary.0 > 0
    }
    pub fn first_index_for_term(&self, t: u64) -> Option<u64> {
        self.entries.values().find(|e| e.term == t).map(|e| e.index)
    }
    pub fn last_index_for_term(&self, t: u64) -> Option<u64> {
        self.entries.values().rev().find(|e| e.term == t).map(|e| e.index)
    }
    pub fn range(&self, a: u64, b: u64) -> Vec<Entry> {
        if a > b {
            return vec![];
        }
        self.entries.range(a..=b).map(|(_, e)| e.clone()).collect()
    }
    /// First index of the maximal suffix of entries that carry the last entry's term.
    pub fn last_term_run_start(&self) -> u64 {
        let Some(last) = self.entries.values().next_back() else { return 0 };
        let mut start = last.index;
        for e in self.entries.values().rev() {
            if e.term == last.term {
                start = e.index;
            } else {
                break;
            }
        }
        start
    }
    pub fn append(&mut self, es: &[Entry]) {
        for e in es {
            self.entries.insert(e.index, e.clone());
        }
    }
    pub fn reset(&mut self) {
        self.entries.clear();
        if self.boundary.0 > 0 {
            self.boundary_ambiguous = true;
        }
    }
    pub fn purge(&mut self, cutoff: (u64, u64)) {
        self.entries = self.entries.split_off(&(cutoff.0 + 1));
        self.boundary = cutoff;
        self.boundary_ambiguous = false;
    }
    /// Raft §5.3 conflict-aware append as documented in `filter_out_conflicts_and_append`:
    /// (0,0) is the virtual position before the first entry and always matches; otherwise prev must
    /// match (an entry or the purge boundary). Entries at or below the purge boundary are skipped.
    /// Matching entries are kept, the first conflicting index truncates the suffix, nothing beyond the
    /// request is discarded unless it conflicts.
    pub fn conflict_append(&mut self, prev_index: u64, prev_term: u64, es: &[Entry]) -> ConflictAppend {
        let virtual_prev = prev_index == 0 && prev_term == 0;
        if !virtual_prev && self.term_at(prev_index) != Some(prev_term) {
            return ConflictAppend::Rejected;
        }
        let b = self.boundary.0;
        let mut skipped_purged = 0;
        let mut es: &[Entry] = es;
        if b > 0 && es.first().is_some_and(|e| e.index <= b) {
            skipped_purged = es.iter().take_while(|e| e.index <= b).count();
            es = &es[skipped_purged..];
            if es.is_empty() {
                return ConflictAppend::Accepted { skipped_purged, nothing_left: true, truncated_from: None, appended: 0, retained_beyond: !self.entries.is_empty() };
            }
        }
        let mut truncated_from = None;
        let mut appended = 0;
        for e in es {
            match self.entries.get(&e.index) {
                Some(have) if have.term == e.term => {}
                Some(_) => {
                    // first conflicting index: drop it and everything after it
                    let _ = self.entries.split_off(&e.index);
                    truncated_from.get_or_insert(e.index);
                    self.entries.insert(e.index, e.clone());
                    appended += 1;
                }
                None => {
                    self.entries.insert(e.index, e.clone());
                    appended += 1;
                }
            }
        }
        let req_last = es.last().map(|e| e.index).unwrap_or(prev_index);
        ConflictAppend::Accepted { skipped_purged, nothing_left: false, truncated_from, appended, retained_beyond: self.last() > req_last }
    }
}

/// Reads the whole observable content of a real log (every entry up to last_entry_id()+16; the range is
/// bounded because get_entries_range pre-allocates `end - start + 1` slots).
pub fn snapshot_of(log: &Log) -> Vec<Entry> {
    log.get_entries_range(0..=log.last_entry_id() + 16).unwrap_or_default()
}

/// Violations collected during one case; the reported one is the first whose signature is not an
/// open known finding (so that a known root cause never masks a new one in the same case).
#[derive(Default)]
pub struct Violations {
    pub all: Vec<(String, String)>,
}
impl Violations {
    pub fn push(&mut self, sig: impl Into<String>, detail: impl Into<String>) {
        let sig = sig.into();
        if !self.all.iter().any(|(s, _)| *s == sig) {
            self.all.push((sig, detail.into()));
        }
    }
    pub fn report(self, property: &str, out: &mut crate::runner::Outcome) {
        if self.all.is_empty() {
            return;
        }
        let known = known_open(property);
        let pickd = self.all.iter().find(|(s, _)| !known.contains(s)).or_else(|| self.all.first()).unwrap();
        out.violate(pickd.0.clone(), pickd.1.clone());
    }
}

fn known_open(property: &str) -> Vec<String> {
    use std::sync::OnceLock;
    static K: OnceLock<Vec<(String, String)>> = OnceLock::new();
    K.get_or_init(|| {
        crate::runner::load_known_findings()
            .into_iter()
            .filter(|k| k.status == "open")
            .map(|k| (k.property, k.signature))
            .collect()
    })
    .iter()
    .filter(|(p, _)| p == property)
    .map(|(_, s)| s.clone())
    .collect()
}

thread_local! {
    static QUIET_PANICS: std::cell::Cell<bool> = const { std::cell::Cell::new(false) };
}

/// `catch_unwind` without the default panic message / backtrace on stderr for panics raised inside
/// `f` on this thread (a panic of the code under test becomes a verdict, not noise).
pub fn catch_quiet<R>(f: impl FnOnce() -> R) -> std::thread::Result<R> {
    static ONCE: std::sync::Once = std::sync::Once::new();
    ONCE.call_once(|| {
        let prev = std::panic::take_hook();
        std::panic::set_hook(Box::new(move |info| {
            if !QUIET_PANICS.with(|q| q.get()) {
                prev(info)
            }
        }));
    });
    QUIET_PANICS.with(|q| q.set(true));
    let r = std::panic::catch_unwind(std::panic::AssertUnwindSafe(f));
    QUIET_PANICS.with(|q| q.set(false));
    r
}
