//! Shared helper for the `live` checks (C37, C35): a pool of real single-node `EmbeddedEngine`s.
//!
//! Each engine is a complete d-engine node (Raft loop, commit handler, state-machine worker, gRPC
//! server on a free loopback port) started through the public `EmbeddedEngine::start_custom` with a
//! generated TOML config. The state machine is `Rec<S>`: a transparent wrapper around the real
//! `FileStateMachine` / `RocksDBStateMachine` that records every `ApplyEntry` it is handed before
//! delegating. Engines are reused across cases of one process (starting one costs ~100 ms + an
//! election); a case checks an engine out of the pool and puts it back, so no two cases ever use the
//! same engine at the same time. An engine that shows any error or timeout is discarded.
use std::collections::BTreeSet;
use std::fmt::Debug;
use std::path::PathBuf;
use std::sync::atomic::{AtomicU64, Ordering};
use std::sync::{Arc, Mutex};
use std::time::Duration;

use async_trait::async_trait;
use bytes::Bytes;
use d_engine_core::{ApplyEntry, ApplyResult, Command, Error, ScanResult, StateMachine, StorageEngine};
use d_engine_proto::common::LogId;
use d_engine_proto::server::storage::SnapshotMetadata;
use d_engine_server::node::RaftTypeConfig;
use d_engine_server::{EmbeddedClient, EmbeddedEngine, FileStateMachine, FileStorageEngine};
// ROCKS-BEGIN
use d_engine_server::{RocksDBStateMachine, RocksDBStorageEngine};
// ROCKS-END

/// TTLs above this are clamped before they are handed to the *inner* state machine (the recorded
/// ApplyEntry keeps the original). `TtlLease::register` computes `SystemTime + Duration::from_secs(ttl)`
/// which panics for huge values and would wedge the engine; that is outside C37/C35.
pub const INNER_TTL_CLAMP: u64 = 10 * 365 * 24 * 3600;

/// Recording, otherwise transparent, state machine.
pub struct Rec<S> {
    pub inner: S,
    log: Mutex<Vec<ApplyEntry>>,
}
impl<S> Rec<S> {
    pub fn new(inner: S) -> Self {
        Rec { inner, log: Mutex::new(vec![]) }
    }
    pub fn log_len(&self) -> usize {
        self.log.lock().unwrap().len()
    }
    pub fn log_from(&self, from: usize) -> Vec<ApplyEntry> {
        self.log.lock().unwrap()[from..].to_vec()
    }
    /// keep memory bounded: forget everything (callers hold no positions across cases)
    pub fn clear_log(&self) {
        self.log.lock().unwrap().clear();
    }
}
impl<S> Debug for Rec<S> {
    fn fmt(&self, f: &mut std::fmt::Formatter<'_>) -> std::fmt::Result {
        write!(f, "Rec<StateMachine>")
    }
}

#[async_trait]
impl<S: StateMachine> StateMachine for Rec<S> {
    async fn start(&self) -> Result<(), Error> {
        self.inner.start().await
    }
    fn stop(&self) -> Result<(), Error> {
        self.inner.stop()
    }
    fn close_storage(&self) {
        self.inner.close_storage()
    }
    fn is_running(&self) -> bool {
        self.inner.is_running()
    }
    fn get(&self, key_buffer: &[u8]) -> Result<Option<Bytes>, Error> {
        self.inner.get(key_buffer)
    }
    fn get_multi(&self, keys: &[Bytes]) -> Result<Vec<Option<Bytes>>, Error> {
        self.inner.get_multi(keys)
    }
    fn entry_term(&self, entry_id: u64) -> Option<u64> {
        self.inner.entry_term(entry_id)
    }
    async fn apply_chunk(&self, chunk: &[ApplyEntry]) -> Result<Vec<ApplyResult>, Error> {
        self.log.lock().unwrap().extend(chunk.iter().cloned());
        let needs_clamp = chunk.iter().any(|e| matches!(&e.command, Command::Insert { ttl_secs: Some(t), .. } if *t > INNER_TTL_CLAMP));
        if needs_clamp {
            let clamped: Vec<ApplyEntry> = chunk
                .iter()
                .cloned()
                .map(|mut e| {
                    if let Command::Insert { ttl_secs: Some(t), .. } = &mut e.command {
                        if *t > INNER_TTL_CLAMP {
                            *t = INNER_TTL_CLAMP;
                        }
                    }
                    e
                })
                .collect();
            self.inner.apply_chunk(&clamped).await
        } else {
            self.inner.apply_chunk(chunk).await
        }
    }
    fn len(&self) -> usize {
        self.inner.len()
    }
    fn is_empty(&self) -> bool {
        self.inner.is_empty()
    }
    fn update_last_applied(&self, last_applied: LogId) {
        self.inner.update_last_applied(last_applied)
    }
    fn last_applied(&self) -> LogId {
        self.inner.last_applied()
    }
    fn persist_last_applied(&self, last_applied: LogId) -> Result<(), Error> {
        self.inner.persist_last_applied(last_applied)
    }
    fn update_last_snapshot_metadata(&self, snapshot_metadata: &SnapshotMetadata) -> Result<(), Error> {
        self.inner.update_last_snapshot_metadata(snapshot_metadata)
    }
    fn snapshot_metadata(&self) -> Option<SnapshotMetadata> {
        self.inner.snapshot_metadata()
    }
    fn persist_last_snapshot_metadata(&self, snapshot_metadata: &SnapshotMetadata) -> Result<(), Error> {
        self.inner.persist_last_snapshot_metadata(snapshot_metadata)
    }
    async fn apply_snapshot_from_file(&self, metadata: &SnapshotMetadata, snapshot_path: std::path::PathBuf) -> Result<(), Error> {
        self.inner.apply_snapshot_from_file(metadata, snapshot_path).await
    }
    async fn generate_snapshot_data(&self, new_snapshot_dir: std::path::PathBuf, last_included: LogId) -> Result<Bytes, Error> {
        self.inner.generate_snapshot_data(new_snapshot_dir, last_included).await
    }
    fn save_hard_state(&self) -> Result<(), Error> {
        self.inner.save_hard_state()
    }
    fn flush(&self) -> Result<(), Error> {
        self.inner.flush()
    }
    async fn flush_async(&self) -> Result<(), Error> {
        self.inner.flush_async().await
    }
    async fn reset(&self) -> Result<(), Error> {
        self.inner.reset().await
    }
    fn scan_prefix(&self, prefix: &[u8]) -> Result<ScanResult, Error> {
        self.inner.scan_prefix(prefix)
    }
    async fn lease_background_cleanup(&self) -> Result<Vec<Bytes>, Error> {
        self.inner.lease_background_cleanup().await
    }
}

pub type Tc<SE, S> = RaftTypeConfig<SE, Rec<S>>;

pub struct Ctx<SE, S>
where
    SE: StorageEngine + Debug + 'static,
    S: StateMachine + 'static,
{
    pub rt: tokio::runtime::Runtime,
    pub engine: EmbeddedEngine<SE, Rec<S>>,
    pub client: Arc<EmbeddedClient<SE, Rec<S>>>,
    pub sm: Arc<Rec<S>>,
    pub dir: PathBuf,
    pub port: u16,
    /// gRPC client connected to this very engine (verified with a marker key); None if unavailable
    pub grpc: Option<d_engine_client::Client>,
    /// keys written by earlier cases and not yet deleted (C35 cleans them before populating)
    pub dirty: BTreeSet<Vec<u8>>,
    pub cases_served: u64,
}

pub type FileCtx = Ctx<FileStorageEngine, FileStateMachine>;
// ROCKS-BEGIN
pub type RocksCtx = Ctx<RocksDBStorageEngine, RocksDBStateMachine>;
// ROCKS-END

static SEQ: AtomicU64 = AtomicU64::new(0);
static PORTS_USED: Mutex<BTreeSet<u16>> = Mutex::new(BTreeSet::new());
static FILE_POOL: Mutex<Vec<FileCtx>> = Mutex::new(Vec::new());
// ROCKS-BEGIN
static ROCKS_POOL: Mutex<Vec<RocksCtx>> = Mutex::new(Vec::new());
// ROCKS-END
/// engine starts are serialized: keeps the port pick → bind window and the CPU burst small
static START_LOCK: Mutex<()> = Mutex::new(());

/// generous readiness timeout; exceeding it is INCONCLUSIVE, never a violation
pub const READY_TIMEOUT: Duration = Duration::from_secs(60);
/// per-request timeout configured into the engine (general_raft_timeout_duration_in_ms)
pub const REQUEST_TIMEOUT_MS: u64 = 30_000;

fn free_port() -> u16 {
    for _ in 0..200 {
        let l = std::net::TcpListener::bind("127.0.0.1:0").expect("bind 127.0.0.1:0");
        let p = l.local_addr().unwrap().port();
        drop(l);
        if PORTS_USED.lock().unwrap().insert(p) {
            return p;
        }
    }
    eprintln!("embedded_util: no free loopback port found");
    std::process::exit(2);
}

fn write_config(dir: &std::path::Path, port: u16) -> PathBuf {
    let cfg = format!(
        r#"
[cluster]
node_id = 1
listen_address = "127.0.0.1:{port}"
initial_cluster = [ {{ id = 1, name = "n1", address = "127.0.0.1:{port}", role = 1, status = 3 }} ]
db_root_dir = "{db}"
log_dir = "{log}"

[raft]
general_raft_timeout_duration_in_ms = {to}

[raft.snapshot]
snapshots_dir = "{snap}"

# the node's gRPC server applies network.control.request_timeout_in_ms (default 100 ms) to every
# request, client writes included; on a loaded machine that turns acknowledged-late writes into
# "Timeout expired" answers. Readiness/latency is not what C35/C37 judge.
[network.control]
request_timeout_in_ms = {to}

[raft.election]
election_timeout_min = 150
election_timeout_max = 300

[raft.read_consistency]
lease_duration_ms = 100
"#,
        db = dir.join("db").display(),
        log = dir.join("logs").display(),
        snap = dir.join("snapshots").display(),
        to = REQUEST_TIMEOUT_MS,
    );
    let p = dir.join("node.toml");
    std::fs::create_dir_all(dir.join("db")).expect("mkdir db");
    std::fs::create_dir_all(dir.join("logs")).expect("mkdir logs");
    std::fs::create_dir_all(dir.join("snapshots")).expect("mkdir snapshots");
    std::fs::write(&p, cfg).expect("write node.toml");
    p
}

fn lease() -> Arc<d_engine_server::storage::TtlLease> {
    Arc::new(d_engine_server::storage::TtlLease::new(d_engine_core::RaftNodeConfig::default().raft.state_machine.lease.clone()))
}

async fn boot<SE, S>(se: Arc<SE>, sm: Arc<Rec<S>>, cfg: &std::path::Path) -> Result<EmbeddedEngine<SE, Rec<S>>, String>
where
    SE: StorageEngine + Debug + 'static,
    S: StateMachine + 'static,
{
    let engine = EmbeddedEngine::<SE, Rec<S>>::start_custom(se, sm, Some(cfg.to_str().unwrap())).await.map_err(|e| format!("start_custom: {e:?}"))?;
    engine.wait_ready(READY_TIMEOUT).await.map_err(|e| format!("wait_ready: {e:?}"))?;
    if !engine.is_leader() {
        return Err("single node did not become leader".into());
    }
    Ok(engine)
}

/// Connects a GrpcClient to `port` and proves (marker key) that the server behind the port is this engine.
async fn connect_grpc<SE, S>(client: &EmbeddedClient<SE, Rec<S>>, port: u16) -> Option<d_engine_client::Client>
where
    SE: StorageEngine + Debug + 'static,
    S: StateMachine + 'static,
{
    use d_engine_core::client::ClientApi;
    let marker_key = format!("__dverif_marker_{}_{}", std::process::id(), SEQ.fetch_add(1, Ordering::Relaxed));
    let marker_val = format!("v{port}");
    if client.put(marker_key.as_bytes(), marker_val.as_bytes()).await.is_err() {
        return None;
    }
    let mut found = None;
    for _ in 0..40 {
        let built = tokio::time::timeout(Duration::from_secs(45), d_engine_client::Client::builder(vec![format!("http://127.0.0.1:{port}")]).connect_timeout(Duration::from_secs(10)).request_timeout(Duration::from_millis(REQUEST_TIMEOUT_MS)).cluster_ready_timeout(Duration::from_secs(30)).build()).await;
        if let Ok(Ok(c)) = built {
            match ClientApi::get(&*c, marker_key.as_bytes()).await {
                Ok(Some(v)) if v.as_ref() == marker_val.as_bytes() => {
                    found = Some(c);
                    break;
                }
                Ok(_) => return None, // somebody else's server answers on this port
                Err(_) => {}
            }
        }
        tokio::time::sleep(Duration::from_millis(100)).await;
    }
    let _ = client.delete(marker_key.as_bytes()).await;
    found
}

fn new_runtime() -> tokio::runtime::Runtime {
    tokio::runtime::Builder::new_multi_thread().worker_threads(2).enable_all().build().expect("engine runtime")
}

pub fn start_file() -> Result<FileCtx, String> {
    let _g = START_LOCK.lock().unwrap();
    let dir = crate::runner::work_dir("engine-file");
    let port = free_port();
    let cfg = write_config(&dir, port);
    let rt = new_runtime();
    let r = rt.block_on(async {
        let se = Arc::new(FileStorageEngine::new(dir.join("db").join("storage")).map_err(|e| format!("FileStorageEngine::new: {e:?}"))?);
        let mut fsm = FileStateMachine::new(dir.join("db").join("state_machine")).await.map_err(|e| format!("FileStateMachine::new: {e:?}"))?;
        fsm.set_lease(lease());
        let sm = Arc::new(Rec::new(fsm));
        let engine = boot(se, sm.clone(), &cfg).await?;
        let client = engine.client();
        let grpc = connect_grpc(&client, port).await;
        Ok::<_, String>((engine, client, sm, grpc))
    });
    match r {
        Ok((engine, client, sm, grpc)) => Ok(Ctx { rt, engine, client, sm, dir, port, grpc, dirty: BTreeSet::new(), cases_served: 0 }),
        Err(e) => {
            rt.shutdown_background();
            Err(e)
        }
    }
}

// ROCKS-BEGIN
pub fn start_rocks() -> Result<RocksCtx, String> {
    let _g = START_LOCK.lock().unwrap();
    let dir = crate::runner::work_dir("engine-rocks");
    let port = free_port();
    let cfg = write_config(&dir, port);
    let rt = new_runtime();
    let r = rt.block_on(async {
        let se = Arc::new(RocksDBStorageEngine::new(dir.join("db").join("storage")).map_err(|e| format!("RocksDBStorageEngine::new: {e:?}"))?);
        let mut rsm = RocksDBStateMachine::new(dir.join("db").join("state_machine")).map_err(|e| format!("RocksDBStateMachine::new: {e:?}"))?;
        rsm.set_lease(lease());
        let sm = Arc::new(Rec::new(rsm));
        let engine = boot(se, sm.clone(), &cfg).await?;
        let client = engine.client();
        let grpc = connect_grpc(&client, port).await;
        Ok::<_, String>((engine, client, sm, grpc))
    });
    match r {
        Ok((engine, client, sm, grpc)) => Ok(Ctx { rt, engine, client, sm, dir, port, grpc, dirty: BTreeSet::new(), cases_served: 0 }),
        Err(e) => {
            rt.shutdown_background();
            Err(e)
        }
    }
}

// ROCKS-END
fn fatal(e: String) -> ! {
    // (when integrating with a runner that silences stdout, use its verdict-line macro here as well)
    eprintln!("INCONCLUSIVE: cannot start a single-node embedded engine: {e} — exit 2");
    crate::outln!("INCONCLUSIVE: cannot start a single-node embedded engine: {e} — exit 2");
    std::process::exit(2);
}

pub fn checkout_file() -> FileCtx {
    if let Some(c) = FILE_POOL.lock().unwrap().pop() {
        return c;
    }
    let mut last = String::new();
    for _ in 0..3 {
        match start_file() {
            Ok(c) => return c,
            Err(e) => last = e,
        }
    }
    fatal(last)
}
pub fn checkin_file(mut c: FileCtx) {
    c.cases_served += 1;
    FILE_POOL.lock().unwrap().push(c);
}
// ROCKS-BEGIN
pub fn checkout_rocks() -> RocksCtx {
    if let Some(c) = ROCKS_POOL.lock().unwrap().pop() {
        return c;
    }
    let mut last = String::new();
    for _ in 0..3 {
        match start_rocks() {
            Ok(c) => return c,
            Err(e) => last = e,
        }
    }
    fatal(last)
}
pub fn checkin_rocks(mut c: RocksCtx) {
    c.cases_served += 1;
    ROCKS_POOL.lock().unwrap().push(c);
}

// ROCKS-END
/// Stops and forgets an engine that misbehaved (timeout / error): the next case starts a fresh one.
pub fn discard<SE, S>(c: Ctx<SE, S>)
where
    SE: StorageEngine + Debug + 'static,
    S: StateMachine + 'static,
{
    let Ctx { rt, engine, client, grpc, dir, .. } = c;
    drop(grpc);
    drop(client);
    let _ = rt.block_on(async { tokio::time::timeout(Duration::from_secs(10), engine.stop()).await });
    drop(engine);
    rt.shutdown_background();
    crate::runner::rm_dir(&dir);
}
