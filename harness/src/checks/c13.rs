//! C13 — read policy routing is enforced on every API path.
//!
//! System under test: real three-node d-engine clusters (three `EmbeddedEngine`s with File storage, real
//! Raft loops, real gRPC servers on loopback ports) — one cluster per server read configuration
//! (default policy x allow_client_override = 6 clusters, started lazily, pooled per process).
//! A case is a list of reads; each read picks a node by role (leader / a follower), an API path
//! (EmbeddedClient methods, ClientApi trait methods, raw gRPC `handle_client_read` sent straight to that
//! node's address) and a client-requested policy. Oracle = routing table of the property:
//!   effective = client policy if given and overrides are allowed, else the server default;
//!   on a non-leader: effective Linearizable/Lease  -> must be refused with "not leader", never data;
//!                    effective Eventual            -> data from local state;
//!   on the leader:   data, and it is the latest acknowledged value.
use std::collections::BTreeMap;
use std::path::PathBuf;
use std::sync::{Arc, Mutex};
use std::time::Duration;

use bytes::Bytes;
use d_engine_core::client::{ClientApi, ClientApiError, ErrorCode};
use d_engine_core::config::ReadConsistencyPolicy as Pol;
use d_engine_proto::client::raft_client_service_client::RaftClientServiceClient;
use d_engine_proto::client::ClientReadRequest;
use d_engine_server::{EmbeddedClient, EmbeddedEngine, FileStateMachine, FileStorageEngine};
use proptest::prelude::*;
use serde::{Deserialize, Serialize};

use crate::runner::{fp, pick, Check, Outcome, Tier};

type Engine = EmbeddedEngine<FileStorageEngine, FileStateMachine>;
type Client = EmbeddedClient<FileStorageEngine, FileStateMachine>;

#[derive(Clone, Copy, Debug, PartialEq, Eq, Hash, Serialize, Deserialize)]
pub enum P {
    Lin,
    Lease,
    Eventual,
}
impl P {
    fn core(self) -> Pol {
        match self {
            P::Lin => Pol::LinearizableRead,
            P::Lease => Pol::LeaseRead,
            P::Eventual => Pol::EventualConsistency,
        }
    }
    fn proto(self) -> i32 {
        use d_engine_proto::client::ReadConsistencyPolicy as PP;
        (match self {
            P::Lin => PP::LinearizableRead,
            P::Lease => PP::LeaseRead,
            P::Eventual => PP::EventualConsistency,
        }) as i32
    }
    fn toml(self) -> &'static str {
        match self {
            P::Lin => "LinearizableRead",
            P::Lease => "LeaseRead",
            P::Eventual => "EventualConsistency",
        }
    }
}

#[derive(Clone, Debug, Serialize, Deserialize)]
pub enum Path {
    /// EmbeddedClient::get_with_consistency(key, policy)
    EmbGet(P),
    /// EmbeddedClient::get_multi_with_consistency(keys, policy)
    EmbGetMulti(P),
    /// EmbeddedClient::get_eventual / get_linearizable
    EmbEventual,
    EmbLinearizable,
    /// ClientApi::get (documented: linearizable)
    TraitGet,
    /// ClientApi::get_multi_with_policy(keys, Some(policy))
    TraitGetMultiWithPolicy(P),
    /// raw gRPC ClientReadRequest{consistency_policy} sent to the node's own address
    Grpc(Option<P>),
}

#[derive(Clone, Debug, Serialize, Deserialize)]
pub struct Read {
    /// 0 = leader, 1.. = a follower
    pub node: u8,
    pub path: Path,
    pub key: u8,
    /// write a fresh value to the key through the leader right before the read
    pub write_first: bool,
}

#[derive(Clone, Debug, Serialize, Deserialize)]
pub struct Case {
    pub default_policy: P,
    pub allow_override: bool,
    pub reads: Vec<Read>,
}

// ------------------------------------------------------------------------------------------------ clusters
struct Node {
    engine: Engine,
    client: Arc<Client>,
    addr: String,
}
struct Cluster {
    rt: tokio::runtime::Runtime,
    nodes: Vec<Node>,
    /// every value ever acknowledged per key, latest last
    written: BTreeMap<u8, Vec<Vec<u8>>>,
    seq: u64,
    #[allow(dead_code)]
    dir: PathBuf,
}

static POOL: Mutex<BTreeMap<(u8, bool), Vec<Cluster>>> = Mutex::new(BTreeMap::new());
static START_LOCK: Mutex<()> = Mutex::new(());
static PORTS: Mutex<std::collections::BTreeSet<u16>> = Mutex::new(std::collections::BTreeSet::new());

fn free_port() -> u16 {
    for _ in 0..500 {
        let l = std::net::TcpListener::bind("127.0.0.1:0").expect("bind");
        let p = l.local_addr().unwrap().port();
        drop(l);
        if PORTS.lock().unwrap().insert(p) {
            return p;
        }
    }
    crate::outln!("INCONCLUSIVE property=C13: no free loopback port — exit 2");
    std::process::exit(2);
}

fn key_bytes(k: u8) -> Vec<u8> {
    format!("c13/k{}", k % 4).into_bytes()
}

fn start_cluster(default_policy: P, allow: bool) -> Result<Cluster, String> {
    let _g = START_LOCK.lock().unwrap();
    let dir = crate::runner::work_dir("c13-cluster");
    let ports: Vec<u16> = (0..3).map(|_| free_port()).collect();
    let members: Vec<String> = (0..3).map(|i| format!("{{ id = {}, name = \"n{}\", address = \"127.0.0.1:{}\", role = 1, status = 3 }}", i + 1, i + 1, ports[i])).collect();
    let rt = tokio::runtime::Builder::new_multi_thread().worker_threads(3).enable_all().build().map_err(|e| e.to_string())?;
    let mut nodes = vec![];
    for i in 0..3 {
        let nd = dir.join(format!("n{}", i + 1));
        for s in ["db", "logs", "snapshots"] {
            std::fs::create_dir_all(nd.join(s)).map_err(|e| e.to_string())?;
        }
        let cfg = format!(
            r#"
[cluster]
node_id = {id}
listen_address = "127.0.0.1:{port}"
initial_cluster = [ {members} ]
db_root_dir = "{db}"
log_dir = "{log}"

[raft]
general_raft_timeout_duration_in_ms = 5000

[raft.snapshot]
snapshots_dir = "{snap}"

[network.control]
request_timeout_in_ms = 5000

[raft.election]
election_timeout_min = 1500
election_timeout_max = 3000

[raft.read_consistency]
lease_duration_ms = 300
default_policy = "{dp}"
allow_client_override = {allow}
"#,
            id = i + 1,
            port = ports[i],
            members = members.join(", "),
            db = nd.join("db").display(),
            log = nd.join("logs").display(),
            snap = nd.join("snapshots").display(),
            dp = default_policy.toml(),
        );
        let cfgp = nd.join("node.toml");
        std::fs::write(&cfgp, cfg).map_err(|e| e.to_string())?;
        let started: Result<Engine, String> = rt.block_on(async {
            let se = Arc::new(FileStorageEngine::new(nd.join("db").join("storage")).map_err(|e| format!("{e:?}"))?);
            let mut sm = FileStateMachine::new(nd.join("db").join("state_machine")).await.map_err(|e| format!("{e:?}"))?;
            sm.set_lease(Arc::new(d_engine_server::storage::TtlLease::new(d_engine_core::RaftNodeConfig::default().raft.state_machine.lease.clone())));
            Engine::start_custom(se, Arc::new(sm), Some(cfgp.to_str().unwrap())).await.map_err(|e| format!("start_custom: {e:?}"))
        });
        let engine = started?;
        let client = engine.client();
        nodes.push(Node { engine, client, addr: format!("http://127.0.0.1:{}", ports[i]) });
    }
    let mut c = Cluster { rt, nodes, written: BTreeMap::new(), seq: 0, dir };
    // wait for a stable leader known to everybody, then seed the keys
    let ok = c.rt.block_on(async {
        for n in &c.nodes {
            if n.engine.wait_ready(Duration::from_secs(60)).await.is_err() {
                return false;
            }
        }
        true
    });
    if !ok {
        return Err("cluster did not become ready within 60 s".into());
    }
    for k in 0..4u8 {
        if !c.write(k) {
            return Err("seeding write failed".into());
        }
    }
    // let followers apply the seed
    std::thread::sleep(Duration::from_millis(300));
    Ok(c)
}

impl Cluster {
    fn leader_idx(&self) -> Option<usize> {
        let l: Vec<usize> = self.nodes.iter().enumerate().filter(|(_, n)| n.engine.is_leader()).map(|(i, _)| i).collect();
        if l.len() == 1 {
            Some(l[0])
        } else {
            None
        }
    }
    /// Writes a fresh unique value through the leader; records it when acknowledged.
    fn write(&mut self, k: u8) -> bool {
        let Some(li) = self.leader_idx() else { return false };
        self.seq += 1;
        let v = format!("v{}-{}", std::process::id(), self.seq).into_bytes();
        let client = self.nodes[li].client.clone();
        let key = key_bytes(k);
        let vv = v.clone();
        let r = self.rt.block_on(async move { tokio::time::timeout(Duration::from_secs(20), client.put(&key, &vv)).await });
        match r {
            Ok(Ok(())) => {
                self.written.entry(k % 4).or_default().push(v);
                true
            }
            _ => false,
        }
    }
}

fn checkout(p: P, allow: bool) -> Result<Cluster, String> {
    if let Some(c) = POOL.lock().unwrap().entry((p as u8, allow)).or_default().pop() {
        return Ok(c);
    }
    start_cluster(p, allow)
}
fn checkin(p: P, allow: bool, c: Cluster) {
    POOL.lock().unwrap().entry((p as u8, allow)).or_default().push(c);
}
fn discard(c: Cluster) {
    let Cluster { rt, nodes, .. } = c;
    rt.block_on(async {
        for n in &nodes {
            let _ = tokio::time::timeout(Duration::from_secs(10), n.engine.stop()).await;
        }
    });
    drop(nodes);
    rt.shutdown_background();
}

// ------------------------------------------------------------------------------------------------ reads
#[derive(Debug, Clone, PartialEq)]
enum Got {
    Data(Option<Vec<u8>>),
    NotLeader,
    Other(String),
}

fn classify_api(r: Result<Option<Bytes>, ClientApiError>) -> Got {
    match r {
        Ok(v) => Got::Data(v.map(|b| b.to_vec())),
        Err(ClientApiError::Network { code: ErrorCode::NotLeader, .. }) => Got::NotLeader,
        Err(e) => {
            let s = format!("{e:?}");
            if s.contains("Not leader") || s.contains("NotLeader") {
                Got::NotLeader
            } else {
                Got::Other(s)
            }
        }
    }
}

async fn do_read(node: &Node, path: &Path, key: &[u8]) -> Got {
    let c = &node.client;
    let kb = Bytes::copy_from_slice(key);
    let first = |r: Result<Vec<Option<Bytes>>, ClientApiError>| r.map(|mut v| if v.is_empty() { None } else { v.remove(0) });
    let fut = async {
        match path {
            Path::EmbGet(p) => classify_api(c.get_with_consistency(key, p.core()).await),
            Path::EmbGetMulti(p) => classify_api(first(c.get_multi_with_consistency(&[kb.clone()], p.core()).await)),
            Path::EmbEventual => classify_api(c.get_eventual(key).await),
            Path::EmbLinearizable => classify_api(c.get_linearizable(key).await),
            Path::TraitGet => classify_api(ClientApi::get(&**c, key).await),
            Path::TraitGetMultiWithPolicy(p) => classify_api(first(ClientApi::get_multi_with_policy(&**c, &[kb.clone()], Some(p.core())).await)),
            Path::Grpc(p) => {
                let mut cl = match RaftClientServiceClient::connect(node.addr.clone()).await {
                    Ok(c) => c,
                    Err(e) => return Got::Other(format!("connect: {e}")),
                };
                let req = ClientReadRequest { client_id: 4242, keys: vec![kb.clone()], consistency_policy: p.map(|p| p.proto()) };
                match cl.handle_client_read(tonic::Request::new(req)).await {
                    Err(st) => {
                        if st.code() == tonic::Code::FailedPrecondition || st.message().contains("Not leader") || st.message().contains("NotLeader") {
                            Got::NotLeader
                        } else {
                            Got::Other(format!("{:?}: {}", st.code(), st.message()))
                        }
                    }
                    Ok(resp) => {
                        let r = resp.into_inner();
                        if r.error == d_engine_proto::error::ErrorCode::NotLeader as i32 {
                            Got::NotLeader
                        } else if r.error != d_engine_proto::error::ErrorCode::Success as i32 {
                            Got::Other(format!("error code {}", r.error))
                        } else {
                            match r.success_result {
                                Some(d_engine_proto::client::client_response::SuccessResult::ReadData(rd)) => Got::Data(rd.results.iter().find(|e| e.key.as_ref() == key).map(|e| e.value.to_vec())),
                                _ => Got::Other("no read payload".into()),
                            }
                        }
                    }
                }
            }
        }
    };
    match tokio::time::timeout(Duration::from_secs(30), fut).await {
        Ok(g) => g,
        Err(_) => Got::Other("timeout".into()),
    }
}

fn requested(path: &Path) -> Option<P> {
    match path {
        Path::EmbGet(p) | Path::EmbGetMulti(p) | Path::TraitGetMultiWithPolicy(p) => Some(*p),
        Path::EmbEventual => Some(P::Eventual),
        Path::EmbLinearizable | Path::TraitGet => Some(P::Lin),
        Path::Grpc(p) => *p,
    }
}
fn path_name(path: &Path) -> &'static str {
    match path {
        Path::EmbGet(_) | Path::EmbGetMulti(_) | Path::EmbEventual | Path::EmbLinearizable => "embedded",
        Path::TraitGet | Path::TraitGetMultiWithPolicy(_) => "embedded-trait",
        Path::Grpc(_) => "grpc",
    }
}

#[derive(Clone)]
pub struct C13;

impl Check for C13 {
    type Case = Case;
    fn id(&self) -> &'static str {
        "C13"
    }
    fn rule(&self) -> String {
        "case = server read configuration (default policy in {Linearizable, Lease, Eventual} x allow_client_override) + 1..8 reads, each = (node role: leader | follower, API path: EmbeddedClient get_with_consistency / get_multi_with_consistency / get_eventual / get_linearizable, ClientApi get / get_multi_with_policy, raw gRPC handle_client_read sent to that node, client-requested policy incl. none on gRPC, key, optional fresh write through the leader just before) on a real 3-node cluster with that configuration; oracle = routing table: effective policy = requested if given and overrides allowed else server default; non-leader + effective Linearizable/Lease => refused as not-leader, never data; non-leader + Eventual => some value ever acknowledged for the key; leader => latest acknowledged value; non-trivial = at least one read on a non-leader whose requested policy differs from the effective one or whose effective policy needs the leader; distinct by (configuration, per-read (role, path, requested policy))".into()
    }
    fn assumptions(&self) -> Vec<String> {
        vec![
            "real clusters in real time: a case whose leader changes (checked before and after every read) or that meets timeouts/unavailability gives no verdict (label), never a violation; the cluster is then discarded".into(),
            "roles covered: stable leader and stable followers; deposed-leader windows belong to C12 and are explored on the simulator".into(),
            "EmbeddedClient offers no 'no policy' call (its ClientApi::get is documented as linearizable); the unspecified-policy case exists on the gRPC path only".into(),
        ]
    }
    fn cases(&self, tier: Tier) -> u32 {
        match tier {
            Tier::Quick => 600,
            Tier::Thorough => 6_000,
        }
    }
    fn workers(&self) -> usize {
        6
    }
    fn case_timeout(&self) -> Duration {
        Duration::from_secs(400)
    }
    fn required_labels(&self) -> Vec<&'static str> {
        vec!["read_on_follower"]
    }
    fn strategy(&self, _tier: Tier) -> BoxedStrategy<Case> {
        let p = prop_oneof![Just(P::Lin), Just(P::Lease), Just(P::Eventual)];
        let path = prop_oneof![
            3 => p.clone().prop_map(Path::EmbGet),
            2 => p.clone().prop_map(Path::EmbGetMulti),
            2 => Just(Path::EmbEventual),
            1 => Just(Path::EmbLinearizable),
            1 => Just(Path::TraitGet),
            2 => p.clone().prop_map(Path::TraitGetMultiWithPolicy),
            5 => proptest::option::weighted(0.8, p.clone()).prop_map(Path::Grpc),
        ];
        let read = (prop_oneof![1 => Just(0u8), 2 => 1u8..3], path, 0u8..4, proptest::bool::weighted(0.3)).prop_map(|(node, path, key, write_first)| Read { node, path, key, write_first });
        (p, any::<bool>(), proptest::collection::vec(read, 1..=8)).prop_map(|(default_policy, allow_override, reads)| Case { default_policy, allow_override, reads }).boxed()
    }
    fn run(&self, case: &Case) -> Outcome {
        let mut out = Outcome::ok();
        let mut c = match checkout(case.default_policy, case.allow_override) {
            Ok(c) => c,
            Err(e) => {
                crate::outln!("INCONCLUSIVE property=C13: cannot start a 3-node cluster: {e} — exit 2");
                std::process::exit(2);
            }
        };
        out.add_label(format!("default_{:?}", case.default_policy));
        out.add_label(if case.allow_override { "override_allowed" } else { "override_disallowed" });
        let mut healthy = true;
        let mut shape = vec![];
        let mut labels: std::collections::BTreeSet<String> = Default::default();
        for (ri, rd) in case.reads.iter().enumerate() {
            let Some(li) = c.leader_idx() else {
                labels.insert("no_unique_leader".into());
                healthy = false;
                break;
            };
            if rd.write_first && !c.write(rd.key) {
                labels.insert("write_failed".into());
                healthy = false;
                break;
            }
            let followers: Vec<usize> = (0..3).filter(|i| *i != li).collect();
            let on_leader = rd.node == 0;
            let ni = if on_leader { li } else { followers[pick(rd.node as u16 * 20000, followers.len())] };
            let key = key_bytes(rd.key);
            let got = {
                let node = &c.nodes[ni];
                c.rt.block_on(do_read(node, &rd.path, &key))
            };
            // the verdict is only meaningful if the roles did not move while the read was in flight
            if c.leader_idx() != Some(li) {
                labels.insert("leader_changed_during_case".into());
                healthy = false;
                break;
            }
            let req = requested(&rd.path);
            let eff = match req {
                Some(p) if case.allow_override => p,
                _ => case.default_policy,
            };
            let pname = path_name(&rd.path);
            shape.push((on_leader, format!("{:?}", rd.path)));
            labels.insert(format!("path_{pname}"));
            labels.insert(if on_leader { "read_on_leader".into() } else { "read_on_follower".into() });
            let history = c.written.get(&(rd.key % 4)).cloned().unwrap_or_default();
            let ctx = format!(
                "read #{ri}: node {} ({}), path {:?}, requested {:?}, server default {:?}, allow_client_override {}, effective {:?} -> {:?}",
                ni + 1,
                if on_leader { "leader" } else { "follower" },
                rd.path,
                req,
                case.default_policy,
                case.allow_override,
                eff,
                got
            );
            match (&got, on_leader) {
                (Got::Other(e), _) => {
                    labels.insert("read_error_no_verdict".into());
                    let _ = e;
                    healthy = false;
                    break;
                }
                (Got::NotLeader, true) => {
                    out.violate(format!("C13:leader-refused-read-as-not-leader@{pname}"), ctx);
                    break;
                }
                (Got::Data(v), true) => {
                    if v.as_ref() != history.last() {
                        out.violate(format!("C13:leader-read-missed-latest-acknowledged-write@{pname}"), format!("{ctx}; latest acknowledged value {:?}", history.last().map(|v| String::from_utf8_lossy(v).to_string())));
                        break;
                    }
                }
                (Got::NotLeader, false) => {
                    if eff == P::Eventual {
                        // refusing where local service is allowed is the safe direction: not a violation of C13
                        labels.insert("eventual_read_on_follower_refused".into());
                    } else {
                        labels.insert("follower_refused_leader_only_read".into());
                        if req != Some(eff) {
                            out.nontrivial = true;
                        }
                    }
                }
                (Got::Data(v), false) => {
                    if eff != P::Eventual {
                        let why = if !case.allow_override && req == Some(P::Eventual) {
                            "client-requested-eventual-served-locally-although-override-disabled"
                        } else if !case.allow_override {
                            "client-requested-policy-served-locally-although-override-disabled"
                        } else {
                            "leader-only-read-answered-from-follower-state"
                        };
                        out.violate(format!("C13:{why}@{pname}"), ctx);
                        out.nontrivial = true;
                        break;
                    }
                    labels.insert("eventual_read_served_by_follower".into());
                    if req != Some(eff) {
                        out.nontrivial = true;
                    }
                    let ok = match v {
                        None => false,
                        Some(v) => history.contains(v),
                    };
                    if !ok {
                        out.violate(format!("C13:follower-returned-value-never-written@{pname}"), ctx);
                        break;
                    }
                }
            }
            if !on_leader && eff != P::Eventual {
                out.nontrivial = true;
            }
        }
        for l in labels {
            out.add_label(l);
        }
        out.fingerprint = fp(&(case.default_policy, case.allow_override, shape));
        if healthy && out.violation.is_none() {
            checkin(case.default_policy, case.allow_override, c);
        } else if out.violation.is_some() {
            // a violation says nothing bad about the cluster: keep it
            checkin(case.default_policy, case.allow_override, c);
        } else {
            out.nontrivial = false;
            discard(c);
        }
        out
    }
    fn max_shrink_iters(&self) -> u32 {
        200
    }
}
