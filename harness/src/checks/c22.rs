//! C22 — key-value commands have the documented semantics on every engine.
//!
//! Generator: <= 60 commands (put / put-with-TTL / delete / CAS / no-op) over 3 keys x 3 values plus
//! the empty key and the empty value, two independent chunkings of the same sequence, entries
//! optionally routed through the wire path (`WriteCommand` -> `decode_entries`), a get_multi probe
//! list with duplicates and missing keys.
//! Oracle: for File (chunking A and B) and RocksDB (chunking B), each on a fresh instance — per-entry `ApplyResult` (index + succeeded),
//! `get` of every key after every chunk, final `get_multi` and `scan_prefix` (non-empty prefixes)
//! equal the reference model (`kvmodel::KvModel`); therefore File == RocksDB and chunking A == B.
use std::collections::BTreeMap;

use bytes::Bytes;
use proptest::prelude::*;
use serde::{Deserialize, Serialize};

use super::kvmodel::*;
use crate::runner::{fp, rm_dir, work_dir, Check, Outcome, Tier};

pub const KEYS: [&[u8]; 4] = [b"a", b"ab", b"b", b""];
pub const VALS: [&[u8]; 4] = [b"x", b"y", b"z", b""];
const MISSING: &[u8] = b"zz";
const PREFIXES: [&[u8]; 5] = [b"a", b"ab", b"b", b"abc", b"z"];
pub const T0_MS: u64 = 1_700_000_000_000;

#[derive(Clone, Debug, Serialize, Deserialize, Hash)]
pub struct Case {
    pub cmds: Vec<Cmd>,
    /// chunk lengths of chunking A (remaining entries form one last chunk)
    pub chunks_a: Vec<u8>,
    pub chunks_b: Vec<u8>,
    /// term grows by one every `term_every` entries (0 = constant term 1)
    pub term_every: u8,
    pub via_proto: bool,
    /// get_multi probe: indices into KEYS, 4 = a key that is never written
    pub multi: Vec<u8>,
}

pub struct C22;

pub fn key_s() -> BoxedStrategy<B> {
    prop_oneof![4 => Just(0usize), 4 => Just(1usize), 4 => Just(2usize), 1 => Just(3usize)].prop_map(|i| B(KEYS[i].to_vec())).boxed()
}
pub fn val_s() -> BoxedStrategy<B> {
    prop_oneof![4 => Just(0usize), 4 => Just(1usize), 4 => Just(2usize), 1 => Just(3usize)].prop_map(|i| B(VALS[i].to_vec())).boxed()
}
pub fn cmd_s(ttl_weight: u32) -> BoxedStrategy<Cmd> {
    prop_oneof![
        6 => (key_s(), val_s()).prop_map(|(k, v)| Cmd::Put { k, v }),
        ttl_weight => (key_s(), val_s(), 1u64..=5).prop_map(|(k, v, ttl)| Cmd::PutTtl { k, v, ttl }),
        3 => key_s().prop_map(|k| Cmd::Del { k }),
        9 => (key_s(), prop::option::weighted(0.75, val_s()), val_s()).prop_map(|(k, exp, v)| Cmd::Cas { k, exp, v }),
        1 => Just(Cmd::Noop),
    ]
    .boxed()
}

pub fn build_log(cmds: &[Cmd], term_every: u8) -> Vec<LogEntry> {
    cmds.iter()
        .enumerate()
        .map(|(i, c)| LogEntry {
            index: i as u64 + 1,
            term: if term_every == 0 { 1 } else { 1 + (i as u64) / term_every as u64 },
            cmd: c.clone(),
        })
        .collect()
}

/// Splits 0..n into consecutive ranges according to `lens` (0 is read as 1); the rest is one chunk.
pub fn chunk_ranges(n: usize, lens: &[u8]) -> Vec<(usize, usize)> {
    let mut out = vec![];
    let mut pos = 0;
    for l in lens {
        if pos >= n {
            break;
        }
        let l = (*l as usize).max(1);
        let end = (pos + l).min(n);
        out.push((pos, end));
        pos = end;
    }
    if pos < n {
        out.push((pos, n));
    }
    out
}

struct Observed {
    flags: Vec<bool>,
    finals: BTreeMap<Vec<u8>, Vec<u8>>,
    multi: Vec<Option<Vec<u8>>>,
    scans: Vec<Vec<(Vec<u8>, Vec<u8>)>>,
}

fn all_keys() -> Vec<Vec<u8>> {
    let mut v: Vec<Vec<u8>> = KEYS.iter().map(|k| k.to_vec()).collect();
    v.push(MISSING.to_vec());
    v
}

fn run_engine(
    engine: Engine,
    log: &[LogEntry],
    ranges: &[(usize, usize)],
    via_proto: bool,
    multi_keys: &[Vec<u8>],
    states: &[BTreeMap<Vec<u8>, Vec<u8>>],
    flags: &[bool],
    which: &str,
    timing: &mut [u128; 3],
) -> Result<Observed, (String, String)> {
    let dir = work_dir("c22");
    let rt = new_rt();
    let t0 = std::time::Instant::now();
    let mut t_open = 0u128;
    let mut t_work = 0u128;
    let res = rt.block_on(async {
        let sm = open_sm(engine, &dir).await.map_err(|e| ("harness".to_string(), e))?;
        t_open = t0.elapsed().as_micros();
        let keys = all_keys();
        let mut got_flags = vec![];
        for (s, e) in ranges {
            let entries = to_entries(&log[*s..*e], via_proto);
            let rs = sm
                .apply_chunk(&entries)
                .await
                .map_err(|er| (format!("C22:{}-apply-chunk-error", engine.name()), format!("chunking {which} chunk {s}..{e}: {er:?}")))?;
            if rs.len() != entries.len() {
                return Err((
                    format!("C22:{}-apply-result-length", engine.name()),
                    format!("chunking {which} chunk {s}..{e}: {} results for {} entries", rs.len(), entries.len()),
                ));
            }
            for (j, r) in rs.iter().enumerate() {
                let le = &log[s + j];
                if r.index != le.index {
                    return Err((
                        format!("C22:{}-apply-result-index", engine.name()),
                        format!("chunking {which}: result {j} of chunk {s}..{e} has index {} for entry {}", r.index, le.index),
                    ));
                }
                if r.succeeded != flags[s + j] {
                    let kind = if le.cmd.is_cas() { "cas-flag" } else { "noncas-flag" };
                    return Err((
                        format!("C22:{}-{kind}-differs-from-model", engine.name()),
                        format!(
                            "chunking {which} (chunk entries {}..={}): entry {} {:?} reported succeeded={} but the reference says {} (state before entry: {})",
                            s + 1,
                            e,
                            le.index,
                            le.cmd,
                            r.succeeded,
                            flags[s + j],
                            show_map(&states[s + j])
                        ),
                    ));
                }
                got_flags.push(r.succeeded);
            }
            // contents after the chunk
            let d = dump(&sm, &keys).map_err(|er| (format!("C22:{}-get-error", engine.name()), er))?;
            if d != states[*e] {
                return Err((
                    format!("C22:{}-contents-differ-from-model", engine.name()),
                    format!("chunking {which}: after entries 1..={e} get() shows {} but the reference is {}", show_map(&d), show_map(&states[*e])),
                ));
            }
        }
        let n = log.len();
        let finals = dump(&sm, &keys).map_err(|er| (format!("C22:{}-get-error", engine.name()), er))?;
        if finals != states[n] {
            return Err((
                format!("C22:{}-contents-differ-from-model", engine.name()),
                format!("chunking {which}: final get() shows {} but the reference is {}", show_map(&finals), show_map(&states[n])),
            ));
        }
        // get_multi: position contract, duplicates, missing keys
        let mk: Vec<Bytes> = multi_keys.iter().map(|k| Bytes::from(k.clone())).collect();
        let mr = sm.get_multi(&mk).map_err(|er| (format!("C22:{}-get-multi-error", engine.name()), format!("{er:?}")))?;
        let multi: Vec<Option<Vec<u8>>> = mr.into_iter().map(|o| o.map(|b| b.to_vec())).collect();
        let want: Vec<Option<Vec<u8>>> = multi_keys.iter().map(|k| states[n].get(k).cloned()).collect();
        if multi != want {
            return Err((
                format!("C22:{}-get-multi-differs-from-model", engine.name()),
                format!(
                    "chunking {which}: get_multi({:?}) = {:?}, reference {:?}",
                    multi_keys.iter().map(|k| show(k)).collect::<Vec<_>>(),
                    multi.iter().map(show_opt).collect::<Vec<_>>(),
                    want.iter().map(show_opt).collect::<Vec<_>>()
                ),
            ));
        }
        // scans (non-empty prefixes only: the RocksDB engine deliberately returns nothing for the empty prefix)
        let mut scans = vec![];
        for p in PREFIXES {
            let r = sm.scan_prefix(p).map_err(|er| (format!("C22:{}-scan-error", engine.name()), format!("{er:?}")))?;
            let mut got: Vec<(Vec<u8>, Vec<u8>)> = r.entries.iter().map(|(k, v)| (k.to_vec(), v.to_vec())).collect();
            got.sort();
            let want: Vec<(Vec<u8>, Vec<u8>)> = states[n].iter().filter(|(k, _)| k.starts_with(p)).map(|(k, v)| (k.clone(), v.clone())).collect();
            if got != want {
                return Err((
                    format!("C22:{}-scan-differs-from-model", engine.name()),
                    format!("chunking {which}: scan_prefix({}) = {:?}, reference {:?}", show(p), got, want),
                ));
            }
            scans.push(got);
        }
        t_work = t0.elapsed().as_micros();
        drop(sm);
        Ok(Observed { flags: got_flags, finals, multi, scans })
    });
    drop(rt);
    rm_dir(&dir);
    let t_all = t0.elapsed().as_micros();
    timing[0] += t_open;
    timing[1] += t_work.saturating_sub(t_open);
    timing[2] += t_all.saturating_sub(t_work);
    res
}

impl Check for C22 {
    type Case = Case;
    fn id(&self) -> &'static str {
        "C22"
    }
    fn rule(&self) -> String {
        "cases = command sequences (<=60) over keys {a,ab,b,\"\"} x values {x,y,z,\"\"} with two generated chunkings, applied to File with chunking A, File with chunking B and RocksDB with chunking B (3 fresh instances per case; every run is compared with the chunking-independent reference, so any two chunkings / engines are compared transitively); non-trivial = in at least one chunking some chunk contains >=2 CAS on one key that come after a put/delete/CAS-success of that key in the same chunk; distinct by hash of (commands, chunkings)".into()
    }
    fn assumptions(&self) -> Vec<String> {
        vec![
            "entries reach apply_chunk with consecutive indexes from 1 and non-decreasing terms (what the commit handler delivers)".into(),
            "state machines are opened as a node does: new(dir) + set_lease(TtlLease) + start()".into(),
            "scan_prefix is exercised with non-empty prefixes only: RocksDBStateMachine::scan_prefix deliberately returns no entries for the empty prefix (File returns everything); noted, not judged".into(),
            "TTL puts are part of the alphabet but the virtual wall clock is fixed, so nothing expires (TTL behaviour is C23)".into(),
            "empty keys and empty values are accepted by the client API (no validation found), so they are in the domain".into(),
        ]
    }
    fn cases(&self, tier: Tier) -> u32 {
        match tier {
            // one RocksDB open per case dominates (70-250 ms depending on machine load)
            Tier::Quick => 1_000,
            Tier::Thorough => 12_000,
        }
    }
    fn max_shrink_iters(&self) -> u32 {
        250
    }
    fn workers(&self) -> usize {
        std::env::var("VERIF_WORKERS").ok().and_then(|s| s.parse().ok()).unwrap_or(16)
    }
    fn required_labels(&self) -> Vec<&'static str> {
        vec!["nontrivial_inbatch_cas", "cas_success", "cas_failure", "empty_value_used", "empty_key_used", "via_proto"]
    }
    fn strategy(&self, _tier: Tier) -> BoxedStrategy<Case> {
        (
            prop::collection::vec(cmd_s(1), 1..=60),
            prop::collection::vec(1u8..=12, 0..=20),
            prop::collection::vec(1u8..=12, 0..=20),
            prop_oneof![Just(0u8), 1u8..=9],
            any::<bool>(),
            prop::collection::vec(0u8..=4, 0..=8),
        )
            .prop_map(|(cmds, chunks_a, chunks_b, term_every, via_proto, multi)| Case { cmds, chunks_a, chunks_b, term_every, via_proto, multi })
            .boxed()
    }

    fn run(&self, c: &Case) -> Outcome {
        let mut out = Outcome::ok();
        d_engine_core::verif_hooks::set_virtual_wall_ms(Some(T0_MS));
        let log = build_log(&c.cmds, c.term_every);
        let (states, flags) = prefix_states(&log, T0_MS);
        let ra = chunk_ranges(log.len(), &c.chunks_a);
        let rb = chunk_ranges(log.len(), &c.chunks_b);
        let multi_keys: Vec<Vec<u8>> = c.multi.iter().map(|i| if (*i as usize) < 4 { KEYS[*i as usize].to_vec() } else { MISSING.to_vec() }).collect();

        // labels / non-trivial rule
        let nt = inbatch_cas(&log, &ra, &states) || inbatch_cas(&log, &rb, &states);
        if nt {
            out.add_label("nontrivial_inbatch_cas");
        }
        if log.iter().zip(flags.iter()).any(|(e, f)| e.cmd.is_cas() && *f) {
            out.add_label("cas_success");
        }
        if log.iter().zip(flags.iter()).any(|(e, f)| e.cmd.is_cas() && !*f) {
            out.add_label("cas_failure");
        }
        if log.iter().any(|e| matches!(&e.cmd, Cmd::Put { v, .. } | Cmd::Cas { v, .. } | Cmd::PutTtl { v, .. } if v.0.is_empty())) {
            out.add_label("empty_value_used");
        }
        if log.iter().any(|e| matches!(&e.cmd, Cmd::Cas { exp: Some(x), .. } if x.0.is_empty())) {
            out.add_label("cas_expect_empty_value");
        }
        if log.iter().any(|e| matches!(&e.cmd, Cmd::Cas { exp: None, .. })) {
            out.add_label("cas_expect_absent");
        }
        if log.iter().any(|e| e.cmd.key().map(|k| k.0.is_empty()).unwrap_or(false)) {
            out.add_label("empty_key_used");
        }
        if c.via_proto {
            out.add_label("via_proto");
        }
        if ra != rb {
            out.add_label("chunkings_differ");
        }
        if multi_keys.len() >= 2 {
            out.add_label("get_multi_probe");
        }
        out.nontrivial = nt;
        out.fingerprint = fp(&(&c.cmds, &ra, &rb));

        let mut obs: Vec<(Engine, &str, Observed)> = vec![];
        let mut tf = [0u128; 3];
        let mut tr = [0u128; 3];
        for (engine, which, ranges) in [(Engine::File, "A", &ra), (Engine::File, "B", &rb), (Engine::Rocks, "B", &rb)] {
            let timing = if engine == Engine::File { &mut tf } else { &mut tr };
            match run_engine(engine, &log, ranges, c.via_proto, &multi_keys, &states, &flags, which, timing) {
                Ok(o) => obs.push((engine, which, o)),
                Err((sig, detail)) => {
                    if sig == "harness" {
                        panic!("C22 harness error: {detail}");
                    }
                    out.violate(sig, detail);
                    d_engine_core::verif_hooks::set_virtual_wall_ms(None);
                    return out;
                }
            }
        }
        for (n, t) in [("file", tf), ("rocksdb", tr)] {
            out.count(&format!("us_{n}_open"), t[0] as u64);
            out.count(&format!("us_{n}_work"), t[1] as u64);
            out.count(&format!("us_{n}_close"), t[2] as u64);
        }
        // differential belt (implied by model equality, kept as an independent statement of the property)
        for i in 1..obs.len() {
            let (e0, w0, o0) = &obs[0];
            let (e1, w1, o1) = &obs[i];
            if o0.flags != o1.flags || o0.finals != o1.finals || o0.multi != o1.multi || o0.scans != o1.scans {
                let sig = if e0 != e1 { "C22:engines-disagree" } else { "C22:chunkings-disagree" };
                out.violate(sig, format!("{}/{} vs {}/{} differ", e0.name(), w0, e1.name(), w1));
            }
        }
        d_engine_core::verif_hooks::set_virtual_wall_ms(None);
        out
    }
}

/// >=2 CAS on one key inside one chunk, both after an earlier write (put/delete/successful CAS) of
/// that key in the same chunk.
fn inbatch_cas(log: &[LogEntry], ranges: &[(usize, usize)], states: &[BTreeMap<Vec<u8>, Vec<u8>>]) -> bool {
    for (s, e) in ranges {
        let mut written: BTreeMap<Vec<u8>, u32> = BTreeMap::new(); // key -> number of CAS seen after a write
        let mut has_write: BTreeMap<Vec<u8>, bool> = BTreeMap::new();
        for i in *s..*e {
            let le = &log[i];
            let Some(k) = le.cmd.key() else { continue };
            if le.cmd.is_cas() {
                if *has_write.get(&k.0).unwrap_or(&false) {
                    let n = written.entry(k.0.clone()).or_insert(0);
                    *n += 1;
                    if *n >= 2 {
                        return true;
                    }
                }
                if states[i] != states[i + 1] || matches!(&le.cmd, Cmd::Cas { .. } if cas_ok(&states[i], &le.cmd)) {
                    has_write.insert(k.0.clone(), true);
                }
            } else {
                has_write.insert(k.0.clone(), true);
            }
        }
    }
    false
}

fn cas_ok(st: &BTreeMap<Vec<u8>, Vec<u8>>, c: &Cmd) -> bool {
    if let Cmd::Cas { k, exp, .. } = c {
        match (st.get(&k.0), exp) {
            (Some(c), Some(e)) => c == &e.0,
            (None, None) => true,
            _ => false,
        }
    } else {
        false
    }
}
