//! C37 — client writes are applied exactly as submitted.
//!
//! Layer 1 (end to end): a real single-node leader (`EmbeddedEngine`, FileStorageEngine, recording
//! wrapper around the real FileStateMachine, see `embedded_util`). Generated put / put_with_ttl /
//! delete / compare_and_swap operations are submitted through the embedded client
//! (`ClientCmd::Propose` → `write_op_to_proto` → `client_command_to_entry_payloads` → log →
//! `decode_entries`) and through the gRPC client of the same node (proto `ClientWriteRequest` →
//! `proto_convert::to_core_write_req` → same path). Oracle: the sequence of non-Noop `ApplyEntry`
//! commands the state machine was handed for this case equals the sequence of acknowledged
//! submissions, field by field (key, value, `expected` None / Some(empty) / Some(bytes), TTL with
//! the documented convention `ttl 0 ≡ no expiration ≡ None`).
//!
//! Layer 2 (pure functions, same cases): proto `WriteCommand` → `client_command_to_entry_payloads` →
//! `Entry` → `decode_entries` must give the same command.
use bytes::Bytes;
use d_engine_core::client::ClientApi;
use d_engine_core::{client_command_to_entry_payloads, decode_entries, ApplyEntry, Command};
use d_engine_proto::client::WriteCommand;
use d_engine_proto::common::Entry;
use proptest::prelude::*;
use serde::{Deserialize, Serialize};
use std::sync::atomic::{AtomicU64, Ordering};

use super::embedded_util as eu;
use crate::runner::{fp, Check, Outcome, Tier};

#[derive(Clone, Debug, Serialize, Deserialize, Hash, PartialEq)]
pub enum WOp {
    Put { key: Vec<u8>, value: Vec<u8>, grpc: bool },
    PutTtl { key: Vec<u8>, value: Vec<u8>, ttl: u64, grpc: bool },
    Delete { key: Vec<u8>, grpc: bool },
    Cas { key: Vec<u8>, expected: Option<Vec<u8>>, value: Vec<u8>, grpc: bool },
}

#[derive(Clone, Debug, Serialize, Deserialize, Hash)]
pub struct Case {
    pub ops: Vec<WOp>,
}

pub struct C37;

pub fn bytes_strategy() -> BoxedStrategy<Vec<u8>> {
    prop_oneof![
        3 => Just(vec![]),
        3 => prop_oneof![Just(vec![0u8]), Just(vec![0xFFu8]), Just(vec![b'/']), Just(vec![0u8, 0u8]), Just(vec![0xFFu8, 0x00u8])],
        8 => prop::collection::vec(any::<u8>(), 1..9),
        3 => prop::collection::vec(prop_oneof![Just(0u8), Just(0xFFu8), Just(0x80u8), Just(b'a')], 1..40),
        // long strings are a cheap-to-shrink pattern (length, start, step)
        1 => (200usize..4097, any::<u8>(), any::<u8>()).prop_map(|(n, a, b)| (0..n).map(|i| a.wrapping_add((i as u8).wrapping_mul(b))).collect()),
    ]
    .boxed()
}

fn ttl_strategy() -> BoxedStrategy<u64> {
    prop_oneof![
        4 => Just(0u64),
        3 => prop_oneof![Just(1u64), Just(2), Just(60), Just(3600)],
        2 => prop_oneof![Just(u32::MAX as u64 - 1), Just(u32::MAX as u64), Just(u32::MAX as u64 + 1), Just(1u64 << 32)],
        2 => prop_oneof![Just(i64::MAX as u64), Just(i64::MAX as u64 + 1), Just(u64::MAX - 1), Just(u64::MAX)],
        2 => any::<u64>(),
    ]
    .boxed()
}

fn op_strategy() -> BoxedStrategy<WOp> {
    let g = prop::bool::weighted(0.35);
    prop_oneof![
        3 => (bytes_strategy(), bytes_strategy(), g.clone()).prop_map(|(key, value, grpc)| WOp::Put { key, value, grpc }),
        3 => (bytes_strategy(), bytes_strategy(), ttl_strategy(), g.clone()).prop_map(|(key, value, ttl, grpc)| WOp::PutTtl { key, value, ttl, grpc }),
        2 => (bytes_strategy(), g.clone()).prop_map(|(key, grpc)| WOp::Delete { key, grpc }),
        4 => (bytes_strategy(), prop::option::weighted(0.7, bytes_strategy()), bytes_strategy(), g).prop_map(|(key, expected, value, grpc)| WOp::Cas { key, expected, value, grpc }),
    ]
    .boxed()
}

fn expected_command(op: &WOp) -> Command {
    match op {
        WOp::Put { key, value, .. } => Command::Insert { key: Bytes::from(key.clone()), value: Bytes::from(value.clone()), ttl_secs: None },
        WOp::PutTtl { key, value, ttl, .. } => Command::Insert {
            key: Bytes::from(key.clone()),
            value: Bytes::from(value.clone()),
            // documented convention (client types, proto file, command.rs): 0 == no expiration == None
            ttl_secs: if *ttl == 0 { None } else { Some(*ttl) },
        },
        WOp::Delete { key, .. } => Command::Delete { key: Bytes::from(key.clone()) },
        WOp::Cas { key, expected, value, .. } => Command::CompareAndSwap { key: Bytes::from(key.clone()), expected: expected.clone().map(Bytes::from), value: Bytes::from(value.clone()) },
    }
}

fn is_grpc(op: &WOp) -> bool {
    match op {
        WOp::Put { grpc, .. } | WOp::PutTtl { grpc, .. } | WOp::Delete { grpc, .. } | WOp::Cas { grpc, .. } => *grpc,
    }
}

fn short(b: &Bytes) -> String {
    if b.len() <= 12 {
        format!("{:?}", b.as_ref())
    } else {
        format!("[{} bytes, starts {:?}]", b.len(), &b.as_ref()[..6])
    }
}

/// Root-cause classifier for a differing command.
fn diff(want: &Command, got: &Command) -> Option<(&'static str, String)> {
    if want == got {
        return None;
    }
    Some(match (want, got) {
        (Command::Insert { key: k1, value: v1, ttl_secs: t1 }, Command::Insert { key: k2, value: v2, ttl_secs: t2 }) => {
            if k1 != k2 && k2 == v1 && v2 == k1 {
                ("key-value-swapped", format!("submitted key={} value={}, applied key={} value={}", short(k1), short(v1), short(k2), short(v2)))
            } else if k1 != k2 {
                ("key-altered", format!("submitted key={}, applied key={}", short(k1), short(k2)))
            } else if v1 != v2 {
                ("value-altered", format!("submitted value={}, applied value={}", short(v1), short(v2)))
            } else {
                ("ttl-altered", format!("submitted ttl={t1:?}, applied ttl={t2:?}"))
            }
        }
        (Command::Delete { key: k1 }, Command::Delete { key: k2 }) => ("key-altered", format!("delete: submitted key={}, applied key={}", short(k1), short(k2))),
        (Command::CompareAndSwap { key: k1, expected: e1, value: v1 }, Command::CompareAndSwap { key: k2, expected: e2, value: v2 }) => {
            if k1 != k2 {
                ("key-altered", format!("cas: submitted key={}, applied key={}", short(k1), short(k2)))
            } else if e1 != e2 {
                ("cas-expected-altered", format!("cas: submitted expected={:?}, applied expected={:?}", e1.as_ref().map(short), e2.as_ref().map(short)))
            } else {
                let _ = (v1, v2);
                ("value-altered", format!("cas: submitted new_value={}, applied new_value={}", short(v1), short(v2)))
            }
        }
        _ => ("operation-kind-altered", format!("submitted {}, applied {}", kind(want), kind(got))),
    })
}
fn kind(c: &Command) -> &'static str {
    match c {
        Command::Noop => "Noop",
        Command::Insert { .. } => "Insert",
        Command::Delete { .. } => "Delete",
        Command::CompareAndSwap { .. } => "CompareAndSwap",
    }
}

/// proto form of the submission, as the documented wire convention defines it
fn proto_of(op: &WOp) -> WriteCommand {
    match op {
        WOp::Put { key, value, .. } => WriteCommand::insert(Bytes::from(key.clone()), Bytes::from(value.clone())),
        WOp::PutTtl { key, value, ttl, .. } => WriteCommand::insert_with_ttl(Bytes::from(key.clone()), Bytes::from(value.clone()), *ttl),
        WOp::Delete { key, .. } => WriteCommand::delete(Bytes::from(key.clone())),
        WOp::Cas { key, expected, value, .. } => WriteCommand::compare_and_swap(Bytes::from(key.clone()), expected.clone().map(Bytes::from), Bytes::from(value.clone())),
    }
}

static MARK: AtomicU64 = AtomicU64::new(0);

impl Check for C37 {
    type Case = Case;
    fn id(&self) -> &'static str {
        "C37"
    }
    fn rule(&self) -> String {
        "cases = 1..10 write operations {put, put_with_ttl, delete, compare_and_swap} with byte-string keys/values/expected drawn from {empty, 0x00, 0xFF, '/', short random, 0x00/0xFF/0x80 runs, 200..4096 random bytes}, expected in {None, Some(empty), Some(bytes)}, ttl in {0,1,2,60,3600, 2^32±1, i64::MAX±, u64::MAX-1, u64::MAX, random}, each submitted through the embedded client or (35%) the gRPC client of a real single-node leader; non-trivial = some submitted field is empty / expected is None or Some(empty) / ttl is 0 or >= 2^32; distinct by hash of the operations' shape (kind, path, lengths, first bytes, ttl)".into()
    }
    fn assumptions(&self) -> Vec<String> {
        vec![
            "one real single-node EmbeddedEngine (FileStorageEngine + FileStateMachine behind a recording wrapper) is reused by consecutive cases of a worker; a case only looks at the ApplyEntry records appended between its own start and its own unique marker write".into(),
            "ttl 0 passed to put_with_ttl is expected to reach the state machine as None (documented proto convention: 0 = no expiration)".into(),
            "only acknowledged writes are judged; if a write is answered with an error the case ends there (its effect is indeterminate), only the acknowledged prefix is judged and the engine is discarded".into(),
            format!("the recording wrapper clamps TTLs above {} s before delegating to the inner FileStateMachine (TtlLease::register would overflow SystemTime and panic); the recorded command keeps the original TTL", eu::INNER_TTL_CLAMP),
            "proto_convert::{write_command_to_op,to_core_write_req} are crate-private: they are exercised only through the real gRPC server of the node, not called directly".into(),
        ]
    }
    fn cases(&self, tier: Tier) -> u32 {
        match tier {
            Tier::Quick => 5_000,
            Tier::Thorough => 60_000,
        }
    }
    fn required_labels(&self) -> Vec<&'static str> {
        vec!["via_embedded", "via_grpc", "ttl_zero", "ttl_huge", "expected_none", "expected_some_empty", "empty_key", "empty_value", "long_bytes"]
    }
    fn workers(&self) -> usize {
        8
    }
    fn max_shrink_iters(&self) -> u32 {
        1000
    }
    fn strategy(&self, _tier: Tier) -> BoxedStrategy<Case> {
        prop::collection::vec(op_strategy(), 1..11).prop_map(|ops| Case { ops }).boxed()
    }

    fn run(&self, c: &Case) -> Outcome {
        let mut out = run_case(c);
        out.labels.sort();
        out.labels.dedup();
        out
    }
}

fn run_case(c: &Case) -> Outcome {
    {
        let mut out = Outcome::ok();

        // ---- layer 2: pure encode/decode round trip -------------------------------------------
        for (i, op) in c.ops.iter().enumerate() {
            let payloads = client_command_to_entry_payloads(vec![proto_of(op)]);
            if payloads.len() != 1 {
                out.violate("C37:pure-roundtrip-payload-count", format!("{} payloads for one command", payloads.len()));
                continue;
            }
            let entry = Entry { index: 7 + i as u64, term: 3, payload: Some(payloads.into_iter().next().unwrap()) };
            match decode_entries(vec![entry]) {
                Ok(v) if v.len() == 1 => {
                    let e: &ApplyEntry = &v[0];
                    if e.index != 7 + i as u64 || e.term != 3 {
                        out.violate("C37:pure-roundtrip-index-term", format!("index/term {}/{} for entry {}/3", e.index, e.term, 7 + i as u64));
                    }
                    if let Some((slug, d)) = diff(&expected_command(op), &e.command) {
                        out.violate(format!("C37:pure-roundtrip-{slug}"), format!("op #{i}: {d}"));
                    }
                }
                Ok(v) => out.violate("C37:pure-roundtrip-entry-count", format!("{} decoded entries for one entry", v.len())),
                Err(e) => out.violate("C37:pure-roundtrip-decode-error", format!("op #{i}: decode_entries failed: {e:?}")),
            }
        }

        // ---- labels / non-trivial rule -----------------------------------------------------------
        let mut nontrivial = false;
        let mut shape: Vec<(u8, bool, usize, usize, Option<usize>, u64, u8)> = vec![];
        for op in &c.ops {
            let (k, v, e, t): (&Vec<u8>, Option<&Vec<u8>>, Option<&Option<Vec<u8>>>, Option<u64>) = match op {
                WOp::Put { key, value, .. } => (key, Some(value), None, None),
                WOp::PutTtl { key, value, ttl, .. } => (key, Some(value), None, Some(*ttl)),
                WOp::Delete { key, .. } => (key, None, None, None),
                WOp::Cas { key, expected, value, .. } => (key, Some(value), Some(expected), None),
            };
            if k.is_empty() {
                out.add_label("empty_key");
                nontrivial = true;
            }
            if v.is_some_and(|v| v.is_empty()) {
                out.add_label("empty_value");
                nontrivial = true;
            }
            if k.len() >= 200 || v.is_some_and(|v| v.len() >= 200) {
                out.add_label("long_bytes");
            }
            match e {
                Some(None) => {
                    out.add_label("expected_none");
                    nontrivial = true;
                }
                Some(Some(x)) if x.is_empty() => {
                    out.add_label("expected_some_empty");
                    nontrivial = true;
                }
                Some(Some(_)) => out.add_label("expected_some_bytes"),
                None => {}
            }
            match t {
                Some(0) => {
                    out.add_label("ttl_zero");
                    nontrivial = true;
                }
                Some(x) if x >= (1u64 << 32) => {
                    out.add_label("ttl_huge");
                    nontrivial = true;
                }
                Some(_) => out.add_label("ttl_small"),
                None => {}
            }
            let kindno = match op {
                WOp::Put { .. } => 0,
                WOp::PutTtl { .. } => 1,
                WOp::Delete { .. } => 2,
                WOp::Cas { .. } => 3,
            };
            shape.push((kindno, is_grpc(op), k.len(), v.map(|v| v.len()).unwrap_or(usize::MAX), e.map(|e| e.as_ref().map(|x| x.len()).unwrap_or(usize::MAX)), t.unwrap_or(u64::MAX - 7), k.first().copied().unwrap_or(1)));
        }
        out.nontrivial = nontrivial;
        out.fingerprint = fp(&shape);
        if out.violation.is_some() {
            return out;
        }

        // ---- layer 1: through the real leader ----------------------------------------------------
        let ctx = eu::checkout_file();
        if ctx.sm.log_len() > 200_000 {
            ctx.sm.clear_log();
        }
        let start = ctx.sm.log_len();
        let marker = format!("__c37_marker_{}_{}", std::process::id(), MARK.fetch_add(1, Ordering::Relaxed)).into_bytes();
        let client = ctx.client.clone();
        let grpc = ctx.grpc.clone();
        let ops = c.ops.clone();
        let marker2 = marker.clone();
        // results: Ok(()) acknowledged, Err(description)
        let (results, marker_ok): (Vec<(bool, Result<(), String>)>, bool) = ctx.rt.block_on(async move {
            let mut res = vec![];
            for op in &ops {
                let want_grpc = is_grpc(op);
                let use_grpc = want_grpc && grpc.is_some();
                let r: Result<(), String> = if use_grpc {
                    let g = grpc.as_ref().unwrap();
                    match op {
                        WOp::Put { key, value, .. } => ClientApi::put(&**g, key, value).await.map_err(|e| format!("{e:?}")),
                        WOp::PutTtl { key, value, ttl, .. } => ClientApi::put_with_ttl(&**g, key, value, *ttl).await.map_err(|e| format!("{e:?}")),
                        WOp::Delete { key, .. } => ClientApi::delete(&**g, key).await.map_err(|e| format!("{e:?}")),
                        WOp::Cas { key, expected, value, .. } => ClientApi::compare_and_swap(&**g, key, expected.as_ref(), value).await.map(|_| ()).map_err(|e| format!("{e:?}")),
                    }
                } else {
                    match op {
                        WOp::Put { key, value, .. } => client.put(key, value).await.map_err(|e| format!("{e:?}")),
                        WOp::PutTtl { key, value, ttl, .. } => ClientApi::put_with_ttl(&*client, key, value, *ttl).await.map_err(|e| format!("{e:?}")),
                        WOp::Delete { key, .. } => client.delete(key).await.map_err(|e| format!("{e:?}")),
                        WOp::Cas { key, expected, value, .. } => ClientApi::compare_and_swap(&*client, key, expected.as_ref(), value).await.map(|_| ()).map_err(|e| format!("{e:?}")),
                    }
                };
                let failed = r.is_err();
                res.push((use_grpc, r));
                if failed {
                    // outcome of this write is indeterminate (it may still be applied later): nothing
                    // submitted after it can be aligned reliably, so the case ends here
                    break;
                }
            }
            let m = if res.iter().any(|(_, r)| r.is_err()) { true } else { client.put(&marker2, b"m").await.is_ok() };
            (res, m)
        });
        let grpc_missing = ctx.grpc.is_none();
        let recorded: Vec<ApplyEntry> = ctx.sm.log_from(start);
        let any_err = results.iter().any(|(_, r)| r.is_err());
        if !marker_ok {
            // engine is not healthy: no verdict from this case
            out.add_label("inconclusive_engine_unhealthy");
            eprintln!("C37: marker write failed, discarding engine (results: {:?})", results.iter().filter(|r| r.1.is_err()).collect::<Vec<_>>());
            eu::discard(ctx);
            return out;
        }
        if any_err {
            eu::discard(ctx);
        } else {
            eu::checkin_file(ctx);
        }
        if grpc_missing && c.ops.iter().any(is_grpc) {
            out.add_label("grpc_unavailable_fell_back_to_embedded");
        }

        // entries of this case = every non-Noop record since `start`; the last submission is the marker put
        let mine: Vec<&ApplyEntry> = recorded.iter().filter(|e| !matches!(e.command, Command::Noop)).collect();
        let marker_op = WOp::Put { key: marker.clone(), value: b"m".to_vec(), grpc: false };
        let marker_res: (bool, Result<(), String>) = (false, Ok(()));

        let mut pos = 0usize;
        let tail: Vec<(&WOp, &(bool, Result<(), String>))> = if any_err { vec![] } else { vec![(&marker_op, &marker_res)] };
        for (i, (op, (used_grpc, r))) in c.ops.iter().zip(results.iter()).chain(tail.into_iter()).enumerate() {
            let is_marker = i == c.ops.len();
            let path = if *used_grpc { "grpc" } else { "embedded" };
            if !is_marker {
                out.add_label(if *used_grpc { "via_grpc" } else { "via_embedded" });
            }
            let want = expected_command(op);
            match r {
                Ok(()) => {
                    let Some(got) = mine.get(pos) else {
                        out.violate(format!("C37:acked-write-not-applied@{path}"), format!("op #{i} ({}{}) was acknowledged but no further command reached the state machine", kind(&want), if is_marker { ", end-of-case marker" } else { "" }));
                        break;
                    };
                    pos += 1;
                    if let Some((slug, d)) = diff(&want, &got.command) {
                        out.violate(format!("C37:{slug}@{path}"), format!("op #{i}{} (index {}): {d}", if is_marker { " (end-of-case marker)" } else { "" }, got.index));
                        break;
                    }
                }
                Err(e) => {
                    // not judged: an unacknowledged write may or may not be applied, now or later
                    out.add_label("write_answered_with_error");
                    eprintln!("C37: op #{i} ({}) via {path} was answered with an error: {e} — case cut here, engine discarded", kind(&want));
                    break;
                }
            }
        }
        if out.violation.is_none() && !any_err && pos < mine.len() {
            out.violate("C37:unsubmitted-command-applied", format!("{} extra command(s) reached the state machine, first: {} at index {}", mine.len() - pos, kind(&mine[pos].command), mine[pos].index));
        }
        out
    }
}
