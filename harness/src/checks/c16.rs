//! C16 — Snapshot install plus log replay reproduces the state; a snapshot's recorded boundary
//! matches the state it contains.
//!
//! Node A (real File/RocksDB state machine + real `DefaultStateMachineHandler`) applies entries
//! 1..=s, runs `create_snapshot()` (optionally with further applies while it is in flight), applies
//! the rest up to N. Node B (fresh) installs the snapshot through the real stream path
//! (`load_snapshot_data` -> mpsc -> `apply_snapshot_stream_from_leader`) and replays
//! (last_included, N] like a follower. Oracle = reference KV model + differential A vs B.
use std::sync::Arc;

use d_engine_core::{StateMachine, StateMachineHandler};
use d_engine_proto::common::LogId;
use proptest::prelude::*;
use serde::{Deserialize, Serialize};
use tokio::sync::mpsc;

use super::snapmodel::*;
use crate::runner::{fp, pick, rm_dir, work_dir, Check, Outcome, Tier};

#[derive(Clone, Debug, Serialize, Deserialize, Hash)]
pub struct Case {
    /// false = File engine, true = RocksDB engine
    pub rocks: bool,
    pub log: Vec<EntrySpec>,
    /// snapshot point s (entries 1..=s applied when create_snapshot starts), mapped into retained+1..=N
    pub snap_at: u16,
    pub retained: u8,
    /// number of further entries applied while create_snapshot is in flight (File engine only)
    pub concurrent: u8,
    pub chunk_size: u16,
    pub apply_batches: Vec<u8>,
    pub replay_batches: Vec<u8>,
    /// the installing node had applied this many entries itself (mapped into 0..=last_included) before the
    /// snapshot arrives: a lagging follower, whose own write-ahead records are older than the snapshot
    #[serde(default)]
    pub b_prefix: u16,
    /// restart the installing node (drop + reopen from its directory) right after the install: what it
    /// recovers must be the installed snapshot, not a mix with what it held before
    #[serde(default)]
    pub restart_after_install: bool,
}

/// The property id this run reports under: "C16", or "C33" for the engine-specific half of C33 (what a node
/// knows about its snapshot after a restart; only `C33:` findings are judged then).
#[derive(Clone)]
pub struct C16(pub &'static str);

impl Check for C16 {
    type Case = Case;
    fn id(&self) -> &'static str {
        self.0
    }
    fn rule(&self) -> String {
        "case = (engine File|RocksDB, log of 6..=28 entries over 4 keys x 3 values: put / TTL put / delete / CAS (incl. constructed non-idempotent CAS bursts) / leader Noop with term bumps, snapshot point s, retained_log_entries 1..=4, 0..=4 entries applied while create_snapshot is in flight, transfer chunk size, apply/replay batchings); non-trivial = at least one state-changing entry inside the window (s - retained, applied-at-dump]; distinct by hash of (engine, log, s, retained, concurrent)".into()
    }
    fn assumptions(&self) -> Vec<String> {
        vec![
            "handler + state machine are wired as NodeBuilder::build / EmbeddedEngine::start do (TtlLease injected with set_lease before Arc, start() called)".into(),
            "the snapshot metadata used for the transfer is state_machine.snapshot_metadata(), as the leader does".into(),
            "the follower replays exactly the entries (last_included, N] of the leader's log after the install (log purged to the boundary, leader next_index reset)".into(),
            "virtual wall clock fixed: no TTL expires; TTL state is compared A vs B only (not against the model)".into(),
            "concurrent applies are interleaved at the first suspension point of create_snapshot (File engine only; for RocksDB the dump runs on a blocking thread and would race)".into(),
            "s > retained_log_entries (the snapshot boundary index is >= 1)".into(),
        ]
    }
    fn cases(&self, tier: Tier) -> u32 {
        match tier {
            Tier::Quick => 2000,
            Tier::Thorough => 40_000,
        }
    }
    fn required_labels(&self) -> Vec<&'static str> {
        vec!["installed", "engine_file", "engine_rocks", "window_state_changing", "window_no_state_change", "window_nonidempotent", "concurrent_apply", "entries_after_dump", "term_change_in_window"]
    }
    fn strategy(&self, _tier: Tier) -> BoxedStrategy<Case> {
        let c33 = self.0 == "C33";
        (
            prop::bool::weighted(0.3),
            log_strategy(3, 28),
            any::<u16>(),
            1u8..=4,
            prop_oneof![3 => Just(0u8), 2 => 1u8..=4],
            prop_oneof![Just(64u16), Just(1024u16), 16u16..4096],
            proptest::collection::vec(1u8..=4, 1..4),
            proptest::collection::vec(1u8..=4, 1..4),
            (prop_oneof![1 => Just(0u16), 2 => any::<u16>()], any::<bool>()),
        )
            .prop_map(move |(rocks, log, snap_at, retained, concurrent, chunk_size, apply_batches, replay_batches, (b_prefix, restart_after_install))| Case {
                b_prefix,
                restart_after_install: restart_after_install || c33,
                rocks,
                log,
                snap_at,
                retained,
                concurrent,
                chunk_size,
                apply_batches,
                replay_batches,
            })
            .boxed()
    }

    fn run(&self, c: &Case) -> Outcome {
        let rt = tokio::runtime::Builder::new_current_thread().enable_all().build().expect("runtime");
        arm_wall_clock();
        let c33 = self.0 == "C33";
        let out = if c.rocks { rt.block_on(run_case::<RocksEng>(c, c33)) } else { rt.block_on(run_case::<FileEng>(c, c33)) };
        drop(rt);
        disarm_wall_clock();
        out
    }
}

/// keys that have a lease on the source but none on the installing node = leases lost by the install
fn lease_sig(rocks: bool, b: &std::collections::BTreeMap<Vec<u8>, u128>, a: &std::collections::BTreeMap<Vec<u8>, u128>) -> &'static str {
    if a.keys().any(|k| !b.contains_key(k)) {
        // the snapshot formats (and restore code) of the two engines are unrelated: separate root causes
        if rocks { "C16:leases-lost-by-rocksdb-snapshot-install" } else { "C16:leases-lost-by-file-snapshot-install" }
    } else if !rocks {
        // same root cause seen from the other side: the File install never reaches lease.reload(), so the leases
        // the installing node registered itself before the snapshot arrived survive although the snapshot does
        // not contain them
        "C16:stale-leases-survive-file-snapshot-install"
    } else {
        "C16:leases-differ-after-snapshot-install"
    }
}

struct Finding {
    prio: u8,
    sig: &'static str,
    detail: String,
}

async fn run_case<E: Eng>(c: &Case, c33: bool) -> Outcome {
    let mut out = Outcome::ok();
    let n = c.log.len();
    let retained = (c.retained.clamp(1, 4) as usize).min(n.saturating_sub(1)).max(1);
    if n < retained + 1 {
        out.add_label("degenerate_short_log");
        return out;
    }
    // s in retained+1 ..= n
    let s = retained + 1 + pick(c.snap_at, n - retained);
    let m = if c.rocks { 0 } else { (c.concurrent as usize).min(n - s) };
    let dump_at = s + m;
    let entries = build_entries(&c.log);
    let terms = terms_of(&c.log);
    let chunk_size = (c.chunk_size as usize).max(16);

    let root = work_dir("c16");
    let mut findings: Vec<Finding> = vec![];
    let mut harness_err: Option<String> = None;

    out.add_label(if c.rocks { "engine_rocks" } else { "engine_file" });

    'body: {
        let a = match Node::<E>::open(&root.join("a"), 1, chunk_size, retained as u64).await {
            Ok(x) => x,
            Err(e) => {
                harness_err = Some(e);
                break 'body;
            }
        };
        let mut b = match Node::<E>::open(&root.join("b"), 2, chunk_size, retained as u64).await {
            Ok(x) => x,
            Err(e) => {
                harness_err = Some(e);
                break 'body;
            }
        };

        // ---- node A: apply 1..=s, snapshot (with m concurrent applies), apply the rest -------------
        if let Err(e) = a.apply(&entries[..s], &c.apply_batches).await {
            harness_err = Some(e);
            break 'body;
        }
        let snap_res = if m == 0 {
            a.h.create_snapshot().await
        } else {
            let mut fut = Box::pin(a.h.create_snapshot());
            match futures::poll!(fut.as_mut()) {
                std::task::Poll::Ready(r) => {
                    // create_snapshot finished without suspending: the applies below happen after it
                    out.add_label("concurrent_not_interleaved");
                    if let Err(e) = a.apply(&entries[s..dump_at], &c.apply_batches).await {
                        harness_err = Some(e);
                        break 'body;
                    }
                    r
                }
                std::task::Poll::Pending => {
                    if let Err(e) = a.apply(&entries[s..dump_at], &c.apply_batches).await {
                        harness_err = Some(e);
                        break 'body;
                    }
                    fut.await
                }
            }
        };
        let (meta, snap_path) = match snap_res {
            Ok(x) => x,
            Err(e) => {
                findings.push(Finding { prio: 0, sig: "C16:create-snapshot-failed", detail: format!("create_snapshot at applied={s}: {e:?}") });
                break 'body;
            }
        };
        let label = meta.last_included.unwrap_or(LogId { index: 0, term: 0 });
        let a_dump = a.observe();
        if let Err(e) = a.apply(&entries[dump_at..], &c.apply_batches).await {
            harness_err = Some(e);
            break 'body;
        }
        let a_final = a.observe();

        // ---- classification ---------------------------------------------------------------------
        let li = label.index as usize;
        let model_label = model_upto(&c.log, li);
        let model_dump = model_upto(&c.log, dump_at);
        let model_final = model_upto(&c.log, n);
        // generator classification uses the PLANNED window (s - retained, dump_at] (what the retention
        // setting asks to keep replayable), independent of the label the code under test chose
        let lp = s - retained;
        let window_changes = {
            let mut kv = model_upto(&c.log, lp);
            let mut any = false;
            for sp in &c.log[lp..dump_at] {
                any |= model_apply(&mut kv, &sp.cmd);
            }
            any
        };
        // applying the window a second time on top of the dumped state changes the result
        let nonidem = model_from(model_dump.clone(), &c.log, lp, dump_at) != model_dump;
        let term_change_in_window = lp >= 1 && terms[lp - 1] != terms[dump_at - 1];
        out.add_label(if window_changes { "window_state_changing" } else { "window_no_state_change" });
        if nonidem {
            out.add_label("window_nonidempotent");
        }
        if m > 0 {
            out.add_label("concurrent_apply");
        }
        if dump_at < n {
            out.add_label("entries_after_dump");
        }
        if term_change_in_window {
            out.add_label("term_change_in_window");
        }
        if c.log[..dump_at].iter().any(|e| matches!(e.cmd, Cmd::PutTtl { .. })) {
            out.add_label("ttl_before_dump");
        }
        out.nontrivial = window_changes;
        out.fingerprint = fp(&(c.rocks, &c.log, s, retained, m));

        if label.index as usize > dump_at {
            findings.push(Finding { prio: 0, sig: "C16:snapshot-labelled-above-dumped-state", detail: format!("last_included={label:?} but only {dump_at} entries were applied when the state was dumped") });
            break 'body;
        }
        // the source node itself must agree with the reference model
        match a_dump.contents() {
            Ok(kv) if *kv == model_dump => {}
            other => findings.push(Finding { prio: 0, sig: "C16:source-state-differs-from-model", detail: format!("A after {dump_at} entries: {:?}, model {}", other.map(show_kv), show_kv(&model_dump)) }),
        }
        match a_final.contents() {
            Ok(kv) if *kv == model_final => {}
            other => findings.push(Finding { prio: 0, sig: "C16:source-state-differs-from-model", detail: format!("A after all {n} entries: {:?}, model {}", other.map(show_kv), show_kv(&model_final)) }),
        }
        if li >= 1 && label.term != terms[li - 1] {
            findings.push(Finding {
                prio: 2,
                sig: if label.term == terms[s - 1] { "C16:snapshot-boundary-term-is-last-applied-term" } else { "C16:snapshot-boundary-term-from-wrong-lookup" },
                detail: format!("last_included={{index {}, term {}}} but log entry {} has term {} (applied index at snapshot time {} has term {})", label.index, label.term, li, terms[li - 1], s, terms[s - 1]),
            });
        }

        // ---- transfer through the real stream path --------------------------------------------------
        let leader_meta = match a.sm.snapshot_metadata() {
            Some(x) => x,
            None => {
                findings.push(Finding { prio: 0, sig: "C16:no-snapshot-metadata-after-create", detail: "state_machine.snapshot_metadata() is None after create_snapshot".into() });
                break 'body;
            }
        };
        if leader_meta.last_included != Some(label) {
            findings.push(Finding { prio: 0, sig: "C16:metadata-disagrees-with-create-result", detail: format!("sm metadata {:?} vs create_snapshot result {:?} ({snap_path:?})", leader_meta.last_included, label) });
        }
        let chunks = match load_chunks(&*a.h, leader_meta.clone()).await {
            Ok(x) => x,
            Err(e) => {
                findings.push(Finding { prio: 0, sig: "C16:load-snapshot-data-failed", detail: e });
                break 'body;
            }
        };
        out.count("chunks", chunks.len() as u64);
        let (tx, rx) = mpsc::channel(32);
        let (ack_tx, mut ack_rx) = mpsc::channel(32);
        let drain = tokio::spawn(async move { while ack_rx.recv().await.is_some() {} });
        let feeder = tokio::spawn(async move {
            for ch in chunks {
                if tx.send(ch).await.is_err() {
                    break;
                }
            }
        });
        let cur_term = *terms.last().unwrap();
        // the installing node may have applied a prefix of the log itself (never beyond the snapshot boundary)
        let bp = pick(c.b_prefix, li + 1);
        if bp > 0 {
            if let Err(e) = b.apply(&entries[..bp], &c.apply_batches).await {
                harness_err = Some(e);
                break 'body;
            }
            out.add_label("installer_had_own_prefix");
        }
        let res = b.h.apply_snapshot_stream_from_leader(cur_term, rx, ack_tx, &b.cfg).await;
        let _ = feeder.await;
        let _ = drain.await;
        if let Err(e) = res {
            findings.push(Finding { prio: 0, sig: "C16:install-of-valid-snapshot-failed", detail: format!("apply_snapshot_stream_from_leader: {e:?}") });
            break 'body;
        }
        out.add_label("installed");
        let b_inst = b.observe();
        if c.restart_after_install {
            // restart of the installing node right after the install
            drop(b);
            b = match Node::<E>::open(&root.join("b"), 2, chunk_size, retained as u64).await {
                Ok(x) => x,
                Err(e) => {
                    findings.push(Finding { prio: 0, sig: "C16:cannot-reopen-after-snapshot-install", detail: e });
                    break 'body;
                }
            };
            out.add_label("restart_after_install");
            let b_re = b.observe();
            match (b_inst.contents(), b_re.contents()) {
                (Ok(x), Ok(y)) if x != y => findings.push(Finding {
                    prio: 0,
                    sig: "C16:state-after-restart-differs-from-installed-snapshot",
                    detail: format!("B right after the install {} but after a restart {} (B had applied {} entries itself before the snapshot ending at {} arrived)", show_kv(x), show_kv(y), bp, label.index),
                }),
                _ => {}
            }
            if b_re.snap_meta.as_ref().map(|m| (m.0, m.1)) != b_inst.snap_meta.as_ref().map(|m| (m.0, m.1)) {
                findings.push(Finding {
                    prio: 0,
                    sig: "C33:snapshot-metadata-lost-by-restart",
                    detail: format!("B knows its snapshot {:?} right after the install but {:?} after a restart: it can no longer say which snapshot covers the log it purged, nor serve it", b_inst.snap_meta, b_re.snap_meta),
                });
            }
            if b_re.last_applied.0 < b_inst.last_applied.0 {
                findings.push(Finding {
                    prio: 1,
                    sig: "C16:applied-index-regressed-by-restart-after-install",
                    detail: format!("B last_applied {:?} right after the install, {:?} after a restart", b_inst.last_applied, b_re.last_applied),
                });
            }
        }
        if b.h.last_applied() != label.index {
            out.add_label("handler_last_applied_not_reset_by_install");
        }

        // (a) right after install.
        // The dump happens inside generate_snapshot_data; with concurrent applies it is normally
        // taken after them (create_snapshot suspends before it copies the data), but if the first
        // poll ran further the copy was taken earlier: every j in s..=dump_at is a legal dump point.
        let mut dumped_state: Option<Kv> = None;
        match b_inst.contents() {
            Ok(bkv) => {
                let jstar = (s..=dump_at).rev().find(|j| model_upto(&c.log, *j) == *bkv);
                match jstar {
                    None => findings.push(Finding {
                        prio: 0,
                        sig: "C16:installed-state-differs-from-dumped-state",
                        detail: format!("B after install {} is not the source state at any dump point {}..={} (A after create_snapshot: {:?})", show_kv(bkv), s, dump_at, a_dump.contents().map(show_kv)),
                    }),
                    Some(j) => {
                        if m > 0 {
                            out.add_label(if j == dump_at { "concurrent_dump_after_applies" } else { "concurrent_dump_before_applies" });
                        }
                        dumped_state = Some(bkv.clone());
                        if *bkv != model_label {
                            findings.push(Finding {
                                prio: if li > j { 0 } else { 3 },
                                sig: if li > j { "C16:snapshot-labelled-above-dumped-state" } else { "C16:snapshot-labelled-below-dumped-state" },
                                detail: format!(
                                    "snapshot labelled last_included={} (applied {} - retained {}) but contains the state after entry {}: B after install {} , model(1..={}) {}",
                                    label.index, s, retained, j, show_kv(bkv), label.index, show_kv(&model_label)
                                ),
                            });
                        }
                    }
                }
            }
            Err(e) => findings.push(Finding { prio: 0, sig: "C16:installed-state-unreadable", detail: e }),
        }
        if b_inst.last_applied.0 != label.index {
            findings.push(Finding { prio: 0, sig: "C16:last-applied-not-snapshot-boundary", detail: format!("after install last_applied={:?} but last_included={label:?}", b_inst.last_applied) });
        } else if b_inst.last_applied.1 != label.term {
            findings.push(Finding { prio: 0, sig: "C16:last-applied-term-not-snapshot-boundary", detail: format!("after install last_applied={:?} but last_included={label:?}", b_inst.last_applied) });
        }
        match &b_inst.snap_meta {
            Some((i, t, _)) if *i == label.index && *t == label.term => {}
            other => findings.push(Finding { prio: 0, sig: "C16:installed-metadata-not-snapshot-boundary", detail: format!("B snapshot_metadata {other:?} vs last_included {label:?}") }),
        }
        // lease state is compared only when the dump point is unambiguous (no concurrent applies)
        if m == 0 && b_inst.ttl != a_dump.ttl {
            findings.push(Finding { prio: 1, sig: lease_sig(c.rocks, &b_inst.ttl, &a_dump.ttl), detail: format!("after install: B leases {:?} vs A at dump {:?}", b_inst.ttl, a_dump.ttl) });
        }

        // (b) replay (last_included, N]
        if let Err(e) = b.apply(&entries[li..], &c.replay_batches).await {
            findings.push(Finding { prio: 0, sig: "C16:replay-after-install-failed", detail: e });
            break 'body;
        }
        let b_final = b.observe();
        match b_final.contents() {
            Ok(bkv) => {
                if *bkv != model_final {
                    out.add_label("final_state_diverges");
                    // what the known labelling defect predicts: the window (li, dump_at] is applied twice
                    let predicted = dumped_state.clone().map(|d| model_from(d, &c.log, li, n));
                    if li < dump_at && Some(bkv) == predicted.as_ref() {
                        findings.push(Finding {
                            prio: 3,
                            sig: "C16:snapshot-labelled-below-dumped-state",
                            detail: format!(
                                "entries ({}, {}] are contained in the snapshot AND replayed: B final {} vs full apply {} (A {})",
                                li, dump_at, show_kv(bkv), show_kv(&model_final), a_final.contents().map(show_kv).unwrap_or_default()
                            ),
                        });
                    } else {
                        findings.push(Finding { prio: 0, sig: "C16:replay-after-install-diverges", detail: format!("B final {} vs model {}", show_kv(bkv), show_kv(&model_final)) });
                    }
                }
            }
            Err(e) => findings.push(Finding { prio: 0, sig: "C16:replay-after-install-diverges", detail: e }),
        }
        if b_final.last_applied != (n as u64, terms[n - 1]) {
            findings.push(Finding { prio: 0, sig: "C16:last-applied-after-replay", detail: format!("B last_applied {:?} after replaying up to {n} (term {})", b_final.last_applied, terms[n - 1]) });
        }
        if b_final.ttl != a_final.ttl {
            findings.push(Finding { prio: 1, sig: lease_sig(c.rocks, &b_final.ttl, &a_final.ttl), detail: format!("after install + replay: B leases {:?} vs A {:?}", b_final.ttl, a_final.ttl) });
        }
        drop(b);
        drop(a);
    }
    rm_dir(&root);
    if let Some(e) = harness_err {
        // environment / harness problem: never a verdict about the property
        out.add_label(format!("harness_error:{}", e.chars().take(40).collect::<String>()));
        out.nontrivial = false;
        return out;
    }
    // the engine-specific half of C33 is judged by its own run (./check C33), everything else by C16
    findings.retain(|f| f.sig.starts_with("C33:") == c33);
    findings.sort_by_key(|f| f.prio);
    for f in &findings {
        out.add_label(format!("finding:{}", f.sig));
    }
    if let Some(f) = findings.first() {
        // same root cause seen at both observation points: report both
        let detail = findings.iter().filter(|g| g.sig == f.sig).map(|g| g.detail.clone()).collect::<Vec<_>>().join(" || ");
        out.violate(f.sig, detail);
    }
    let _ = Arc::new(());
    out
}
