//! C08 — AppendEntries requests are contiguous and keep logs gap-free.
//!
//! (a) leader side: a real leader `BufferedRaftLog` + the real `ReplicationHandler`
//!     (`generate_new_entries`, `prepare_peer_entries`, `build_append_request`, assembled exactly like
//!     `prepare_batch_requests`: `leader_last_index_before` read BEFORE the new batch is inserted, purge
//!     boundary routing to snapshot targets). Every request must have
//!     `entries[j].index == prev_log_index + 1 + j` and `prev_log_term == term(prev_log_index)`.
//! (b) follower side: every request is fed to the real `handle_append_entries` on a generated follower
//!     `BufferedRaftLog` (matching / lagging / ahead / diverged with a stale tail, optionally purged).
//!     When the follower answers success its log must have consecutive indexes from its first entry
//!     and must still hold every entry that was identical to the leader's entry before the call.
//! Several replication rounds per case: the leader follows the real `handle_success_response` /
//! `handle_conflict_response` to move `next_index` (clamped to 1..=last+1, the domain of the property).
use std::collections::HashMap;
use std::sync::Arc;

use d_engine_core::{RaftLog, ReplicationCore, ReplicationData, StateSnapshot};
use d_engine_proto::common::{Entry, NodeRole};
use d_engine_proto::server::replication::{append_entries_response, AppendEntriesRequest};
use proptest::prelude::*;
use serde::{Deserialize, Serialize};

use super::logutil::{block_on, ent, lid, payload_for, show, snapshot_of, Log, LogBox, Rep, Violations};
use crate::runner::{fp, pick, Check, Outcome, Tier};

#[derive(Clone, Debug, Serialize, Deserialize, Hash)]
pub struct Fol {
    /// 0: exactly what the leader believes (leader[..next-1]); 1: any prefix of the leader's log
    /// (lagging or ahead of the leader's belief); 2: prefix + stale tail of a deposed leader
    pub kind: u8,
    pub keep: u16,
    pub stale: u8,
    /// stale tail continues the term of the last common entry (uncommitted entries of that old leader)
    /// instead of a term the current leader never saw
    pub stale_same_term: bool,
    /// follower purged (snapshotted) a prefix of its committed entries
    pub purge: Option<u16>,
    pub commit: u16,
    /// follower has not heard of the leader's term yet
    pub term_lag: bool,
}

#[derive(Clone, Debug, Serialize, Deserialize, Hash)]
pub struct Peer {
    /// 0: anywhere in 1..=len+1; 1: lag slightly above the cap; 2: up to date (len+1); 3: next=1;
    /// 4: lag within the cap
    pub next_mode: u8,
    pub next: u16,
    pub fol: Fol,
}

#[derive(Clone, Debug, Serialize, Deserialize, Hash)]
pub struct Case {
    /// leader log: per entry term bump (terms are even numbers: 2, 4, ...)
    pub leader: Vec<u8>,
    /// leader's current term = last log term + 2*cur_bump
    pub cur_bump: u8,
    pub commit: u16,
    /// leader purged a prefix (cutoff < commit)
    pub purge: Option<u16>,
    pub cap: u8,
    /// new-batch size of each replication round
    pub rounds: Vec<u8>,
    pub peers: Vec<Peer>,
}

pub struct C08;

fn fol_strategy() -> BoxedStrategy<Fol> {
    (
        prop_oneof![2 => Just(0u8), 3 => Just(1u8), 3 => Just(2u8)],
        any::<u16>(),
        1u8..=6,
        prop_oneof![3 => Just(false), 1 => Just(true)],
        prop_oneof![5 => Just(None), 1 => any::<u16>().prop_map(Some)],
        any::<u16>(),
        prop_oneof![3 => Just(false), 1 => Just(true)],
    )
        .prop_map(|(kind, keep, stale, stale_same_term, purge, commit, term_lag)| Fol { kind, keep, stale, stale_same_term, purge, commit, term_lag })
        .boxed()
}

struct FollowerState {
    lb: LogBox,
    current_term: u64,
    commit: u64,
    next: u64,
    diverged: bool,
}

impl Check for C08 {
    type Case = Case;
    fn id(&self) -> &'static str {
        "C08"
    }
    fn rule(&self) -> String {
        "cases = leader log 0..60 entries (non-decreasing terms, optional purge boundary below the commit index), cap 1..8, 1..3 replication rounds with new batches of 0..6 entries, 1..3 peers with next_index anywhere in 1..=len+1 and a follower log that is matching / a shorter or longer prefix / diverged with a stale tail / purged; non-trivial = some request was built with lag (last_before - next + 1) > cap and a non-empty new batch, OR a prev=(0,0) request reached a non-empty follower whose entries match the leader; distinct by hash of (requests, responses, follower logs)".into()
    }
    fn assumptions(&self) -> Vec<String> {
        vec![
            "requests are assembled as ReplicationHandler::prepare_batch_requests does (same calls, same order); the function itself needs a full RaftContext and is not called".into(),
            "next_index of every peer stays in 1..=leader_last+1 (the property's domain); values produced by the real success/conflict handlers are clamped into it".into(),
            "a stale tail consists of entries whose (index,term) the leader never had (terms of a deposed leader below the leader's current term)".into(),
            "the leader's purge cutoff is below its commit index (can_purge_logs), so its log is never empty after a purge".into(),
            "legacy entries per request <= append_entries_max_entries_per_replication is asserted from the config documentation".into(),
        ]
    }
    fn cases(&self, tier: Tier) -> u32 {
        match tier {
            Tier::Quick => 10_000,
            Tier::Thorough => 400_000,
        }
    }
    fn required_labels(&self) -> Vec<&'static str> {
        vec!["cap_lt_lag_with_new_batch", "follower_diverged", "follower_success", "follower_conflict", "follower_truncated_stale_tail"]
    }
    fn strategy(&self, _tier: Tier) -> BoxedStrategy<Case> {
        let peer = (prop_oneof![3 => Just(0u8), 2 => Just(1u8), 2 => Just(2u8), 1 => Just(3u8), 3 => Just(4u8)], any::<u16>(), fol_strategy())
            .prop_map(|(next_mode, next, fol)| Peer { next_mode, next, fol });
        (
            proptest::collection::vec(prop_oneof![4 => Just(0u8), 1 => Just(1u8)], 0..=60),
            0u8..=1,
            any::<u16>(),
            prop_oneof![4 => Just(None), 1 => any::<u16>().prop_map(Some)],
            1u8..=8,
            proptest::collection::vec(prop_oneof![2 => Just(0u8), 3 => 1u8..=6], 1..=3),
            proptest::collection::vec(peer, 1..=3),
        )
            .prop_map(|(leader, cur_bump, commit, purge, cap, rounds, peers)| Case { leader, cur_bump, commit, purge, cap, rounds, peers })
            .boxed()
    }

    fn run(&self, c: &Case) -> Outcome {
        block_on(run_case(c))
    }
}

fn term_of(model: &[Entry], i: u64) -> u64 {
    if i == 0 { 0 } else { model[(i - 1) as usize].term }
}

async fn run_case(c: &Case) -> Outcome {
    let mut out = Outcome::ok();
    let mut viol = Violations::default();
    let mut labels: Vec<&'static str> = vec![];
    let mut trace: Vec<u64> = vec![];
    let mut nontrivial = false;

    // ---------------- leader ---------------------------------------------------------------------
    let mut leader_model: Vec<Entry> = vec![];
    {
        let mut t = 2u64;
        for (i, b) in c.leader.iter().enumerate() {
            t += 2 * (*b as u64);
            leader_model.push(ent(i as u64 + 1, t));
        }
    }
    let len0 = leader_model.len() as u64;
    let last_term = leader_model.last().map(|e| e.term).unwrap_or(2);
    let cur_term = last_term + 2 * (c.cur_bump as u64 & 1);
    let leader_commit0 = pick(c.commit, len0 as usize + 1) as u64;
    let llb = LogBox::open("c08-l", 1);
    let leader: Arc<Log> = llb.log.clone();
    if !leader_model.is_empty() {
        leader.append_entries(leader_model.clone()).await.expect("leader append");
    }
    let mut leader_boundary = 0u64;
    if let Some(p) = c.purge {
        if leader_commit0 >= 2 {
            let cut = 1 + pick(p, (leader_commit0 - 1) as usize) as u64; // 1..=commit-1
            leader.purge_logs_up_to(lid(cut, term_of(&leader_model, cut))).await.expect("leader purge");
            leader_boundary = cut;
            labels.push("leader_purged");
        }
    }
    let handler = Rep::new(1);

    // ---------------- followers ------------------------------------------------------------------
    let mut fols: Vec<FollowerState> = vec![];
    for (pi, p) in c.peers.iter().enumerate() {
        let cap = c.cap as u64;
        let next = match p.next_mode {
            1 => (len0 + 1).saturating_sub(cap + 1 + (p.next % 4) as u64).max(1),
            2 => len0 + 1,
            3 => 1,
            4 => (len0 + 1).saturating_sub(pick(p.next, cap as usize + 1) as u64).max(1),
            _ => 1 + pick(p.next, len0 as usize + 1) as u64,
        };
        let f = &p.fol;
        let k = match f.kind {
            0 => (next - 1).min(len0),
            _ => pick(f.keep, len0 as usize + 1) as u64,
        };
        let mut fe: Vec<Entry> = leader_model[..k as usize].to_vec();
        let mut diverged = false;
        if f.kind == 2 {
            let tk = term_of(&leader_model, k);
            let same_ok = f.stale_same_term && k >= 1 && tk < cur_term && (k == len0 || term_of(&leader_model, k + 1) > tk);
            let s = if same_ok { tk } else if k == 0 { 1 } else { tk + 1 };
            if s < cur_term {
                for j in 0..f.stale as u64 {
                    fe.push(ent(k + 1 + j, s));
                }
                diverged = true;
                labels.push("follower_diverged");
                if same_ok {
                    labels.push("stale_tail_same_term_as_prefix");
                }
            }
        }
        if !diverged {
            labels.push(if k + 1 == next {
                "follower_matches_leader_belief"
            } else if k + 1 < next {
                "follower_lagging"
            } else {
                "follower_ahead_of_leader_belief"
            });
        }
        let fcommit = pick(f.commit, k as usize + 1) as u64;
        let flb = LogBox::open("c08-f", 10 + pi as u32);
        if !fe.is_empty() {
            flb.log.append_entries(fe.clone()).await.expect("follower append");
        }
        if let Some(pp) = f.purge {
            if fcommit >= 1 {
                let cut = 1 + pick(pp, fcommit as usize) as u64; // 1..=fcommit
                flb.log.purge_logs_up_to(lid(cut, term_of(&leader_model, cut))).await.expect("follower purge");
                labels.push("follower_purged");
            }
        }
        let fterm = if f.term_lag { fe.iter().map(|e| e.term).max().unwrap_or(0).min(cur_term) } else { cur_term };
        fols.push(FollowerState { lb: flb, current_term: fterm, commit: fcommit, next, diverged });
    }

    // ---------------- replication rounds ---------------------------------------------------------
    let mut leader_commit = leader_commit0;
    'rounds: for (rno, batch) in c.rounds.iter().enumerate() {
        // prepare_batch_requests: last index BEFORE the new entries, then generate_new_entries
        let last_before = leader.last_entry_id();
        let payloads: Vec<_> = (0..*batch as u64).map(|j| payload_for(last_before + 1 + j, cur_term)).collect();
        let new_entries = match handler.generate_new_entries(payloads, cur_term, &leader).await {
            Ok(v) => v,
            Err(_) => {
                labels.push("io_error_no_verdict");
                break 'rounds;
            }
        };
        for e in &new_entries {
            if e.index != leader_model.len() as u64 + 1 {
                viol.push("C08:new-entries-not-at-leader-tail", format!("generate_new_entries produced index {} with leader last {}", e.index, leader_model.len()));
            }
            leader_model.push(e.clone());
        }
        if rno > 0 {
            // commit may advance between rounds (other followers acknowledged)
            leader_commit = leader_commit.max(last_before.min(leader_commit + 2));
        }
        let min_log_index = leader.first_entry_id();
        let mut next_map: HashMap<u32, u64> = HashMap::new();
        next_map.insert(1, leader.last_entry_id() + 1); // the map also contains the leader itself; it is skipped by id
        for (pi, f) in fols.iter().enumerate() {
            next_map.insert(10 + pi as u32, f.next);
        }
        let data = ReplicationData { leader_last_index_before: last_before, current_term: cur_term, commit_index: leader_commit, peer_next_indices: next_map };
        let mut per_peer = handler.prepare_peer_entries(&new_entries, &data, c.cap as u64, &leader);

        for (pi, f) in fols.iter_mut().enumerate() {
            let pid = 10 + pi as u32;
            let next = f.next;
            if min_log_index > 1 && next < min_log_index {
                labels.push("snapshot_target_skipped");
                trace.extend([9, pid as u64, next]);
                continue;
            }
            let (_, req) = handler.build_append_request(&leader, pid, &mut per_peer, &data);
            let lag = (last_before + 1).saturating_sub(next);
            if lag > c.cap as u64 {
                labels.push("cap_lt_lag");
                if !new_entries.is_empty() {
                    labels.push("cap_lt_lag_with_new_batch");
                    nontrivial = true;
                }
            }
            if req.entries.is_empty() {
                labels.push("heartbeat_request");
            }
            if next == leader_boundary + 1 && leader_boundary > 0 {
                labels.push("prev_is_leader_purge_boundary");
            }
            trace.extend([1, pid as u64, req.prev_log_index, req.prev_log_term, req.entries.len() as u64, req.entries.first().map(|e| e.index).unwrap_or(0), req.entries.last().map(|e| e.index).unwrap_or(0)]);

            // ---------- oracle (a) -----------------------------------------------------------------
            let gapped = check_request(&req, next, last_before, c.cap as u64, &leader_model, &mut viol);
            if gapped {
                labels.push("gapped_request_built");
            }

            // ---------- follower --------------------------------------------------------------------
            let flog = f.lb.log.clone();
            let before = snapshot_of(&flog);
            let snap = StateSnapshot { role: NodeRole::Follower as i32, current_term: f.current_term, voted_for: None, commit_index: f.commit };
            let resp = match handler.handle_append_entries(req.clone(), &snap, &flog).await {
                Ok(r) => r,
                Err(_) => {
                    labels.push("io_error_no_verdict");
                    break 'rounds;
                }
            };
            f.current_term = f.current_term.max(req.term);
            if let Some(ci) = resp.commit_index_update {
                f.commit = ci;
            }
            let prev0 = req.prev_log_index == 0 && req.prev_log_term == 0;
            match resp.response.result {
                Some(append_entries_response::Result::Success(s)) => {
                    labels.push("follower_success");
                    let after = snapshot_of(&flog);
                    trace.extend([2, after.first().map(|e| e.index).unwrap_or(0), after.last().map(|e| e.index).unwrap_or(0), after.len() as u64]);
                    let matching_before: Vec<&Entry> = before.iter().filter(|e| leader_model.get((e.index - 1) as usize) == Some(*e)).collect();
                    if prev0 && !matching_before.is_empty() {
                        labels.push("prev0_onto_nonempty_matching_follower");
                        nontrivial = true;
                    }
                    let stale_before = before.iter().any(|e| leader_model.get((e.index - 1) as usize) != Some(e));
                    let stale_after = after.iter().any(|e| leader_model.get((e.index - 1) as usize) != Some(e));
                    if stale_before && !stale_after {
                        labels.push("follower_truncated_stale_tail");
                        f.diverged = false;
                    } else if stale_before {
                        labels.push("follower_keeps_stale_entries_after_success");
                    }
                    // (b1) no index gaps
                    let (first, last) = (flog.first_entry_id(), flog.last_entry_id());
                    let consecutive = after.windows(2).all(|w| w[1].index == w[0].index + 1);
                    let bounds_ok = if after.is_empty() { first == 0 && last == 0 } else { first == after[0].index && last == after.last().unwrap().index };
                    if !consecutive || !bounds_ok {
                        let sig = if gapped { "C08:follower-accepts-gapped-request" } else { "C08:follower-log-gap" };
                        viol.push(sig, format!("round {rno} peer {pid}: follower answered success to prev=({},{}) entries={} and now holds {} (first={first} last={last}); before: {}", req.prev_log_index, req.prev_log_term, show(&req.entries), show(&after), show(&before)));
                    }
                    // (b2) entries that agreed with the leader are still there
                    let lost: Vec<u64> = matching_before.iter().filter(|e| !after.iter().any(|a| a == **e)).map(|e| e.index).collect();
                    if !lost.is_empty() {
                        let sig = if prev0 {
                            "C08:prev-zero-reset-discards-matching-entries"
                        } else if gapped {
                            "C08:follower-accepts-gapped-request"
                        } else {
                            "C08:matching-entries-discarded"
                        };
                        viol.push(sig, format!("round {rno} peer {pid}: follower held {} ; request prev=({},{}) entries={} ; afterwards {} — entries {:?} were identical to the leader's and are gone", show(&before), req.prev_log_index, req.prev_log_term, show(&req.entries), show(&after), lost));
                    }
                    match handler.handle_success_response(pid, resp.response.term, s, cur_term) {
                        Ok(u) => {
                            let lim = leader.last_entry_id() + 1;
                            if u.next_index > lim {
                                labels.push("success_next_index_clamped");
                            }
                            f.next = u.next_index.clamp(1, lim);
                        }
                        Err(_) => labels.push("success_response_rejected"),
                    }
                }
                Some(append_entries_response::Result::Conflict(cf)) => {
                    labels.push("follower_conflict");
                    trace.extend([3, cf.conflict_term.unwrap_or(0), cf.conflict_index.unwrap_or(0)]);
                    let after = snapshot_of(&flog);
                    if after != before {
                        viol.push("C08:rejected-request-changed-follower-log", format!("round {rno} peer {pid}: conflict response but log changed from {} to {}", show(&before), show(&after)));
                    }
                    if let Ok(u) = handler.handle_conflict_response(pid, cf, &leader, next) {
                        let lim = leader.last_entry_id() + 1;
                        f.next = u.next_index.clamp(1, lim);
                        labels.push("conflict_hint_followed");
                    }
                }
                Some(append_entries_response::Result::HigherTerm(_)) | None => {
                    labels.push("follower_higher_term");
                }
            }
        }
    }

    for f in fols {
        f.lb.close().await;
    }
    llb.close().await;
    labels.sort();
    labels.dedup();
    for l in labels {
        out.add_label(l);
    }
    out.nontrivial = nontrivial;
    out.fingerprint = fp(&trace);
    viol.report("C08", &mut out);
    out
}

/// Oracle (a). Returns true when the request's entry list is not contiguous from prev+1.
fn check_request(req: &AppendEntriesRequest, next: u64, last_before: u64, cap: u64, leader_model: &[Entry], viol: &mut Violations) -> bool {
    let mut gapped = false;
    let prev = req.prev_log_index;
    let desc = || format!("next_index={next} leader_last_before={last_before} cap={cap}: request prev=({},{}) entries={}", prev, req.prev_log_term, show(&req.entries));
    if prev != next - 1 {
        viol.push("C08:prev-not-next-minus-one", desc());
    }
    let want_term = if prev == 0 { 0 } else { leader_model.get((prev - 1) as usize).map(|e| e.term).unwrap_or(0) };
    if req.prev_log_term != want_term {
        viol.push("C08:prev-term-mismatch", format!("{} ; leader's term at {prev} is {want_term}", desc()));
    }
    let legacy: Vec<&Entry> = req.entries.iter().filter(|e| e.index <= last_before).collect();
    if legacy.len() as u64 > cap {
        viol.push("C08:legacy-entries-exceed-cap", desc());
    }
    for (j, e) in req.entries.iter().enumerate() {
        if e.index != prev + 1 + j as u64 {
            gapped = true;
            let legacy_ok = legacy.iter().enumerate().all(|(i, x)| x.index == prev + 1 + i as u64);
            let newp: Vec<&Entry> = req.entries.iter().filter(|e| e.index > last_before).collect();
            let new_ok = newp.iter().enumerate().all(|(i, x)| x.index == last_before + 1 + i as u64);
            let sig = if j == 0 {
                "C08:first-entry-not-after-prev"
            } else if legacy_ok && new_ok && !newp.is_empty() && legacy.len() as u64 == cap && legacy.last().map(|x| x.index < last_before).unwrap_or(false) && j == legacy.len() {
                "C08:capped-legacy-plus-new-entries-gap"
            } else {
                "C08:request-indexes-not-consecutive"
            };
            viol.push(sig, format!("{} ; entries[{j}].index={} but prev+1+{j}={}", desc(), e.index, prev + 1 + j as u64));
            break;
        }
    }
    gapped
}
