//! C35 — multi-key reads return results aligned with the requested keys.
//!
//! A real single-node leader (`EmbeddedEngine`; FileStorageEngine + FileStateMachine or
//! RocksDBStorageEngine + RocksDBStateMachine, see `embedded_util`) is populated from a generated KV
//! model (puts through the embedded client, later puts overwrite earlier ones, empty values
//! included). Then generated key lists (1..12 keys, duplicates, missing keys) are read through
//! every reachable multi-key path:
//!   * EmbeddedClient: get_multi_linearizable (cmd_tx path + realignment), get_multi_eventual and
//!     LeaseRead (direct `SM::get_multi` fast path), ClientApi::get_multi, get_multi_with_policy(None/…)
//!   * StateMachine::get_multi on the engine's state machine (File / RocksDB)
//!   * DefaultStateMachineHandler::read_from_state_machine (found pairs only)
//!   * GrpcClient::get_multi_with_policy (None / Linearizable / Lease / Eventual) and
//!     ClientApi::get_multi against the node's real gRPC server (ReadActor fast path,
//!     `fast_path_batch_read_response`, cmd_tx path, client-side realignment)
//! Oracle: result.len() == keys.len() and result[i] == model.get(keys[i]) — `None` for a missing
//! key, `Some(empty)` for a key holding an empty value (the API documents `None` only "for keys that
//! don't exist").
use std::collections::BTreeMap;
use std::sync::atomic::AtomicUsize;
use std::sync::Arc;
use std::time::Duration;

use bytes::Bytes;
use d_engine_core::client::ClientApi;
use d_engine_core::config::ReadConsistencyPolicy;
use d_engine_core::{DefaultStateMachineHandler, LogSizePolicy, SnapshotConfig, StateMachine, StateMachineHandler, StorageEngine};
use proptest::prelude::*;
use serde::{Deserialize, Serialize};

use super::embedded_util as eu;
use crate::runner::{fp, pick, Check, Outcome, Tier};

#[derive(Clone, Copy, Debug, Serialize, Deserialize, Hash, PartialEq)]
pub enum Pol {
    Linearizable,
    Lease,
    Eventual,
}
impl Pol {
    fn to(self) -> ReadConsistencyPolicy {
        match self {
            Pol::Linearizable => ReadConsistencyPolicy::LinearizableRead,
            Pol::Lease => ReadConsistencyPolicy::LeaseRead,
            Pol::Eventual => ReadConsistencyPolicy::EventualConsistency,
        }
    }
}

#[derive(Clone, Debug, Serialize, Deserialize, Hash, PartialEq)]
pub enum Path {
    /// EmbeddedClient::get_multi_linearizable
    EmbLinearizable,
    /// EmbeddedClient::get_multi_eventual
    EmbEventual,
    /// EmbeddedClient::get_multi_with_consistency(policy)
    EmbConsistency(Pol),
    /// <EmbeddedClient as ClientApi>::get_multi
    EmbTraitGetMulti,
    /// <EmbeddedClient as ClientApi>::get_multi_with_policy(policy)
    EmbTraitPolicy(Option<Pol>),
    /// StateMachine::get_multi directly on the engine's state machine
    SmGetMulti,
    /// DefaultStateMachineHandler::read_from_state_machine
    HandlerRead,
    /// GrpcClient::get_multi_with_policy(keys, policy) (returns KvEntry per key)
    GrpcPolicy(Option<Pol>),
    /// <GrpcClient as ClientApi>::get_multi
    GrpcTraitGetMulti,
    /// <GrpcClient as ClientApi>::get_multi_with_policy
    GrpcTraitPolicy(Option<Pol>),
}

#[derive(Clone, Debug, Serialize, Deserialize, Hash, PartialEq)]
pub struct Read {
    /// indices into the key pool (model keys followed by the extra keys), mapped with `pick`
    pub keys: Vec<u16>,
    pub path: Path,
}

#[derive(Clone, Debug, Serialize, Deserialize, Hash)]
pub struct Case {
    pub rocks: bool,
    pub kv: Vec<(Vec<u8>, Vec<u8>)>,
    pub extra: Vec<Vec<u8>>,
    pub reads: Vec<Read>,
}

pub struct C35;

fn key_strategy() -> BoxedStrategy<Vec<u8>> {
    prop_oneof![
        1 => Just(vec![]),
        8 => prop::collection::vec(prop_oneof![Just(b'a'), Just(b'b'), Just(b'/'), Just(0u8), Just(0xFFu8)], 1..4),
        3 => prop::collection::vec(any::<u8>(), 1..12),
        1 => (100usize..600, any::<u8>(), any::<u8>()).prop_map(|(n, a, b)| (0..n).map(|i| a.wrapping_add((i as u8).wrapping_mul(b))).collect()),
    ]
    .boxed()
}
fn value_strategy() -> BoxedStrategy<Vec<u8>> {
    prop_oneof![
        3 => Just(vec![]),
        6 => prop::collection::vec(any::<u8>(), 1..6),
        1 => (100usize..2000, any::<u8>(), any::<u8>()).prop_map(|(n, a, b)| (0..n).map(|i| a.wrapping_add((i as u8).wrapping_mul(b))).collect()),
    ]
    .boxed()
}
fn pol_strategy() -> BoxedStrategy<Pol> {
    prop_oneof![Just(Pol::Linearizable), Just(Pol::Lease), Just(Pol::Eventual)].boxed()
}
fn path_strategy() -> BoxedStrategy<Path> {
    prop_oneof![
        3 => Just(Path::EmbLinearizable),
        2 => Just(Path::EmbEventual),
        3 => pol_strategy().prop_map(Path::EmbConsistency),
        1 => Just(Path::EmbTraitGetMulti),
        2 => prop::option::of(pol_strategy()).prop_map(Path::EmbTraitPolicy),
        2 => Just(Path::SmGetMulti),
        2 => Just(Path::HandlerRead),
        6 => prop::option::of(pol_strategy()).prop_map(Path::GrpcPolicy),
        1 => Just(Path::GrpcTraitGetMulti),
        2 => prop::option::of(pol_strategy()).prop_map(Path::GrpcTraitPolicy),
    ]
    .boxed()
}

impl Check for C35 {
    type Case = Case;
    fn id(&self) -> &'static str {
        "C35"
    }
    fn rule(&self) -> String {
        "cases = KV model of 0..6 puts (keys over {a,b,/,0x00,0xFF}^1..3, random, long, empty key; values empty/short/long; repeated keys overwrite) + 0..4 extra (mostly missing) keys, on the File or RocksDB engine, then 1..10 multi-key reads of 1..12 keys (with duplicates and missing keys) each through one of 10 paths {embedded linearizable / eventual / lease / trait get_multi / trait policy incl. None, StateMachine::get_multi, handler.read_from_state_machine, gRPC get_multi_with_policy incl. None, gRPC trait get_multi / policy}; non-trivial = some read has a duplicate key, a missing key, or a key holding an empty value; distinct by hash of (engine, model shape, per read: path, key index pattern, presence pattern)".into()
    }
    fn assumptions(&self) -> Vec<String> {
        vec![
            "one real single-node EmbeddedEngine per engine kind is reused by consecutive cases; every case first verifies the state machine is empty (len()==0) and deletes its own keys at the end; an engine showing any error is discarded and replaced".into(),
            "all writes are acknowledged (= applied on a single node, the leader answers after apply) before the first read, and no write runs concurrently with the reads, so Eventual / Lease reads must see the model too".into(),
            "Some(empty) is expected for a key holding an empty value: ClientApi documents None only for keys that don't exist".into(),
            "read_from_state_machine is documented to return found pairs only: it is checked for 'exactly the found pairs' (no alignment)".into(),
            "the gRPC client is connected to the engine's own listen address and verified with a marker key at engine start".into(),
        ]
    }
    fn cases(&self, tier: Tier) -> u32 {
        match tier {
            Tier::Quick => 1_500,
            Tier::Thorough => 18_000,
        }
    }
    fn required_labels(&self) -> Vec<&'static str> {
        vec!["read_with_duplicate", "read_with_missing", "read_with_empty_value", "path_emb_cmd_tx", "path_emb_fast", "path_grpc", "path_sm_direct", "path_handler", "engine_file", "engine_rocksdb"]
    }
    fn workers(&self) -> usize {
        8
    }
    fn max_shrink_iters(&self) -> u32 {
        1500
    }
    fn strategy(&self, _tier: Tier) -> BoxedStrategy<Case> {
        (
            prop::bool::weighted(0.3),
            prop::collection::vec((key_strategy(), value_strategy()), 0..7),
            prop::collection::vec(key_strategy(), 0..5),
            prop::collection::vec((prop::collection::vec(any::<u16>(), 1..13), path_strategy()).prop_map(|(keys, path)| Read { keys, path }), 1..11),
        )
            .prop_map(|(rocks, kv, extra, reads)| Case { rocks, kv, extra, reads })
            .boxed()
    }

    fn run(&self, c: &Case) -> Outcome {
        // ROCKS-BEGIN
        if c.rocks {
            let ctx = eu::checkout_rocks();
            let (out, healthy, ctx) = run_on(c, ctx);
            if healthy {
                eu::checkin_rocks(ctx);
            } else {
                eu::discard(ctx);
            }
            return out;
        }
        // ROCKS-END
        let ctx = eu::checkout_file();
        let (out, healthy, ctx) = run_on(c, ctx);
        if healthy {
            eu::checkin_file(ctx);
        } else {
            eu::discard(ctx);
        }
        out
    }
}

enum Got {
    Aligned(Vec<Option<Bytes>>),
    /// aligned, with the key echoed per found entry (GrpcClient::get_multi_with_policy)
    AlignedKv(Vec<Option<(Bytes, Bytes)>>),
    /// found pairs only
    Sparse(Vec<(Bytes, Bytes)>),
    Err(String),
    Unavailable,
}

fn run_on<SE, S>(c: &Case, mut ctx: eu::Ctx<SE, S>) -> (Outcome, bool, eu::Ctx<SE, S>)
where
    SE: StorageEngine + std::fmt::Debug + 'static,
    S: StateMachine + 'static,
{
    let mut out = Outcome::ok();
    out.add_label(if c.rocks { "engine_rocksdb" } else { "engine_file" });
    ctx.sm.clear_log();

    // model + key pool
    let mut model: BTreeMap<Vec<u8>, Vec<u8>> = BTreeMap::new();
    for (k, v) in &c.kv {
        model.insert(k.clone(), v.clone());
    }
    let mut pool: Vec<Vec<u8>> = c.kv.iter().map(|(k, _)| k.clone()).collect();
    pool.extend(c.extra.iter().cloned());
    if pool.is_empty() {
        pool.push(b"nokey".to_vec());
    }

    // ---- leftovers of a previous case? then this engine is not in the state the case assumes ----
    if !ctx.dirty.is_empty() || ctx.sm.len() != 0 {
        out.add_label("inconclusive_engine_not_clean");
        return (out, false, ctx);
    }

    let client = ctx.client.clone();
    let grpc = ctx.grpc.clone();
    let sm = ctx.sm.clone();
    let mut snap = SnapshotConfig::default();
    snap.snapshots_dir = ctx.dir.join("c35-snap");
    let handler: DefaultStateMachineHandler<eu::Tc<SE, S>> =
        DefaultStateMachineHandler::new(1, 0, sm.clone(), snap, LogSizePolicy::new(1_000_000_000, Duration::from_secs(3600)), None, Arc::new(AtomicUsize::new(0)));

    let kv = c.kv.clone();
    let reads = c.reads.clone();
    let pool2 = pool.clone();
    let model_keys: Vec<Vec<u8>> = model.keys().cloned().collect();

    let (populate_err, results, cleanup_ok, timing): (Option<String>, Vec<(Vec<Bytes>, Got)>, bool, Vec<(String, u64)>) = ctx.rt.block_on(async move {
        // populate
        let mut timing: Vec<(String, u64)> = vec![];
        let t0 = std::time::Instant::now();
        let mut perr = None;
        for (k, v) in &kv {
            if let Err(e) = client.put(k, v).await {
                perr = Some(format!("put failed: {e:?}"));
                break;
            }
        }
        timing.push(("us_populate".into(), t0.elapsed().as_micros() as u64));
        let mut results = vec![];
        if perr.is_none() {
            for r in &reads {
                let t1 = std::time::Instant::now();
                let keys: Vec<Bytes> = r.keys.iter().map(|i| Bytes::from(pool2[pick(*i, pool2.len())].clone())).collect();
                let conv = |r: d_engine_core::client::ClientApiResult<Vec<Option<Bytes>>>| match r {
                    Ok(v) => Got::Aligned(v),
                    Err(e) => Got::Err(format!("{e:?}")),
                };
                let got = match &r.path {
                    Path::EmbLinearizable => conv(client.get_multi_linearizable(&keys).await),
                    Path::EmbEventual => conv(client.get_multi_eventual(&keys).await),
                    Path::EmbConsistency(p) => conv(client.get_multi_with_consistency(&keys, p.to()).await),
                    Path::EmbTraitGetMulti => conv(ClientApi::get_multi(&*client, &keys).await),
                    Path::EmbTraitPolicy(p) => conv(ClientApi::get_multi_with_policy(&*client, &keys, p.map(|p| p.to())).await),
                    Path::SmGetMulti => match sm.get_multi(&keys) {
                        Ok(v) => Got::Aligned(v),
                        Err(e) => Got::Err(format!("{e:?}")),
                    },
                    Path::HandlerRead => Got::Sparse(handler.read_from_state_machine(keys.clone()).unwrap_or_default().into_iter().map(|e| (e.key, e.value)).collect()),
                    Path::GrpcPolicy(p) => match &grpc {
                        None => Got::Unavailable,
                        Some(g) => match g.get_multi_with_policy(keys.iter().cloned(), p.map(|p| p.to())).await {
                            Ok(v) => Got::AlignedKv(v.into_iter().map(|o| o.map(|e| (e.key, e.value))).collect()),
                            Err(e) => Got::Err(format!("{e:?}")),
                        },
                    },
                    Path::GrpcTraitGetMulti => match &grpc {
                        None => Got::Unavailable,
                        Some(g) => conv(ClientApi::get_multi(&**g, &keys).await),
                    },
                    Path::GrpcTraitPolicy(p) => match &grpc {
                        None => Got::Unavailable,
                        Some(g) => conv(ClientApi::get_multi_with_policy(&**g, &keys, p.map(|p| p.to())).await),
                    },
                };
                results.push((keys, got));
                let slot = match &r.path {
                    Path::EmbLinearizable | Path::EmbTraitGetMulti | Path::EmbConsistency(Pol::Linearizable) | Path::EmbTraitPolicy(None) | Path::EmbTraitPolicy(Some(Pol::Linearizable)) => "us_read_emb_linearizable",
                    Path::EmbEventual | Path::EmbConsistency(_) | Path::EmbTraitPolicy(_) => "us_read_emb_fast",
                    Path::SmGetMulti | Path::HandlerRead => "us_read_sm",
                    _ => "us_read_grpc",
                };
                timing.push((slot.into(), t1.elapsed().as_micros() as u64));
            }
        }
        let t2 = std::time::Instant::now();
        // cleanup: delete this case's keys
        let mut ok = true;
        for k in &model_keys {
            if client.delete(k).await.is_err() {
                ok = false;
            }
        }
        timing.push(("us_cleanup".into(), t2.elapsed().as_micros() as u64));
        (perr, results, ok, timing)
    });
    // wall-clock figures are evidence counters only, never part of the verdict
    for (k, v) in &timing {
        out.count(k, *v);
    }

    let mut healthy = cleanup_ok && populate_err.is_none();
    if healthy && ctx.sm.len() != 0 {
        healthy = false;
    }
    if !healthy {
        for k in model.keys() {
            ctx.dirty.insert(k.clone());
        }
    }
    if let Some(e) = populate_err {
        eprintln!("C35: populate failed ({e}); case inconclusive, engine discarded");
        out.add_label("inconclusive_populate_failed");
        return (out, false, ctx);
    }

    // ---- oracle ---------------------------------------------------------------------------------
    let mut nontrivial = false;
    let mut shape: Vec<(String, Vec<usize>, Vec<bool>)> = vec![];
    for (ri, ((keys, got), rd)) in results.iter().zip(c.reads.iter()).enumerate() {
        let want: Vec<Option<Bytes>> = keys.iter().map(|k| model.get(k.as_ref()).map(|v| Bytes::from(v.clone()))).collect();
        let has_dup = (0..keys.len()).any(|i| (0..i).any(|j| keys[i] == keys[j]));
        let has_missing = want.iter().any(|w| w.is_none());
        let has_empty_val = want.iter().any(|w| w.as_ref().is_some_and(|v| v.is_empty()));
        if has_dup {
            out.add_label("read_with_duplicate");
        }
        if has_missing {
            out.add_label("read_with_missing");
        }
        if has_empty_val {
            out.add_label("read_with_empty_value");
        }
        if keys.iter().any(|k| k.is_empty()) {
            out.add_label("read_with_empty_key");
        }
        nontrivial |= has_dup || has_missing || has_empty_val;
        let (plabel, pslug): (&str, String) = match &rd.path {
            Path::EmbLinearizable | Path::EmbTraitGetMulti | Path::EmbConsistency(Pol::Linearizable) | Path::EmbTraitPolicy(None) | Path::EmbTraitPolicy(Some(Pol::Linearizable)) => ("path_emb_cmd_tx", "embedded-cmd-tx".into()),
            Path::EmbEventual | Path::EmbConsistency(_) | Path::EmbTraitPolicy(Some(_)) => ("path_emb_fast", "embedded-fast-path".into()),
            Path::SmGetMulti => ("path_sm_direct", if c.rocks { "rocksdb-sm-get-multi".into() } else { "file-sm-get-multi".into() }),
            Path::HandlerRead => ("path_handler", "handler-read".into()),
            Path::GrpcPolicy(Some(Pol::Eventual)) | Path::GrpcPolicy(Some(Pol::Lease)) | Path::GrpcTraitPolicy(Some(Pol::Eventual)) | Path::GrpcTraitPolicy(Some(Pol::Lease)) => ("path_grpc", "grpc-fast-path".into()),
            Path::GrpcPolicy(_) | Path::GrpcTraitGetMulti | Path::GrpcTraitPolicy(_) => ("path_grpc", "grpc-cmd-tx".into()),
        };
        // key index pattern (first occurrence index) — independent of the key bytes
        let pattern: Vec<usize> = keys.iter().map(|k| keys.iter().position(|x| x == k).unwrap()).collect();
        shape.push((format!("{:?}", rd.path), pattern, want.iter().map(|w| w.is_some()).collect()));

        let describe = |v: &Vec<Option<Bytes>>| -> String {
            v.iter()
                .map(|o| match o {
                    None => "None".to_string(),
                    Some(b) if b.len() <= 8 => format!("{:?}", b.as_ref()),
                    Some(b) => format!("[{}B]", b.len()),
                })
                .collect::<Vec<_>>()
                .join(",")
        };
        let keys_s: Vec<String> = keys.iter().map(|k| if k.len() <= 8 { format!("{:?}", k.as_ref()) } else { format!("[{}B]", k.len()) }).collect();

        let judge_aligned = |got: &Vec<Option<Bytes>>, out: &mut Outcome| {
            if got.len() != keys.len() {
                let why = if has_dup { "with-duplicates" } else { "plain" };
                out.violate(format!("C35:result-length-mismatch-{why}@{pslug}"), format!("read #{ri} path {:?}: {} results for {} keys {:?}", rd.path, got.len(), keys.len(), keys_s));
                return;
            }
            for i in 0..keys.len() {
                if got[i] != want[i] {
                    let cls = match (&want[i], &got[i]) {
                        (Some(w), None) if w.is_empty() => "empty-value-reported-absent",
                        (Some(_), None) => {
                            if keys[..i].contains(&keys[i]) || keys[i + 1..].contains(&keys[i]) {
                                "duplicate-key-reported-absent"
                            } else {
                                "present-key-reported-absent"
                            }
                        }
                        (None, Some(_)) => "missing-key-has-value",
                        _ => "wrong-value-for-position",
                    };
                    out.violate(
                        format!("C35:{cls}@{pslug}"),
                        format!("read #{ri} path {:?}: keys {:?}: position {i}: want [{}] got [{}]", rd.path, keys_s, describe(&want), describe(got)),
                    );
                    return;
                }
            }
        };

        match got {
            Got::Unavailable => out.add_label("grpc_unavailable"),
            Got::Err(e) => {
                // an error is not a misaligned result; never judged, but the engine is not trusted any more
                out.add_label("read_error");
                eprintln!("C35: read #{ri} via {:?} failed: {e}", rd.path);
                healthy = false;
            }
            Got::Aligned(v) => {
                out.add_label(plabel);
                judge_aligned(v, &mut out);
            }
            Got::AlignedKv(v) => {
                out.add_label(plabel);
                let vals: Vec<Option<Bytes>> = v.iter().map(|o| o.as_ref().map(|(_, val)| val.clone())).collect();
                judge_aligned(&vals, &mut out);
                if out.violation.is_none() && v.len() == keys.len() {
                    for i in 0..keys.len() {
                        if let Some((k, _)) = &v[i] {
                            if *k != keys[i] {
                                out.violate(format!("C35:result-key-differs-from-requested-key@{pslug}"), format!("read #{ri}: position {i} requested {:?}, entry key {:?}", keys_s[i], k));
                            }
                        }
                    }
                }
            }
            Got::Sparse(pairs) => {
                out.add_label(plabel);
                for (k, v) in pairs {
                    match model.get(k.as_ref()) {
                        Some(mv) if keys.contains(k) && mv.as_slice() == v.as_ref() => {}
                        _ => {
                            out.violate("C35:handler-read-returns-wrong-pair", format!("read #{ri}: pair ({:?},{:?}) is not a requested+present pair; keys {:?}", k, v, keys_s));
                        }
                    }
                }
                for (i, k) in keys.iter().enumerate() {
                    if want[i].is_some() && !pairs.iter().any(|(pk, _)| pk == k) {
                        out.violate("C35:handler-read-omits-present-key", format!("read #{ri}: present key {:?} not returned; keys {:?}", keys_s[i], keys_s));
                    }
                }
            }
        }
    }
    out.labels.sort();
    out.labels.dedup();
    out.nontrivial = nontrivial;
    out.fingerprint = fp(&(c.rocks, model.len(), model.values().filter(|v| v.is_empty()).count(), shape));
    (out, healthy, ctx)
}
