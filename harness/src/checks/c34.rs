//! C34 — accepted configurations satisfy the safety timing constraints.
//! Generator: numeric fields from boundary pools + constructive placement around every comparison.
//! Oracle: validate()==Ok  =>  (u128 arithmetic) lease + rtt/2 < election_min < election_max, and
//! heartbeat / batch / merge / per-request cap != 0, retained_log_entries >= 1.
use std::path::PathBuf;
use std::time::Duration;

use d_engine_core::{RaftConfig, RaftNodeConfig};
use proptest::prelude::*;
use serde::{Deserialize, Serialize};

use crate::runner::{fp, Check, Outcome, Tier};

#[derive(Clone, Debug, Serialize, Deserialize, Hash)]
pub struct Case {
    pub lease: u64,
    pub rtt: u64,
    pub emin: u64,
    pub emax: u64,
    pub heartbeat: u64,
    pub max_batch: u64,
    pub max_merge: u64,
    pub per_req: u64,
    pub retained: u64,
    pub catchup: u64,
    pub general_timeout: u64,
    pub max_log_before_snapshot: u64,
    pub chunk_size: u64,
    pub via_node_config: bool,
    /// server read configuration (the timing constraints must not depend on it): 0 = lease, 1 = linearizable, 2 = eventual
    #[serde(default = "one")]
    pub default_policy: u8,
    #[serde(default = "yes")]
    pub allow_override: bool,
}
fn one() -> u8 {
    1
}
fn yes() -> bool {
    true
}

/// The property id this run reports under: "C34", or "C12" for the configuration clause of C12
/// (only the lease/election inequality is judged then).
#[derive(Clone)]
pub struct C34(pub &'static str);

fn pool() -> BoxedStrategy<u64> {
    prop_oneof![
        3 => prop_oneof![Just(0u64), Just(1), Just(2), Just(3)],
        3 => 1u64..2000,
        1 => prop_oneof![Just((1u64 << 32) - 1), Just(1u64 << 32), Just((1u64 << 32) + 1)],
        1 => prop_oneof![Just((1u64 << 48) - 1), Just(1u64 << 48), Just((1u64 << 48) + 1)],
        2 => (0u64..4).prop_map(|k| u64::MAX - k),
        1 => any::<u64>(),
    ]
    .boxed()
}
fn mostly_valid(default: u64) -> BoxedStrategy<u64> {
    prop_oneof![30 => Just(default), 1 => Just(0u64), 1 => Just(1u64), 1 => pool()].boxed()
}

impl Check for C34 {
    type Case = Case;
    fn id(&self) -> &'static str {
        self.0
    }
    fn rule(&self) -> String {
        "cases = numeric RaftConfig fields drawn from boundary pools {0,1,2,3, 2^32±1, 2^48±1, u64::MAX-k, random} with the lease/rtt/election triple also placed constructively at distance -2..=2 around each comparison; non-trivial = validate() accepted the config OR the lease/election comparison is within ±2 of its boundary; distinct by hash of all generated fields".into()
    }
    fn assumptions(&self) -> Vec<String> {
        vec![
            "RaftConfig::validate (and RaftNodeConfig::validate on an otherwise default node config) is the validation users go through".into(),
            "snapshots_dir points at a writable scratch directory so directory validation cannot mask numeric checks".into(),
        ]
    }
    fn cases(&self, tier: Tier) -> u32 {
        match tier {
            Tier::Quick => 300_000,
            Tier::Thorough => 5_000_000,
        }
    }
    fn required_labels(&self) -> Vec<&'static str> {
        vec!["accepted", "near_boundary"]
    }
    fn strategy(&self, _tier: Tier) -> BoxedStrategy<Case> {
        let triple = prop_oneof![
            // constructive: lease + rtt/2 = emin + d, emax = emin + e
            3 => (pool(), pool(), -2i64..=2, -2i64..=2).prop_map(|(emin, rtt, d, e)| {
                let half = rtt / 2;
                let lease = (emin as i128 + d as i128 - half as i128).clamp(0, u64::MAX as i128) as u64;
                let emax = (emin as i128 + e as i128).clamp(0, u64::MAX as i128) as u64;
                (lease, rtt, emin, emax)
            }),
            // constructive with a comfortable emax
            6 => (1u64..5000, 0u64..50, -2i64..=2, 1u64..5000).prop_map(|(emin, rtt, d, gap)| {
                let half = rtt / 2;
                let lease = (emin as i128 + d as i128 - half as i128).clamp(0, u64::MAX as i128) as u64;
                (lease, rtt, emin, emin.saturating_add(gap))
            }),
            // overflow region
            2 => (pool(), pool(), pool(), pool()),
        ];
        (
            triple,
            mostly_valid(100),
            mostly_valid(100),
            mostly_valid(1000),
            mostly_valid(100),
            mostly_valid(1),
            mostly_valid(1),
            mostly_valid(50),
            mostly_valid(1000),
            mostly_valid(1024),
            (any::<bool>(), 0u8..3, any::<bool>()),
        )
            .prop_map(
                |((lease, rtt, emin, emax), heartbeat, max_batch, max_merge, per_req, retained, catchup, general_timeout, mlbs, chunk_size, (via, default_policy, allow_override))| Case {
                    default_policy,
                    allow_override,
                    lease,
                    rtt,
                    emin,
                    emax,
                    heartbeat,
                    max_batch,
                    max_merge,
                    per_req,
                    retained,
                    catchup,
                    general_timeout,
                    max_log_before_snapshot: mlbs,
                    chunk_size,
                    via_node_config: via,
                },
            )
            .boxed()
    }

    fn run(&self, c: &Case) -> Outcome {
        let mut out = Outcome::ok();
        let mut raft = RaftConfig::default();
        raft.read_consistency.lease_duration_ms = c.lease;
        raft.read_consistency.default_policy = match c.default_policy {
            0 => d_engine_core::ReadConsistencyPolicy::LeaseRead,
            2 => d_engine_core::ReadConsistencyPolicy::EventualConsistency,
            _ => d_engine_core::ReadConsistencyPolicy::LinearizableRead,
        };
        raft.read_consistency.allow_client_override = c.allow_override;
        raft.read_consistency.network_rtt_p99_ms = c.rtt;
        raft.election.election_timeout_min = c.emin;
        raft.election.election_timeout_max = c.emax;
        raft.replication.rpc_append_entries_clock_in_ms = c.heartbeat;
        raft.batching.max_batch_size = c.max_batch as usize;
        raft.batching.max_merge_entries = c.max_merge as usize;
        raft.replication.append_entries_max_entries_per_replication = c.per_req;
        raft.snapshot.retained_log_entries = c.retained;
        raft.learner_catchup_threshold = c.catchup;
        raft.general_raft_timeout_duration_in_ms = c.general_timeout;
        raft.snapshot.max_log_entries_before_snapshot = c.max_log_before_snapshot;
        raft.snapshot.chunk_size = c.chunk_size as usize;
        raft.snapshot.snapshots_dir = scratch_dir();
        let _ = Duration::from_secs(0);

        let accepted = if c.via_node_config {
            let mut node = base_node_config();
            node.raft = raft.clone();
            node.validate().is_ok()
        } else {
            raft.validate().is_ok()
        };

        let lhs = c.lease as u128 + (c.rtt / 2) as u128;
        let near = {
            let d = lhs as i128 - c.emin as i128;
            let e = c.emax as i128 - c.emin as i128;
            (-2..=2).contains(&d) || (-2..=2).contains(&e)
        };
        if accepted {
            out.add_label("accepted");
        } else {
            out.add_label("rejected");
        }
        if near {
            out.add_label("near_boundary");
        }
        if c.via_node_config {
            out.add_label("via_node_config");
        }
        if lhs > u64::MAX as u128 || c.lease > (1 << 48) {
            out.add_label("overflow_range");
        }
        out.nontrivial = accepted || near;
        out.fingerprint = fp(c);

        if accepted {
            if !(lhs < c.emin as u128) {
                out.violate(
                    format!("{}:lease-not-below-election-min", self.0),
                    format!("accepted lease={} rtt={} (lease+rtt/2={}) election_min={} default_policy={} allow_client_override={}", c.lease, c.rtt, lhs, c.emin, c.default_policy, c.allow_override),
                );
            } else if self.0 != "C34" {
                // configuration clause of C12: only the lease window is judged
            } else if !(c.emin < c.emax) {
                out.violate("C34:election-min-not-below-max", format!("accepted election_min={} election_max={}", c.emin, c.emax));
            } else if c.heartbeat == 0 {
                out.violate("C34:zero-heartbeat", "accepted rpc_append_entries_clock_in_ms=0");
            } else if c.max_batch as usize == 0 {
                out.violate("C34:zero-batch", "accepted batching.max_batch_size=0");
            } else if c.max_merge as usize == 0 {
                out.violate("C34:zero-merge", "accepted batching.max_merge_entries=0");
            } else if c.per_req == 0 {
                out.violate("C34:zero-per-request-cap", "accepted append_entries_max_entries_per_replication=0");
            } else if c.retained < 1 {
                out.violate("C34:zero-retained", "accepted retained_log_entries=0");
            }
        }
        out
    }
}

fn scratch_dir() -> PathBuf {
    let p = crate::runner::verif_root().join("work").join(format!("{}", std::process::id())).join("c34-snapdir");
    let _ = std::fs::create_dir_all(&p);
    p
}

/// A node config whose non-raft sections validate, so that RaftNodeConfig::validate reaches raft.validate().
fn base_node_config() -> RaftNodeConfig {
    use d_engine_proto::common::{NodeRole, NodeStatus};
    use d_engine_proto::server::cluster::NodeMeta;
    let mut n = RaftNodeConfig::default();
    let root = crate::runner::verif_root().join("work").join(format!("{}", std::process::id())).join("c34-node");
    n.cluster.node_id = 1;
    n.cluster.initial_cluster = vec![NodeMeta {
        id: 1,
        address: "127.0.0.1:9081".into(),
        role: NodeRole::Follower as i32,
        status: NodeStatus::Active as i32,
    }];
    n.cluster.db_root_dir = root.join("db");
    n.cluster.log_dir = root.join("logs");
    n
}

/// True when the base node config itself validates with a default raft section
/// (otherwise the via_node_config path would be vacuous).
pub fn base_node_config_is_valid() -> bool {
    let mut n = base_node_config();
    n.raft.snapshot.snapshots_dir = scratch_dir();
    n.validate().is_ok()
}
