//! Shared helpers for the storage checks (C18, C20, C21):
//!  * `SimDisk` — an in-memory `StorageEngine` with a page-cache / durable split and a full event
//!    history, so that a crash (process crash = page cache survives, power loss = only flushed data
//!    survives) can be evaluated at every mutation event of one execution;
//!  * entry construction with unique content ids;
//!  * child-process plumbing for crash injection into the real File / RocksDB engines.
use std::collections::BTreeMap;
use std::ops::RangeInclusive;
use std::path::{Path, PathBuf};
use std::sync::{Arc, Mutex};

use async_trait::async_trait;
use bytes::Bytes;
use d_engine_core::{Error, HardState, LogStore, MetaStore, StorageEngine};
use d_engine_proto::common::{entry_payload::Payload, Entry, EntryPayload, LogId};
use serde::{Deserialize, Serialize};

// ------------------------------------------------------------------------------------------------
// entries
// ------------------------------------------------------------------------------------------------

/// An entry whose payload carries a unique id, so that two writes to the same index are always
/// distinguishable by content.
pub fn mk_entry(index: u64, term: u64, uid: u32) -> Entry {
    Entry {
        index,
        term,
        payload: Some(EntryPayload::command(Bytes::from(uid.to_be_bytes().to_vec()))),
    }
}

pub fn uid_of(e: &Entry) -> Option<u32> {
    match e.payload.as_ref()?.payload.as_ref()? {
        Payload::Command(b) if b.len() == 4 => Some(u32::from_be_bytes([b[0], b[1], b[2], b[3]])),
        _ => None,
    }
}

/// Compact, serialisable view of an entry: (index, term, uid). uid = u32::MAX when undecodable.
pub type Ent = (u64, u64, u32);
pub fn ent_of(e: &Entry) -> Ent {
    (e.index, e.term, uid_of(e).unwrap_or(u32::MAX))
}
pub fn ents_of(v: &[Entry]) -> Vec<Ent> {
    v.iter().map(ent_of).collect()
}

// ------------------------------------------------------------------------------------------------
// SimDisk
// ------------------------------------------------------------------------------------------------

#[derive(Clone, Debug, Default, PartialEq)]
pub struct Image {
    pub ents: BTreeMap<u64, Entry>,
    pub boundary: Option<LogId>,
}

#[derive(Debug)]
struct SimState {
    cache: Arc<Image>,
    durable: Arc<Image>,
    /// (page-cache image, durable image) after event k; index 0 = initial state.
    hist: Vec<(Arc<Image>, Arc<Image>)>,
    hard_state: Option<HardState>,
}

/// Shared handle: the engine, its log store and the test interpreter all see the same state.
#[derive(Clone)]
pub struct SimHandle {
    st: Arc<Mutex<SimState>>,
    /// when set, async store operations yield to the scheduler before each mutation, so that the
    /// caller can interleave its own calls (and crashes) with a half-done IO-task step.
    yield_inside: bool,
    /// called at the start of every store call (before it takes effect): lets the test observe the
    /// log through its public API at instants that lie inside an IO-task step
    probe: Arc<Mutex<Option<Box<dyn FnMut() + Send>>>>,
}

impl SimHandle {
    pub fn set_probe(&self, f: Option<Box<dyn FnMut() + Send>>) {
        *self.probe.lock().unwrap() = f;
    }
    fn run_probe(&self) {
        let mut g = self.probe.lock().unwrap();
        if let Some(f) = g.as_mut() {
            f();
        }
    }
    pub fn new(initial: Image, yield_inside: bool) -> Self {
        let img = Arc::new(initial);
        SimHandle {
            st: Arc::new(Mutex::new(SimState {
                cache: img.clone(),
                durable: img.clone(),
                hist: vec![(img.clone(), img)],
                hard_state: None,
            })),
            yield_inside,
            probe: Arc::new(Mutex::new(None)),
        }
    }
    /// number of mutation events so far
    pub fn events(&self) -> usize {
        self.st.lock().unwrap().hist.len() - 1
    }
    /// (page-cache image, durable image) right after event `k`
    pub fn at(&self, k: usize) -> (Arc<Image>, Arc<Image>) {
        let st = self.st.lock().unwrap();
        st.hist[k].clone()
    }
    fn mutate(&self, f: impl FnOnce(&mut Image)) {
        self.run_probe();
        let mut st = self.st.lock().unwrap();
        let mut img = (*st.cache).clone();
        f(&mut img);
        st.cache = Arc::new(img);
        let pair = (st.cache.clone(), st.durable.clone());
        st.hist.push(pair);
    }
    async fn maybe_yield(&self) {
        if self.yield_inside {
            tokio::task::yield_now().await;
        }
    }
}

impl std::fmt::Debug for SimHandle {
    fn fmt(&self, f: &mut std::fmt::Formatter<'_>) -> std::fmt::Result {
        f.debug_struct("SimHandle").finish()
    }
}

#[derive(Debug)]
pub struct SimLog(SimHandle);
#[derive(Debug)]
pub struct SimMeta(SimHandle);

#[derive(Debug)]
pub struct SimDisk {
    log: Arc<SimLog>,
    meta: Arc<SimMeta>,
}
impl SimDisk {
    pub fn new(h: SimHandle) -> Self {
        SimDisk { log: Arc::new(SimLog(h.clone())), meta: Arc::new(SimMeta(h)) }
    }
}
impl StorageEngine for SimDisk {
    type LogStore = SimLog;
    type MetaStore = SimMeta;
    fn log_store(&self) -> Arc<SimLog> {
        self.log.clone()
    }
    fn meta_store(&self) -> Arc<SimMeta> {
        self.meta.clone()
    }
}

#[async_trait]
impl LogStore for SimLog {
    /// Not atomic: one mutation event per entry (the trait promises no batch atomicity).
    async fn persist_entries(&self, entries: Vec<Entry>) -> Result<(), Error> {
        for e in entries {
            self.0.maybe_yield().await;
            self.0.mutate(|img| {
                img.ents.insert(e.index, e);
            });
        }
        Ok(())
    }
    async fn entry(&self, index: u64) -> Result<Option<Entry>, Error> {
        Ok(self.0.st.lock().unwrap().cache.ents.get(&index).cloned())
    }
    fn get_entries(&self, range: RangeInclusive<u64>) -> Result<Vec<Entry>, Error> {
        if range.start() > range.end() {
            return Ok(vec![]);
        }
        Ok(self.0.st.lock().unwrap().cache.ents.range(range).map(|(_, e)| e.clone()).collect())
    }
    async fn purge(&self, cutoff: LogId) -> Result<(), Error> {
        self.0.maybe_yield().await;
        self.0.mutate(|img| {
            img.ents.retain(|&i, _| i > cutoff.index);
            img.boundary = Some(cutoff);
        });
        Ok(())
    }
    async fn truncate(&self, from_index: u64) -> Result<(), Error> {
        self.0.maybe_yield().await;
        self.0.mutate(|img| {
            img.ents.retain(|&i, _| i < from_index);
        });
        Ok(())
    }
    /// Atomic, as the trait documents: a single mutation event.
    async fn replace_range(&self, from_index: u64, new_entries: Vec<Entry>) -> Result<(), Error> {
        self.0.maybe_yield().await;
        self.0.mutate(|img| {
            img.ents.retain(|&i, _| i < from_index);
            for e in new_entries {
                img.ents.insert(e.index, e);
            }
        });
        Ok(())
    }
    fn is_write_durable(&self) -> bool {
        false
    }
    fn flush(&self) -> Result<(), Error> {
        self.0.run_probe();
        let mut st = self.0.st.lock().unwrap();
        st.durable = st.cache.clone();
        let pair = (st.cache.clone(), st.durable.clone());
        st.hist.push(pair);
        Ok(())
    }
    async fn flush_async(&self) -> Result<(), Error> {
        self.flush()
    }
    async fn reset(&self) -> Result<(), Error> {
        self.0.maybe_yield().await;
        self.0.mutate(|img| {
            img.ents.clear();
        });
        Ok(())
    }
    fn last_index(&self) -> u64 {
        self.0.st.lock().unwrap().cache.ents.keys().next_back().copied().unwrap_or(0)
    }
    fn load_purge_boundary(&self) -> Result<Option<LogId>, Error> {
        Ok(self.0.st.lock().unwrap().cache.boundary)
    }
}

#[async_trait]
impl MetaStore for SimMeta {
    fn save_hard_state(&self, state: &HardState) -> Result<(), Error> {
        self.0.st.lock().unwrap().hard_state = Some(*state);
        Ok(())
    }
    fn load_hard_state(&self) -> Result<Option<HardState>, Error> {
        Ok(self.0.st.lock().unwrap().hard_state)
    }
}

// ------------------------------------------------------------------------------------------------
// child processes
// ------------------------------------------------------------------------------------------------

#[derive(Clone, Copy, Debug, PartialEq, Eq)]
pub enum ChildExit {
    /// exited with code 0 (ran to completion without reaching its crash point)
    Completed,
    /// killed by SIGABRT (crashed as requested)
    Aborted,
}

/// Spawns `dverif __child <module> <spec-file>`; the spec is written to `<dir>/<name>`.
/// Anything other than a clean exit or an abort is a harness-internal error (panic -> exit 2).
pub fn spawn_child<S: Serialize>(module: &str, dir: &Path, name: &str, spec: &S) -> ChildExit {
    use std::os::unix::process::ExitStatusExt;
    let spec_path = dir.join(name);
    std::fs::write(&spec_path, serde_json::to_vec(spec).expect("spec json")).expect("write child spec");
    let exe = std::env::current_exe().expect("current_exe");
    let status = std::process::Command::new(exe)
        .arg("__child")
        .arg(module)
        .arg(&spec_path)
        .stdin(std::process::Stdio::null())
        .stdout(std::process::Stdio::null())
        .stderr(std::process::Stdio::null())
        .status()
        .expect("spawn child");
    if status.success() {
        ChildExit::Completed
    } else if status.signal() == Some(libc::SIGABRT) {
        ChildExit::Aborted
    } else {
        panic!("harness: child {module} {spec_path:?} ended unexpectedly: {status:?}");
    }
}

pub fn read_spec<S: for<'de> Deserialize<'de>>(path: &str) -> S {
    let s = std::fs::read_to_string(path).expect("read child spec");
    serde_json::from_str(&s).expect("decode child spec")
}

/// Simulated process crash: no destructors, no buffered-writer flushes, no core file.
pub fn crash_now() -> ! {
    unsafe {
        let lim = libc::rlimit { rlim_cur: 0, rlim_max: 0 };
        libc::setrlimit(libc::RLIMIT_CORE, &lim);
    }
    std::process::abort()
}

/// Append-only observation log written by a child with one `write` per record (nothing buffered in
/// user space, so every completed record survives the abort).
pub struct ObsLog(std::fs::File);
impl ObsLog {
    pub fn create(path: &Path) -> Self {
        ObsLog(std::fs::OpenOptions::new().create(true).append(true).open(path).expect("obs log"))
    }
    pub fn put<T: Serialize>(&mut self, rec: &T) {
        use std::io::Write;
        let mut line = serde_json::to_vec(rec).expect("obs json");
        line.push(b'\n');
        self.0.write_all(&line).expect("obs write");
    }
}
/// Reads all *complete* records (a torn last line is ignored).
pub fn read_obs<T: for<'de> Deserialize<'de>>(path: &Path) -> Vec<T> {
    let s = std::fs::read_to_string(path).unwrap_or_default();
    let mut out = vec![];
    for line in s.split_inclusive('\n') {
        if !line.ends_with('\n') {
            break;
        }
        match serde_json::from_str::<T>(line.trim_end()) {
            Ok(v) => out.push(v),
            Err(_) => break,
        }
    }
    out
}

pub fn sub_dir(root: &Path, name: &str) -> PathBuf {
    let p = root.join(name);
    std::fs::create_dir_all(&p).expect("create sub dir");
    p
}

/// Signatures of open known findings of `property` (read once per process). Used by the storage
/// checks only to choose WHICH violation of a case to report when a case shows several root causes:
/// an unknown one is preferred, so that a known defect cannot mask a new one.
pub fn known_open(property: &str) -> Vec<String> {
    use std::sync::OnceLock;
    static ALL: OnceLock<Vec<crate::runner::KnownFinding>> = OnceLock::new();
    ALL.get_or_init(crate::runner::load_known_findings)
        .iter()
        .filter(|k| k.property == property && k.status == "open")
        .map(|k| k.signature.clone())
        .collect()
}

/// Collects every deviation of a case and reports one: the first whose signature is not an open
/// known finding, else the first.
#[derive(Default)]
pub struct Findings(pub Vec<(String, String)>);
impl Findings {
    pub fn add(&mut self, sig: impl Into<String>, detail: impl Into<String>) {
        let sig = sig.into();
        if !self.0.iter().any(|(s, _)| *s == sig) {
            self.0.push((sig, detail.into()));
        }
    }
    pub fn has(&self, sig: &str) -> bool {
        self.0.iter().any(|(s, _)| s == sig)
    }
    pub fn report(&self, property: &str, out: &mut crate::runner::Outcome) {
        let known = known_open(property);
        for (s, _) in &self.0 {
            out.count(&format!("hit:{s}"), 1);
        }
        if std::env::var_os("VERIF_SURVEY").is_some() {
            // development aid: list every distinct signature once (stderr) instead of stopping at the first
            use std::sync::Mutex;
            static SEEN: Mutex<Vec<String>> = Mutex::new(Vec::new());
            let mut seen = SEEN.lock().unwrap();
            for (s, d) in &self.0 {
                if !seen.contains(s) {
                    seen.push(s.clone());
                    eprintln!("SURVEY {s} :: {d}");
                }
            }
            return;
        }
        let pick = self.0.iter().find(|(s, _)| !known.contains(s)).or_else(|| self.0.first());
        if let Some((s, d)) = pick {
            out.violate(s.clone(), d.clone());
        }
    }
}

#[allow(dead_code)]
pub fn hs_eq(a: &Option<HardState>, b: &Option<HardState>) -> bool {
    match (a, b) {
        (None, None) => true,
        (Some(x), Some(y)) => x.current_term == y.current_term && x.voted_for == y.voted_for,
        _ => false,
    }
}
