//! Shared reference model + engine helpers for the state-machine checks (C22, C15, C23, C25).
//!
//! * `B`       — byte string with a compact (hex) JSON form, so replay files stay readable.
//! * `Cmd`     — one key-value command as a client can produce it (put / put-with-TTL / delete /
//!               CAS / no-op); `to_entries` turns commands into `ApplyEntry`s, optionally through
//!               the real wire path (`WriteCommand` proto -> `decode_entries`).
//! * `KvModel` — reference semantics: BTreeMap contents, per-entry success flag exactly as
//!               `ApplyResult::succeeded` is documented (PUT/DELETE/NOOP always true, CAS true iff the
//!               compare matched; absent matches `None`, `Some(b"")` != `None`), TTL map key->expiry
//!               (cancelled by delete and by a put without TTL), scan = `starts_with(prefix)`.
//! * `Engine` / `open_sm` — opens a File / RocksDB state machine on a directory exactly as a node
//!               does: `new(dir)` + `set_lease(TtlLease::new(LeaseConfig::default()))` + `start()`.
use std::collections::BTreeMap;
use std::path::Path;
use std::sync::Arc;

use bytes::Bytes;
use d_engine_core::{ApplyEntry, Command, LeaseConfig, StateMachine};
use d_engine_server::storage::TtlLease;
use d_engine_server::{FileStateMachine, RocksDBStateMachine};
use serde::{Deserialize, Deserializer, Serialize, Serializer};

// ---------------------------------------------------------------------------------------------
// byte strings
// ---------------------------------------------------------------------------------------------
#[derive(Clone, PartialEq, Eq, Hash, PartialOrd, Ord, Default)]
pub struct B(pub Vec<u8>);

impl B {
    pub fn bytes(&self) -> Bytes {
        Bytes::from(self.0.clone())
    }
}
impl From<&[u8]> for B {
    fn from(s: &[u8]) -> Self {
        B(s.to_vec())
    }
}
impl std::fmt::Debug for B {
    fn fmt(&self, f: &mut std::fmt::Formatter<'_>) -> std::fmt::Result {
        write!(f, "x\"{}\"", hex(&self.0))
    }
}
pub fn hex(b: &[u8]) -> String {
    let mut s = String::with_capacity(b.len() * 2);
    for x in b {
        s.push_str(&format!("{x:02x}"));
    }
    s
}
impl Serialize for B {
    fn serialize<S: Serializer>(&self, s: S) -> Result<S::Ok, S::Error> {
        s.serialize_str(&hex(&self.0))
    }
}
impl<'de> Deserialize<'de> for B {
    fn deserialize<D: Deserializer<'de>>(d: D) -> Result<Self, D::Error> {
        let s = String::deserialize(d)?;
        if s.len() % 2 != 0 {
            return Err(serde::de::Error::custom("odd hex length"));
        }
        let mut v = Vec::with_capacity(s.len() / 2);
        for i in (0..s.len()).step_by(2) {
            v.push(u8::from_str_radix(&s[i..i + 2], 16).map_err(serde::de::Error::custom)?);
        }
        Ok(B(v))
    }
}

// ---------------------------------------------------------------------------------------------
// commands
// ---------------------------------------------------------------------------------------------
#[derive(Clone, Debug, PartialEq, Eq, Hash, Serialize, Deserialize)]
pub enum Cmd {
    Put { k: B, v: B },
    /// ttl in whole seconds, >= 1 (0 would mean "no TTL" on the wire)
    PutTtl { k: B, v: B, ttl: u64 },
    Del { k: B },
    /// exp = None: key must be absent
    Cas { k: B, exp: Option<B>, v: B },
    Noop,
}

impl Cmd {
    pub fn key(&self) -> Option<&B> {
        match self {
            Cmd::Put { k, .. } | Cmd::PutTtl { k, .. } | Cmd::Del { k } | Cmd::Cas { k, .. } => Some(k),
            Cmd::Noop => None,
        }
    }
    pub fn is_cas(&self) -> bool {
        matches!(self, Cmd::Cas { .. })
    }
    pub fn to_command(&self) -> Command {
        match self {
            Cmd::Put { k, v } => Command::Insert { key: k.bytes(), value: v.bytes(), ttl_secs: None },
            Cmd::PutTtl { k, v, ttl } => Command::Insert {
                key: k.bytes(),
                value: v.bytes(),
                ttl_secs: if *ttl == 0 { None } else { Some(*ttl) },
            },
            Cmd::Del { k } => Command::Delete { key: k.bytes() },
            Cmd::Cas { k, exp, v } => Command::CompareAndSwap {
                key: k.bytes(),
                expected: exp.as_ref().map(|e| e.bytes()),
                value: v.bytes(),
            },
            Cmd::Noop => Command::Noop,
        }
    }
    /// The command as a raw Raft log entry (what the leader appends for a client request).
    pub fn to_proto_entry(&self, index: u64, term: u64) -> d_engine_proto::common::Entry {
        use d_engine_proto::client::write_command::{CompareAndSwap, Delete, Insert, Operation};
        use d_engine_proto::client::WriteCommand;
        use d_engine_proto::common::entry_payload::Payload;
        use d_engine_proto::common::{Entry, EntryPayload, Noop};
        use prost::Message;
        let op = match self {
            Cmd::Noop => {
                return Entry { index, term, payload: Some(EntryPayload { payload: Some(Payload::Noop(Noop {})) }) };
            }
            Cmd::Put { k, v } => Operation::Insert(Insert { key: k.bytes(), value: v.bytes(), ttl_secs: 0 }),
            Cmd::PutTtl { k, v, ttl } => Operation::Insert(Insert { key: k.bytes(), value: v.bytes(), ttl_secs: *ttl }),
            Cmd::Del { k } => Operation::Delete(Delete { key: k.bytes() }),
            Cmd::Cas { k, exp, v } => Operation::CompareAndSwap(CompareAndSwap {
                key: k.bytes(),
                expected_value: exp.as_ref().map(|e| e.bytes()),
                new_value: v.bytes(),
            }),
        };
        let wc = WriteCommand { operation: Some(op) };
        let mut buf = Vec::new();
        wc.encode(&mut buf).expect("encode WriteCommand");
        Entry { index, term, payload: Some(EntryPayload { payload: Some(Payload::Command(Bytes::from(buf))) }) }
    }
}

/// One log entry of a generated history.
#[derive(Clone, Debug, PartialEq, Eq, Hash, Serialize, Deserialize)]
pub struct LogEntry {
    pub index: u64,
    pub term: u64,
    pub cmd: Cmd,
}

pub fn to_entries(log: &[LogEntry], via_proto: bool) -> Vec<ApplyEntry> {
    if via_proto {
        let raw: Vec<_> = log.iter().map(|e| e.cmd.to_proto_entry(e.index, e.term)).collect();
        d_engine_core::decode_entries(raw).expect("decode_entries on well-formed entries")
    } else {
        log.iter().map(|e| ApplyEntry { index: e.index, term: e.term, command: e.cmd.to_command() }).collect()
    }
}

// ---------------------------------------------------------------------------------------------
// reference model
// ---------------------------------------------------------------------------------------------
#[derive(Clone, Debug, Default, PartialEq, Eq)]
pub struct KvModel {
    pub map: BTreeMap<Vec<u8>, Vec<u8>>,
    /// key -> absolute expiry (ms). Set by put-with-TTL, cancelled by delete and by a plain put.
    pub ttl: BTreeMap<Vec<u8>, u64>,
}

#[allow(dead_code)]
impl KvModel {
    pub fn new() -> Self {
        Self::default()
    }
    /// Applies one command at (virtual) time `now_ms`; returns the documented `succeeded` flag.
    pub fn apply(&mut self, cmd: &Cmd, now_ms: u64) -> bool {
        match cmd {
            Cmd::Noop => true,
            Cmd::Put { k, v } => {
                self.map.insert(k.0.clone(), v.0.clone());
                self.ttl.remove(&k.0);
                true
            }
            Cmd::PutTtl { k, v, ttl } => {
                self.map.insert(k.0.clone(), v.0.clone());
                if *ttl == 0 {
                    self.ttl.remove(&k.0);
                } else {
                    self.ttl.insert(k.0.clone(), now_ms + ttl * 1000);
                }
                true
            }
            Cmd::Del { k } => {
                self.map.remove(&k.0);
                self.ttl.remove(&k.0);
                true
            }
            Cmd::Cas { k, exp, v } => {
                let cur = self.map.get(&k.0);
                let ok = match (cur, exp) {
                    (Some(c), Some(e)) => c == &e.0,
                    (None, None) => true,
                    _ => false,
                };
                if ok {
                    self.map.insert(k.0.clone(), v.0.clone());
                }
                ok
            }
        }
    }
    pub fn get(&self, k: &[u8]) -> Option<Vec<u8>> {
        self.map.get(k).cloned()
    }
    pub fn scan(&self, prefix: &[u8]) -> Vec<(Vec<u8>, Vec<u8>)> {
        self.map.iter().filter(|(k, _)| k.starts_with(prefix)).map(|(k, v)| (k.clone(), v.clone())).collect()
    }
    /// Would this command change the key-value contents?
    pub fn changes_state(&self, cmd: &Cmd) -> bool {
        let mut c = self.clone();
        c.apply(cmd, 0);
        c.map != self.map
    }
}

/// model(1..=i) for every i in 0..=log.len() (index 0 = empty state); time fixed.
pub fn prefix_states(log: &[LogEntry], now_ms: u64) -> (Vec<BTreeMap<Vec<u8>, Vec<u8>>>, Vec<bool>) {
    let mut m = KvModel::new();
    let mut states = vec![m.map.clone()];
    let mut flags = vec![];
    for e in log {
        flags.push(m.apply(&e.cmd, now_ms));
        states.push(m.map.clone());
    }
    (states, flags)
}

// ---------------------------------------------------------------------------------------------
// engines
// ---------------------------------------------------------------------------------------------
#[derive(Clone, Copy, Debug, PartialEq, Eq, Hash, Serialize, Deserialize)]
pub enum Engine {
    File,
    Rocks,
}
impl Engine {
    pub fn name(&self) -> &'static str {
        match self {
            Engine::File => "file",
            Engine::Rocks => "rocksdb",
        }
    }
}

pub type Sm = Arc<dyn StateMachine>;

/// Opens the state machine on `dir` the way a (re)starting node does.
pub async fn open_sm(engine: Engine, dir: &Path) -> Result<Sm, String> {
    let lease = Arc::new(TtlLease::new(LeaseConfig::default()));
    match engine {
        Engine::File => {
            let mut sm = FileStateMachine::new(dir.to_path_buf()).await.map_err(|e| format!("FileStateMachine::new: {e:?}"))?;
            sm.set_lease(lease);
            let sm: Sm = Arc::new(sm);
            sm.start().await.map_err(|e| format!("start: {e:?}"))?;
            Ok(sm)
        }
        Engine::Rocks => {
            let mut sm = RocksDBStateMachine::new(dir).map_err(|e| format!("RocksDBStateMachine::new: {e:?}"))?;
            sm.set_lease(lease);
            let sm: Sm = Arc::new(sm);
            sm.start().await.map_err(|e| format!("start: {e:?}"))?;
            Ok(sm)
        }
    }
}

/// Current-thread runtime with a paused tokio clock: the File engine's "checkpoint every 10 s" rule
/// reads `tokio::time::Instant`, which then never advances on its own, so whether a checkpoint runs
/// is a function of the case (forced checkpoints = explicit flush ops / the 1000-entry rule) and not
/// of machine load.
pub fn new_rt() -> tokio::runtime::Runtime {
    tokio::runtime::Builder::new_current_thread().enable_all().start_paused(true).build().expect("tokio runtime")
}

/// Reads every key of `keys` through `get`.
pub fn dump(sm: &Sm, keys: &[Vec<u8>]) -> Result<BTreeMap<Vec<u8>, Vec<u8>>, String> {
    let mut m = BTreeMap::new();
    for k in keys {
        if let Some(v) = sm.get(k).map_err(|e| format!("get: {e:?}"))? {
            m.insert(k.clone(), v.to_vec());
        }
    }
    Ok(m)
}

pub fn show_map(m: &BTreeMap<Vec<u8>, Vec<u8>>) -> String {
    let parts: Vec<String> = m.iter().map(|(k, v)| format!("{}={}", show(k), show(v))).collect();
    format!("{{{}}}", parts.join(", "))
}
pub fn show(b: &[u8]) -> String {
    if b.is_empty() {
        "\"\"".to_string()
    } else if b.iter().all(|c| c.is_ascii_alphanumeric()) {
        String::from_utf8_lossy(b).to_string()
    } else {
        format!("0x{}", hex(b))
    }
}
pub fn show_opt(b: &Option<Vec<u8>>) -> String {
    match b {
        None => "None".into(),
        Some(v) => format!("Some({})", show(v)),
    }
}

/// Disable core dumps in crash-injection children (abort() would otherwise write one per crash).
pub fn child_no_core() {
    unsafe {
        let lim = libc::rlimit { rlim_cur: 0, rlim_max: 0 };
        libc::setrlimit(libc::RLIMIT_CORE, &lim);
    }
}

/// Spawns `dverif __child <module> <spec>` and returns (aborted_by_signal, exit_code).
pub fn spawn_child(module: &str, spec_path: &Path) -> (bool, Option<i32>) {
    use std::os::unix::process::ExitStatusExt;
    let exe = std::env::current_exe().expect("current_exe");
    let st = std::process::Command::new(exe)
        .arg("__child")
        .arg(module)
        .arg(spec_path)
        .stdout(std::process::Stdio::null())
        .stderr(std::process::Stdio::null())
        .status()
        .expect("spawn child");
    (st.signal().is_some(), st.code())
}
