//! Shared helpers for the snapshot checks C16 / C17: a tiny KV reference model, command/entry
//! encoding (exactly what the leader writes into the log), construction of a real
//! `DefaultStateMachineHandler` over the real File / RocksDB state machines (wired like
//! `NodeBuilder::build` + `EmbeddedEngine::start*` do), and observation helpers.
use std::collections::BTreeMap;
use std::fmt::Debug;
use std::future::Future;
use std::path::{Path, PathBuf};
use std::pin::Pin;
use std::sync::atomic::{AtomicBool, AtomicU32, AtomicUsize, Ordering};
use std::sync::Arc;
use std::task::{Context, Poll};
use std::time::{Duration, UNIX_EPOCH};

use bytes::{Bytes, BytesMut};
use d_engine_core::{DefaultStateMachineHandler, LogSizePolicy, SnapshotConfig, StateMachine, StateMachineHandler, TypeConfig};
use d_engine_proto::client::write_command::{CompareAndSwap, Delete, Insert, Operation};
use d_engine_proto::client::WriteCommand;
use d_engine_proto::common::entry_payload::Payload;
use d_engine_proto::common::{Entry, EntryPayload, Noop};
use d_engine_proto::server::storage::{SnapshotChunk, SnapshotMetadata};
use d_engine_server::node::RaftTypeConfig;
use d_engine_server::storage::TtlLease;
use d_engine_server::{FileStateMachine, FileStorageEngine, RocksDBStateMachine, RocksDBStorageEngine};
use futures::StreamExt;
use prost::Message;
use proptest::prelude::*;
use serde::{Deserialize, Serialize};

/// Fixed virtual wall clock (ms since epoch) used by all TTL code while a case runs: nothing expires.
pub const WALL_MS: u64 = 1_700_000_000_000;
pub const N_KEYS: u8 = 4;
pub const N_VALS: u8 = 3;

pub fn key(i: u8) -> Bytes {
    Bytes::from(format!("k{i}"))
}
/// Values are ~20 bytes of poorly compressible text so that snapshot archives have a useful size.
pub fn val(i: u8) -> Bytes {
    let h = crate::runner::fp(&(i as u64, 0x5eedu64));
    Bytes::from(format!("v{i}-{h:016x}"))
}

#[derive(Clone, Debug, Serialize, Deserialize, Hash, PartialEq, Eq)]
pub enum Cmd {
    Put { k: u8, v: u8 },
    PutTtl { k: u8, v: u8, ttl: u32 },
    Del { k: u8 },
    Cas { k: u8, expect: Option<u8>, new: u8 },
    Noop,
}

/// One log entry: `bump` raises the term before this entry (terms are non-decreasing, start at 1).
#[derive(Clone, Debug, Serialize, Deserialize, Hash, PartialEq, Eq)]
pub struct EntrySpec {
    pub bump: bool,
    pub cmd: Cmd,
}

pub type Kv = BTreeMap<Vec<u8>, Vec<u8>>;

/// Reference semantics of one command; returns true when the KV contents changed.
pub fn model_apply(kv: &mut Kv, cmd: &Cmd) -> bool {
    match cmd {
        Cmd::Noop => false,
        Cmd::Put { k, v } | Cmd::PutTtl { k, v, .. } => {
            let old = kv.insert(key(*k).to_vec(), val(*v).to_vec());
            old.as_deref() != Some(&val(*v)[..])
        }
        Cmd::Del { k } => kv.remove(&key(*k).to_vec()).is_some(),
        Cmd::Cas { k, expect, new } => {
            let cur = kv.get(&key(*k).to_vec());
            let ok = match (cur, expect) {
                (Some(c), Some(e)) => c[..] == val(*e)[..],
                (None, None) => true,
                _ => false,
            };
            if ok {
                let old = kv.insert(key(*k).to_vec(), val(*new).to_vec());
                old.as_deref() != Some(&val(*new)[..])
            } else {
                false
            }
        }
    }
}

pub fn model_upto(specs: &[EntrySpec], n: usize) -> Kv {
    let mut kv = Kv::new();
    for s in &specs[..n.min(specs.len())] {
        model_apply(&mut kv, &s.cmd);
    }
    kv
}

pub fn model_from(mut kv: Kv, specs: &[EntrySpec], from_excl: usize, to_incl: usize) -> Kv {
    for s in &specs[from_excl.min(specs.len())..to_incl.min(specs.len())] {
        model_apply(&mut kv, &s.cmd);
    }
    kv
}

/// Term of every entry (index i+1 -> terms[i]).
pub fn terms_of(specs: &[EntrySpec]) -> Vec<u64> {
    let mut t = 1u64;
    specs
        .iter()
        .map(|s| {
            if s.bump {
                t += 1;
            }
            t
        })
        .collect()
}

/// Encodes the specs exactly like the leader does (`write_op_to_proto` +
/// `client_command_to_entry_payloads`; a new leader's first entry is a `Noop` payload).
pub fn build_entries(specs: &[EntrySpec]) -> Vec<Entry> {
    let terms = terms_of(specs);
    specs
        .iter()
        .enumerate()
        .map(|(i, s)| {
            let payload = match &s.cmd {
                Cmd::Noop => Payload::Noop(Noop {}),
                c => {
                    let op = match c {
                        Cmd::Put { k, v } => Operation::Insert(Insert { key: key(*k), value: val(*v), ttl_secs: 0 }),
                        Cmd::PutTtl { k, v, ttl } => Operation::Insert(Insert { key: key(*k), value: val(*v), ttl_secs: *ttl as u64 }),
                        Cmd::Del { k } => Operation::Delete(Delete { key: key(*k) }),
                        Cmd::Cas { k, expect, new } => Operation::CompareAndSwap(CompareAndSwap {
                            key: key(*k),
                            expected_value: expect.map(val),
                            new_value: val(*new),
                        }),
                        Cmd::Noop => unreachable!(),
                    };
                    let wc = WriteCommand { operation: Some(op) };
                    let mut buf = BytesMut::with_capacity(wc.encoded_len());
                    wc.encode(&mut buf).unwrap();
                    Payload::Command(buf.freeze())
                }
            };
            Entry { index: i as u64 + 1, term: terms[i], payload: Some(EntryPayload { payload: Some(payload) }) }
        })
        .collect()
}

// ---------------------------------------------------------------------------------------------
// generators
// ---------------------------------------------------------------------------------------------

pub fn cmd_strategy() -> BoxedStrategy<Cmd> {
    let k = 0u8..N_KEYS;
    let v = 0u8..N_VALS;
    prop_oneof![
        5 => (k.clone(), v.clone()).prop_map(|(k, v)| Cmd::Put { k, v }),
        2 => (k.clone(), v.clone(), 1000u32..100_000).prop_map(|(k, v, ttl)| Cmd::PutTtl { k, v, ttl }),
        2 => k.clone().prop_map(|k| Cmd::Del { k }),
        9 => (k.clone(), proptest::option::weighted(0.8, v.clone()), v.clone()).prop_map(|(k, expect, new)| Cmd::Cas { k, expect, new }),
        1 => Just(Cmd::Noop),
    ]
    .boxed()
}

/// A short burst on one key that is NOT idempotent when applied twice in a row from the state it
/// produces: `[put k a]? , cas(k: b->c), cas(k: a->b)` (first pass ends at b, a second pass ends at c).
fn nonidem_burst() -> BoxedStrategy<Vec<Cmd>> {
    (0u8..N_KEYS, 0u8..6, any::<bool>())
        .prop_map(|(k, perm, with_put)| {
            let p: [[u8; 3]; 6] = [[0, 1, 2], [0, 2, 1], [1, 0, 2], [1, 2, 0], [2, 0, 1], [2, 1, 0]];
            let [a, b, c] = p[perm as usize];
            let mut v = vec![];
            if with_put {
                v.push(Cmd::Put { k, v: a });
            }
            v.push(Cmd::Cas { k, expect: Some(b), new: c });
            v.push(Cmd::Cas { k, expect: Some(a), new: b });
            v
        })
        .boxed()
}

/// Log of `min..=max` entries; the first entry is always a plain put (non-empty state); a term bump
/// is usually followed by the new leader's Noop entry, as in a real log.
pub fn log_strategy(min: usize, max: usize) -> BoxedStrategy<Vec<EntrySpec>> {
    let piece = prop_oneof![
        8 => cmd_strategy().prop_map(|c| vec![(false, c)]),
        4 => nonidem_burst().prop_map(|v| v.into_iter().map(|c| (false, c)).collect::<Vec<_>>()),
        1 => Just(vec![(true, Cmd::Noop)]),
        1 => cmd_strategy().prop_map(|c| vec![(true, c)]),
    ];
    (0u8..N_KEYS, 0u8..N_VALS, proptest::collection::vec(piece, 0..max))
        .prop_map(move |(k0, v0, pieces)| {
            let mut out = vec![EntrySpec { bump: false, cmd: Cmd::Put { k: k0, v: v0 } }];
            for p in pieces {
                for (bump, cmd) in p {
                    if out.len() < max {
                        out.push(EntrySpec { bump, cmd });
                    }
                }
            }
            let mut fill = 0u8;
            while out.len() < min {
                out.push(EntrySpec { bump: false, cmd: Cmd::Put { k: fill % N_KEYS, v: fill % N_VALS } });
                fill += 1;
            }
            out
        })
        .boxed()
}

// ---------------------------------------------------------------------------------------------
// engines
// ---------------------------------------------------------------------------------------------

pub type TF = RaftTypeConfig<FileStorageEngine, FileStateMachine>;
pub type TR = RaftTypeConfig<RocksDBStorageEngine, RocksDBStateMachine>;

#[derive(Clone, Copy, Debug, Serialize, Deserialize, Hash, PartialEq, Eq)]
pub enum Engine {
    File,
    Rocks,
}

#[allow(async_fn_in_trait)]
pub trait Eng: 'static {
    type Sm: StateMachine + Debug;
    type T: TypeConfig<SM = Self::Sm, SNP = LogSizePolicy>;
    /// Same sequence as `EmbeddedEngine::start*`: construct, `set_lease`, wrap in Arc; then
    /// `NodeBuilder::build` calls `start()`.
    async fn open(dir: &Path, lease: Arc<TtlLease>) -> Result<Arc<Self::Sm>, String>;
}

pub struct FileEng;
impl Eng for FileEng {
    type Sm = FileStateMachine;
    type T = TF;
    async fn open(dir: &Path, lease: Arc<TtlLease>) -> Result<Arc<FileStateMachine>, String> {
        let mut sm = FileStateMachine::new(dir.to_path_buf()).await.map_err(|e| format!("file sm open: {e:?}"))?;
        sm.set_lease(lease);
        let sm = Arc::new(sm);
        sm.start().await.map_err(|e| format!("file sm start: {e:?}"))?;
        Ok(sm)
    }
}

pub struct RocksEng;
impl Eng for RocksEng {
    type Sm = RocksDBStateMachine;
    type T = TR;
    async fn open(dir: &Path, lease: Arc<TtlLease>) -> Result<Arc<RocksDBStateMachine>, String> {
        let mut sm = RocksDBStateMachine::new(dir).map_err(|e| format!("rocks sm open: {e:?}"))?;
        sm.set_lease(lease);
        let sm = Arc::new(sm);
        sm.start().await.map_err(|e| format!("rocks sm start: {e:?}"))?;
        Ok(sm)
    }
}

/// What a client / the Raft layer can see of a node's state machine.
#[derive(Clone, Debug, PartialEq, Eq)]
pub struct Obs {
    /// `get` of every key of the alphabet
    pub kv: Result<Kv, String>,
    /// `scan_prefix("k")`
    pub scan: Result<Kv, String>,
    pub last_applied: (u64, u64),
    pub snap_meta: Option<(u64, u64, Vec<u8>)>,
    /// key -> expiry (ms since epoch) of every alphabet key that has a lease
    pub ttl: BTreeMap<Vec<u8>, u128>,
}

impl Obs {
    /// contents agree between get and scan and are readable
    pub fn contents(&self) -> Result<&Kv, String> {
        match (&self.kv, &self.scan) {
            (Ok(a), Ok(b)) if a == b => Ok(a),
            (Ok(a), Ok(b)) => Err(format!("get {} != scan {}", show_kv(a), show_kv(b))),
            (Err(e), _) | (_, Err(e)) => Err(e.clone()),
        }
    }
}

pub fn show_kv(kv: &Kv) -> String {
    let mut s = String::from("{");
    for (k, v) in kv {
        let v = String::from_utf8_lossy(v);
        s.push_str(&format!("{}={} ", String::from_utf8_lossy(k), v.split('-').next().unwrap_or("")));
    }
    s.push('}');
    s
}

pub fn observe_sm<S: StateMachine>(sm: &S, lease: &TtlLease) -> Obs {
    let mut kv = Ok(Kv::new());
    for i in 0..N_KEYS {
        match sm.get(&key(i)) {
            Ok(Some(v)) => {
                if let Ok(m) = kv.as_mut() {
                    m.insert(key(i).to_vec(), v.to_vec());
                }
            }
            Ok(None) => {}
            Err(e) => kv = Err(format!("get failed: {e:?}")),
        }
    }
    let scan = match sm.scan_prefix(b"k") {
        Ok(r) => Ok(r.entries.into_iter().map(|(k, v)| (k.to_vec(), v.to_vec())).collect()),
        Err(e) => Err(format!("scan failed: {e:?}")),
    };
    let la = sm.last_applied();
    let snap_meta = sm.snapshot_metadata().map(|m| {
        let li = m.last_included.unwrap_or_default();
        (li.index, li.term, m.checksum.to_vec())
    });
    let mut ttl = BTreeMap::new();
    for i in 0..N_KEYS {
        if let Some(t) = lease.get_expiration(&key(i)) {
            ttl.insert(key(i).to_vec(), t.duration_since(UNIX_EPOCH).map(|d| d.as_millis()).unwrap_or(0));
        }
    }
    Obs { kv, scan, last_applied: (la.index, la.term), snap_meta, ttl }
}

pub struct Node<E: Eng> {
    pub sm: Arc<E::Sm>,
    pub h: Arc<DefaultStateMachineHandler<E::T>>,
    pub lease: Arc<TtlLease>,
    pub cfg: SnapshotConfig,
    pub snap_dir: PathBuf,
    pub node_id: u32,
}

impl<E: Eng> Node<E> {
    /// Builds state machine + handler the way `NodeBuilder::build` does.
    pub async fn open(root: &Path, node_id: u32, chunk_size: usize, retained: u64) -> Result<Self, String> {
        let sm_dir = root.join("sm");
        let snap_dir = root.join("snapshots");
        std::fs::create_dir_all(&sm_dir).map_err(|e| e.to_string())?;
        std::fs::create_dir_all(&snap_dir).map_err(|e| e.to_string())?;
        let lease = Arc::new(TtlLease::new(d_engine_core::RaftConfig::default().state_machine.lease.clone()));
        let sm = E::open(&sm_dir, lease.clone()).await?;
        let cfg = SnapshotConfig { snapshots_dir: snap_dir.clone(), chunk_size, retained_log_entries: retained, ..SnapshotConfig::default() };
        let h = Arc::new(Self::mk_handler(node_id, &sm, &cfg));
        Ok(Node { sm, h, lease, cfg, snap_dir, node_id })
    }

    fn mk_handler(node_id: u32, sm: &Arc<E::Sm>, cfg: &SnapshotConfig) -> DefaultStateMachineHandler<E::T> {
        let last_applied_index = sm.last_applied().index;
        let policy = LogSizePolicy::new(cfg.max_log_entries_before_snapshot, cfg.snapshot_cool_down_since_last_check);
        DefaultStateMachineHandler::<E::T>::new(node_id, last_applied_index, sm.clone(), cfg.clone(), policy, None, Arc::new(AtomicUsize::new(0)))
    }

    /// A second handler over the same state machine / snapshot dir with another transfer chunk size
    /// (the handler keeps no snapshot state of its own; `chunk_size` only affects `load_snapshot_data`).
    pub fn handler_with_chunk_size(&self, chunk_size: usize) -> DefaultStateMachineHandler<E::T> {
        let cfg = SnapshotConfig { chunk_size, ..self.cfg.clone() };
        Self::mk_handler(self.node_id, &self.sm, &cfg)
    }

    pub fn observe(&self) -> Obs {
        observe_sm(&*self.sm, &self.lease)
    }

    /// Applies `entries` through `handler.apply_chunk` in batches of the given sizes (cycled, 1..).
    pub async fn apply(&self, entries: &[Entry], batches: &[u8]) -> Result<(), String> {
        let mut i = 0;
        let mut b = 0;
        while i < entries.len() {
            let n = (*batches.get(b % batches.len().max(1)).unwrap_or(&1) as usize).clamp(1, 8);
            b += 1;
            let j = (i + n).min(entries.len());
            self.h.apply_chunk(entries[i..j].to_vec()).await.map_err(|e| format!("apply_chunk[{}..{}]: {e:?}", i, j))?;
            i = j;
        }
        Ok(())
    }
}

/// Collects the chunk stream the leader would send for `meta` (real `load_snapshot_data`).
pub async fn load_chunks<T: TypeConfig>(h: &DefaultStateMachineHandler<T>, meta: SnapshotMetadata) -> Result<Vec<SnapshotChunk>, String> {
    let mut st = h.load_snapshot_data(meta).await.map_err(|e| format!("load_snapshot_data: {e:?}"))?;
    let mut v = vec![];
    while let Some(c) = st.next().await {
        v.push(c.map_err(|e| format!("chunk stream: {e:?}"))?);
    }
    Ok(v)
}

/// `snapshot-<index>-<term>.tar.gz` files (SnapshotPathManager::final_snapshot_path) -> (len, content hash).
pub fn list_finals(dir: &Path) -> BTreeMap<String, (u64, u64)> {
    let mut out = BTreeMap::new();
    if let Ok(rd) = std::fs::read_dir(dir) {
        for e in rd.flatten() {
            let name = e.file_name().to_string_lossy().to_string();
            if is_final_name(&name) {
                match std::fs::read(e.path()) {
                    Ok(b) => {
                        out.insert(name, (b.len() as u64, crate::runner::fp(&b)));
                    }
                    Err(_) => {
                        // a directory or unreadable entry under a final name
                        out.insert(name, (u64::MAX, 0));
                    }
                }
            }
        }
    }
    out
}

pub fn is_final_name(name: &str) -> bool {
    let Some(core) = name.strip_prefix("snapshot-").and_then(|s| s.strip_suffix(".tar.gz")) else {
        return false;
    };
    let mut it = core.splitn(2, '-');
    matches!((it.next().map(|a| a.parse::<u64>().is_ok()), it.next().map(|b| b.parse::<u64>().is_ok())), (Some(true), Some(true)))
}

pub fn final_name(index: u64, term: u64) -> String {
    format!("snapshot-{index}-{term}.tar.gz")
}

// ---------------------------------------------------------------------------------------------
// "crash": drop a future after a number of polls
// ---------------------------------------------------------------------------------------------

#[derive(Default)]
pub struct CrashCtl {
    pub armed: AtomicBool,
    pub budget: AtomicU32,
    pub fired: AtomicBool,
}

/// Polls the inner future until `ctl` is armed and its poll budget is used up; then the inner future
/// is dropped on the spot (everything it held is released, nothing of it runs any more) and
/// `None` is returned.
pub struct Limited<'a, O> {
    pub inner: Option<Pin<Box<dyn Future<Output = O> + 'a>>>,
    pub ctl: Arc<CrashCtl>,
}

impl<'a, O> Future for Limited<'a, O> {
    type Output = Option<O>;
    fn poll(mut self: Pin<&mut Self>, cx: &mut Context<'_>) -> Poll<Option<O>> {
        let ctl = self.ctl.clone();
        if ctl.armed.load(Ordering::SeqCst) {
            let b = ctl.budget.load(Ordering::SeqCst);
            if b == 0 {
                self.inner = None;
                ctl.fired.store(true, Ordering::SeqCst);
                return Poll::Ready(None);
            }
            ctl.budget.store(b - 1, Ordering::SeqCst);
        }
        match self.inner.as_mut() {
            Some(f) => match f.as_mut().poll(cx) {
                Poll::Ready(o) => {
                    self.inner = None;
                    Poll::Ready(Some(o))
                }
                Poll::Pending => Poll::Pending,
            },
            None => Poll::Ready(None),
        }
    }
}

pub fn arm_wall_clock() {
    d_engine_core::verif_hooks::set_virtual_wall_ms(Some(WALL_MS));
}
pub fn disarm_wall_clock() {
    d_engine_core::verif_hooks::set_virtual_wall_ms(None);
}

#[allow(dead_code)]
pub const TICK: Duration = Duration::from_millis(1);
