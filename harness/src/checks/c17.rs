//! C17 — Snapshot transfers are all-or-nothing.
//!
//! Node A produces a real snapshot and the real chunk list (`load_snapshot_data`). A generated
//! mutation program is applied to the stream (drop / duplicate / swap / corrupt data / corrupt
//! checksum / leader id or term change / early close / strip metadata / stall) and optionally the
//! receiving future is dropped after k polls ("crash"). Receiver B starts from a non-empty previous
//! state (own applied prefix, optionally an own earlier snapshot). The stream is fed in lock-step
//! (one chunk, wait for its ACK, observe B) on a paused tokio clock.
//!
//! Oracle: Ok  => the delivered chunks were exactly the original ones from one leader/term, and B
//!                holds the snapshot state;
//!         Err / crash before the complete valid stream was consumed => B's contents, last_applied,
//!                snapshot metadata, leases and the final snapshot files are untouched and no new
//!                final-named file exists;
//!         at every observation point a final-named file is either the old one or the complete new one.
use std::collections::BTreeMap;
use std::path::PathBuf;
use std::sync::atomic::Ordering;
use std::sync::{Arc, Mutex};
use std::time::Duration;

use d_engine_core::{StateMachine, StateMachineHandler};
use d_engine_proto::server::storage::SnapshotChunk;
use proptest::prelude::*;
use serde::{Deserialize, Serialize};
use tokio::sync::mpsc;

use super::snapmodel::*;
use crate::runner::{fp, pick, rm_dir, work_dir, Check, Outcome, Tier};

#[derive(Clone, Debug, Serialize, Deserialize, Hash, PartialEq, Eq)]
pub enum Mutation {
    Drop { at: u16 },
    Dup { at: u16 },
    Swap { a: u16, b: u16 },
    CorruptData { at: u16, byte: u16, xor: u8 },
    CorruptChecksum { at: u16, byte: u8, xor: u8 },
    /// chunk `at` (and all later ones if `tail`) claims another leader id
    LeaderId { at: u16, tail: bool },
    /// chunk `at` (and all later ones if `tail`) claims another leader term
    LeaderTerm { at: u16, tail: bool },
    /// the sender goes away after `keep` items
    EarlyClose { keep: u16 },
    StripMeta { at: u16 },
    /// pause before item `at` (position == len: before closing); long = beyond receive_chunk_timeout
    Stall { at: u16, long: bool },
}

#[derive(Clone, Debug, Serialize, Deserialize, Hash)]
pub struct Crash {
    /// armed after this many ACKs (mapped onto 0..=items)
    pub after_acks: u16,
    /// then the receiving future is dropped after this many further polls
    pub polls: u8,
}

#[derive(Clone, Debug, Serialize, Deserialize, Hash)]
pub struct Case {
    pub rocks: bool,
    pub log: Vec<EntrySpec>,
    pub retained: u8,
    /// B has applied entries 1..=b of the same log before (mapped onto 1..=N)
    pub b_prefix: u16,
    pub b_own_snapshot: bool,
    /// wanted number of chunks (2..=40); the chunk size is derived from the archive size
    pub n_chunks: u8,
    pub muts: Vec<Mutation>,
    pub crash: Option<Crash>,
    /// after a failed transfer, retry with the pristine stream
    pub retry: bool,
}

pub struct C17;

fn mutation_strategy() -> BoxedStrategy<Mutation> {
    let at = any::<u16>();
    prop_oneof![
        3 => at.prop_map(|at| Mutation::Drop { at }),
        3 => at.prop_map(|at| Mutation::Dup { at }),
        3 => (any::<u16>(), any::<u16>()).prop_map(|(a, b)| Mutation::Swap { a, b }),
        3 => (any::<u16>(), any::<u16>(), 1u8..=255).prop_map(|(at, byte, xor)| Mutation::CorruptData { at, byte, xor }),
        2 => (any::<u16>(), 0u8..4, 1u8..=255).prop_map(|(at, byte, xor)| Mutation::CorruptChecksum { at, byte, xor }),
        2 => (any::<u16>(), any::<bool>()).prop_map(|(at, tail)| Mutation::LeaderId { at, tail }),
        2 => (any::<u16>(), any::<bool>()).prop_map(|(at, tail)| Mutation::LeaderTerm { at, tail }),
        3 => any::<u16>().prop_map(|keep| Mutation::EarlyClose { keep }),
        1 => prop_oneof![3 => Just(0u16), 1 => any::<u16>()].prop_map(|at| Mutation::StripMeta { at }),
        2 => (any::<u16>(), any::<bool>()).prop_map(|(at, long)| Mutation::Stall { at, long }),
    ]
    .boxed()
}

impl Check for C17 {
    type Case = Case;
    fn id(&self) -> &'static str {
        "C17"
    }
    fn rule(&self) -> String {
        "case = (engine File|RocksDB, source log 4..=14 entries, retained 1..=3, receiver prefix b>=1 (+ optional own earlier snapshot), wanted chunk count 2..=40, mutation program of 0..=3 of {drop, dup, swap, corrupt data, corrupt checksum, leader id/term change (single chunk or tail), early close, strip metadata, stall short/long}, optional crash = drop of the receiving future (armed after k ACKs, after j more polls), optional pristine retry); non-trivial = an effective mutation whose first deviation is before the last chunk, or a crash after >= 1 consumed chunk; distinct by hash of (engine, chunk count, delivered deviation trace, crash point)".into()
    }
    fn assumptions(&self) -> Vec<String> {
        vec![
            "handler + state machine wired as NodeBuilder::build / EmbeddedEngine::start do".into(),
            "a stream counts as 'the original' when every delivered chunk has the original seq/data/checksum/metadata in order and all chunks carry one (leader_id, leader_term); stalls alone do not make a stream invalid".into(),
            "crash = the receiving future is dropped between two polls; blocking file operations already submitted still complete (as for a task cancellation); after a crash that happens once the complete valid stream was consumed and closed, only the snapshot files are judged (state may be old or new)".into(),
            "the stream is fed in lock-step with ACKs (timing of the sender is free); tokio clock paused so receive_chunk_timeout costs no wall time".into(),
            "mutations that a CRC-protected, ordered transport fault can produce; no forged chunks (re-computed checksums, altered total_chunks or metadata contents)".into(),
        ]
    }
    fn cases(&self, tier: Tier) -> u32 {
        match tier {
            Tier::Quick => 2000,
            Tier::Thorough => 60_000,
        }
    }
    fn required_labels(&self) -> Vec<&'static str> {
        vec!["engine_file", "engine_rocks", "res_ok", "res_err", "res_crash", "effective_mutation", "pristine", "crash_in_finalization", "b_own_snapshot", "retry_ok"]
    }
    fn strategy(&self, _tier: Tier) -> BoxedStrategy<Case> {
        (
            prop::bool::weighted(0.25),
            log_strategy(4, 14),
            1u8..=3,
            any::<u16>(),
            any::<bool>(),
            2u8..=40,
            // scenario: (mutation program, crash)
            prop_oneof![
                // mutated stream, receiver runs to its verdict
                7 => proptest::collection::vec(mutation_strategy(), 1..=3).prop_map(|m| (m, None)),
                // pristine stream
                3 => Just((vec![], None)),
                // crash somewhere in the middle of an otherwise valid stream
                4 => (any::<u16>(), 0u8..8).prop_map(|(after_acks, polls)| (vec![], Some(Crash { after_acks, polls }))),
                // crash while / after the complete valid stream is finalized and applied
                3 => (0u8..60).prop_map(|polls| (vec![], Some(Crash { after_acks: u16::MAX, polls }))),
                // both
                3 => (proptest::collection::vec(mutation_strategy(), 1..=2), any::<u16>(), 0u8..40).prop_map(|(m, after_acks, polls)| (m, Some(Crash { after_acks, polls }))),
            ],
            any::<bool>(),
        )
            .prop_map(|(rocks, log, retained, b_prefix, b_own_snapshot, n_chunks, (muts, crash), retry)| Case { rocks, log, retained, b_prefix, b_own_snapshot, n_chunks, muts, crash, retry })
            .boxed()
    }

    fn run(&self, c: &Case) -> Outcome {
        arm_wall_clock();
        let out = if c.rocks { run_case::<RocksEng>(c) } else { run_case::<FileEng>(c) };
        disarm_wall_clock();
        out
    }
}

#[derive(Clone, Debug)]
enum Item {
    Chunk(SnapshotChunk),
    Stall(bool),
}

struct Delivery {
    items: Vec<Item>,
    /// stall before closing the channel
    final_stall: Option<bool>,
}

fn apply_mutations(orig: &[SnapshotChunk], muts: &[Mutation]) -> Delivery {
    let mut items: Vec<Item> = orig.iter().cloned().map(Item::Chunk).collect();
    let mut final_stall = None;
    // index of the i-th chunk item
    fn chunk_positions(items: &[Item]) -> Vec<usize> {
        items.iter().enumerate().filter(|(_, it)| matches!(it, Item::Chunk(_))).map(|(i, _)| i).collect()
    }
    for m in muts {
        let pos = chunk_positions(&items);
        let n = pos.len();
        match m {
            Mutation::Drop { at } if n > 0 => {
                items.remove(pos[pick(*at, n)]);
            }
            Mutation::Dup { at } if n > 0 => {
                let p = pos[pick(*at, n)];
                let c = items[p].clone();
                items.insert(p + 1, c);
            }
            Mutation::Swap { a, b } if n > 0 => {
                items.swap(pos[pick(*a, n)], pos[pick(*b, n)]);
            }
            Mutation::CorruptData { at, byte, xor } if n > 0 => {
                if let Item::Chunk(c) = &mut items[pos[pick(*at, n)]] {
                    if !c.data.is_empty() {
                        let mut d = c.data.to_vec();
                        let i = pick(*byte, d.len());
                        d[i] ^= (*xor).max(1);
                        c.data = d.into();
                    }
                }
            }
            Mutation::CorruptChecksum { at, byte, xor } if n > 0 => {
                if let Item::Chunk(c) = &mut items[pos[pick(*at, n)]] {
                    if !c.chunk_checksum.is_empty() {
                        let mut d = c.chunk_checksum.to_vec();
                        let i = (*byte as usize) % d.len();
                        d[i] ^= (*xor).max(1);
                        c.chunk_checksum = d.into();
                    }
                }
            }
            Mutation::LeaderId { at, tail } if n > 0 => {
                let first = pick(*at, n);
                for (k, p) in pos.iter().enumerate() {
                    if k == first || (*tail && k > first) {
                        if let Item::Chunk(c) = &mut items[*p] {
                            c.leader_id += 1;
                        }
                    }
                }
            }
            Mutation::LeaderTerm { at, tail } if n > 0 => {
                let first = pick(*at, n);
                for (k, p) in pos.iter().enumerate() {
                    if k == first || (*tail && k > first) {
                        if let Item::Chunk(c) = &mut items[*p] {
                            c.leader_term += 1;
                        }
                    }
                }
            }
            Mutation::EarlyClose { keep } => {
                let k = pick(*keep, n + 1); // keep k chunks
                if k < n {
                    items.truncate(pos[k]);
                    final_stall = None;
                }
            }
            Mutation::StripMeta { at } if n > 0 => {
                if let Item::Chunk(c) = &mut items[pos[pick(*at, n)]] {
                    c.metadata = None;
                }
            }
            Mutation::Stall { at, long } => {
                let k = pick(*at, n + 1);
                if k < n {
                    items.insert(pos[k], Item::Stall(*long));
                } else {
                    final_stall = Some(*long || final_stall == Some(true));
                }
            }
            _ => {}
        }
    }
    Delivery { items, final_stall }
}

/// First content deviation of the delivered chunk sequence from the original, as (position, kind);
/// None = exactly the original chunks, in order, from one leader and term.
fn first_deviation(orig: &[SnapshotChunk], delivered: &[&SnapshotChunk]) -> Option<(usize, &'static str)> {
    let lead = delivered.first().map(|c| (c.leader_term, c.leader_id));
    for (i, d) in delivered.iter().enumerate() {
        if i >= orig.len() {
            return Some((i, "extra-chunk"));
        }
        let o = &orig[i];
        if d.seq != o.seq {
            return Some((i, if d.seq < o.seq { "repeated-chunk" } else { "missing-chunk" }));
        }
        if Some((d.leader_term, d.leader_id)) != lead {
            return Some((i, "leader-change"));
        }
        if d.metadata != o.metadata {
            return Some((i, "missing-metadata"));
        }
        if d.data != o.data || d.chunk_checksum != o.chunk_checksum {
            return Some((i, "corrupt-chunk"));
        }
    }
    if delivered.len() < orig.len() {
        return Some((delivered.len(), "truncated-stream"));
    }
    None
}

#[derive(Clone, Debug, PartialEq, Eq)]
struct Seen {
    obs: Obs,
    finals: BTreeMap<String, (u64, u64)>,
}

#[derive(Debug)]
enum Res {
    Ok,
    Err(String),
    Crashed,
}

struct Attempt {
    res: Res,
    acks: usize,
    closed: bool,
    /// violations seen at the per-ACK observation points: (point, what)
    mid: Vec<(usize, String)>,
    timed_out_stall: bool,
}

/// Runs one transfer of `delivery` into B on a fresh paused-clock runtime.
fn run_transfer<E: Eng>(b: &Node<E>, delivery: Delivery, crash: Option<(usize, u32)>, term: u64, before: &Seen, incoming_name: &str, complete: (u64, u64)) -> Attempt {
    let rt = tokio::runtime::Builder::new_current_thread().enable_all().start_paused(true).build().expect("runtime");
    let timeout_s = b.cfg.receive_chunk_timeout_in_sec;
    let ctl = Arc::new(CrashCtl::default());
    if let Some((0, polls)) = crash {
        ctl.budget.store(polls, Ordering::SeqCst);
        ctl.armed.store(true, Ordering::SeqCst);
    }
    let sm = b.sm.clone();
    let lease = b.lease.clone();
    let snap_dir: PathBuf = b.snap_dir.clone();
    let before_c = before.clone();
    let incoming = incoming_name.to_string();
    let shared: Arc<Mutex<(usize, bool, Vec<(usize, String)>)>> = Arc::new(Mutex::new((0, false, vec![])));
    let shared_f = shared.clone();
    let ctl_f = ctl.clone();

    let res = rt.block_on(async {
        let (tx, rx) = mpsc::channel::<SnapshotChunk>(32);
        let (ack_tx, mut ack_rx) = mpsc::channel(32);
        let feeder = tokio::spawn(async move {
            let observe = |point: usize| {
                // the transfer is not complete at any ACK point: nothing may have changed yet
                let now = Seen { obs: observe_sm(&*sm, &lease), finals: list_finals(&snap_dir) };
                if now.finals != before_c.finals {
                    let what = match now.finals.get(&incoming) {
                        Some(v) if Some(v) != before_c.finals.get(&incoming) && *v != complete => format!("partial final-named file {incoming} {v:?} (complete {complete:?})"),
                        _ => format!("final files changed before the stream ended: {:?} -> {:?}", before_c.finals, now.finals),
                    };
                    shared_f.lock().unwrap().2.push((point, what));
                } else if now.obs != before_c.obs {
                    shared_f.lock().unwrap().2.push((point, format!("state changed before the stream ended: {:?} -> {:?}", before_c.obs, now.obs)));
                }
            };
            let mut acks = 0usize;
            let mut alive = true;
            for it in delivery.items {
                match it {
                    Item::Stall(long) => {
                        tokio::time::sleep(Duration::from_secs(if long { timeout_s + 1 } else { timeout_s.saturating_sub(1) })).await;
                    }
                    Item::Chunk(c) => {
                        if tx.send(c).await.is_err() {
                            alive = false;
                            break;
                        }
                        match ack_rx.recv().await {
                            Some(_) => {
                                acks += 1;
                                shared_f.lock().unwrap().0 = acks;
                                observe(acks);
                                if let Some((k, polls)) = crash {
                                    if k == acks {
                                        ctl_f.budget.store(polls, Ordering::SeqCst);
                                        ctl_f.armed.store(true, Ordering::SeqCst);
                                    }
                                }
                            }
                            None => {
                                alive = false;
                                break;
                            }
                        }
                    }
                }
            }
            if alive {
                if let Some(long) = delivery.final_stall {
                    tokio::time::sleep(Duration::from_secs(if long { timeout_s + 1 } else { timeout_s.saturating_sub(1) })).await;
                }
                shared_f.lock().unwrap().1 = true;
            }
            drop(tx);
            while ack_rx.recv().await.is_some() {}
        });
        let fut = Limited { inner: Some(Box::pin(b.h.apply_snapshot_stream_from_leader(term, rx, ack_tx, &b.cfg))), ctl: ctl.clone() };
        let r = fut.await;
        let _ = feeder.await;
        match r {
            Some(Ok(())) => Res::Ok,
            Some(Err(e)) => Res::Err(format!("{e:?}")),
            None => Res::Crashed,
        }
    });
    // waits for blocking file operations that were already submitted
    drop(rt);
    let g = shared.lock().unwrap();
    let timed_out_stall = matches!(&res, Res::Err(e) if e.contains("No chunk received"));
    Attempt { res, acks: g.0, closed: g.1, mid: g.2.clone(), timed_out_stall }
}

fn run_case<E: Eng>(c: &Case) -> Outcome {
    let mut out = Outcome::ok();
    out.add_label(if c.rocks { "engine_rocks" } else { "engine_file" });
    let n = c.log.len();
    let retained = c.retained.clamp(1, 3) as usize;
    if n < retained + 1 {
        out.add_label("degenerate_short_log");
        return out;
    }
    let entries = build_entries(&c.log);
    let terms = terms_of(&c.log);
    let root = work_dir("c17");
    let setup_rt = tokio::runtime::Builder::new_current_thread().enable_all().build().expect("runtime");

    // ---------------- setup: A with snapshot, chunk list; B with previous state ----------------------
    type Setup<E> = (Node<E>, Node<E>, Vec<SnapshotChunk>, Obs, d_engine_proto::common::LogId, (u64, u64));
    let setup: Result<Setup<E>, String> = setup_rt.block_on(async {
        let a = Node::<E>::open(&root.join("a"), 1, 1024, retained as u64).await?;
        let b = Node::<E>::open(&root.join("b"), 2, 1024, retained as u64).await?;
        a.apply(&entries, &[3]).await?;
        let (meta, path) = a.h.create_snapshot().await.map_err(|e| format!("A.create_snapshot: {e:?}"))?;
        let label = meta.last_included.ok_or("no last_included")?;
        let a_dump = a.observe();
        let bytes = std::fs::read(&path).map_err(|e| format!("read snapshot file: {e}"))?;
        let size = bytes.len();
        let want = (c.n_chunks as usize).clamp(2, 40);
        // largest chunk size that still yields >= want chunks (but at least 16 bytes per chunk)
        let mut cs = size.div_ceil(want).max(16);
        while cs > 16 && size.div_ceil(cs) < want {
            cs -= 1;
        }
        let sender = a.handler_with_chunk_size(cs);
        let leader_meta = a.sm.snapshot_metadata().ok_or("A has no snapshot metadata")?;
        let chunks = load_chunks(&sender, leader_meta).await?;
        // receiver's previous state
        let bmin = if c.b_own_snapshot { retained + 1 } else { 1 };
        let bp = bmin + pick(c.b_prefix, n - bmin + 1);
        b.apply(&entries[..bp], &[2]).await?;
        if c.b_own_snapshot {
            b.h.create_snapshot().await.map_err(|e| format!("B.create_snapshot: {e:?}"))?;
        }
        Ok((a, b, chunks, a_dump, label, (size as u64, fp(&bytes))))
    });
    drop(setup_rt);
    let (a, b, chunks, a_dump, label, complete) = match setup {
        Ok(x) => x,
        Err(e) => {
            rm_dir(&root);
            out.add_label(format!("harness_error:{}", e.chars().take(40).collect::<String>()));
            return out;
        }
    };
    let total = chunks.len();
    out.count("chunks", total as u64);
    if total < 2 {
        out.add_label("single_chunk");
    }
    if c.b_own_snapshot {
        out.add_label("b_own_snapshot");
    }
    let incoming_name = final_name(label.index, label.term);
    let before = Seen { obs: b.observe(), finals: list_finals(&b.snap_dir) };
    if before.finals.contains_key(&incoming_name) {
        out.add_label("final_name_collision");
    }

    // ---------------- the mutated transfer ----------------------------------------------------------
    let delivery = apply_mutations(&chunks, &c.muts);
    let delivered: Vec<SnapshotChunk> = delivery.items.iter().filter_map(|i| if let Item::Chunk(c) = i { Some(c.clone()) } else { None }).collect();
    let n_items = delivered.len();
    let delivered_refs: Vec<&SnapshotChunk> = delivered.iter().collect();
    let dev = first_deviation(&chunks, &delivered_refs);
    let long_stall = delivery.items.iter().any(|i| matches!(i, Item::Stall(true))) || delivery.final_stall == Some(true);
    let crash = c.crash.as_ref().map(|cr| (pick(cr.after_acks, n_items + 1), cr.polls as u32));
    let cur_term = *terms.last().unwrap();

    let att = run_transfer(&b, Delivery { items: delivery.items.clone(), final_stall: delivery.final_stall }, crash, cur_term, &before, &incoming_name, complete);
    let after = Seen { obs: b.observe(), finals: list_finals(&b.snap_dir) };

    match dev {
        None => out.add_label("pristine"),
        Some((_, k)) => {
            out.add_label("effective_mutation");
            out.add_label(format!("dev:{k}"));
        }
    }
    if long_stall {
        out.add_label("long_stall");
    }
    let kind: &'static str = match (&att.res, dev) {
        (Res::Crashed, Some((p, k))) if p < att.acks + 1 => k,
        (Res::Crashed, _) => "crash-mid-stream",
        (_, Some((_, k))) => k,
        (_, None) if att.timed_out_stall => "stall-timeout",
        (_, None) => "valid-stream",
    };
    // the complete valid stream was consumed and the channel closed before the attempt ended
    let complete_valid = dev.is_none() && att.acks == total && att.closed && !att.timed_out_stall;
    let snapshot_state = |s: &Seen| -> bool {
        s.obs.contents().ok() == a_dump.contents().ok()
            && a_dump.contents().is_ok()
            && s.obs.last_applied == (label.index, label.term)
            && matches!(&s.obs.snap_meta, Some((i, t, _)) if *i == label.index && *t == label.term)
        // (whether the leases inside the snapshot are restored faithfully is judged by C16)
    };
    let finals_with_new = {
        let mut f = before.finals.clone();
        f.insert(incoming_name.clone(), complete);
        f
    };
    let mut first_attempt_untouched = false;

    if let Some((p, what)) = att.mid.first() {
        out.violate(format!("C17:change-before-stream-end-{kind}"), format!("after ACK #{p}: {what}"));
    }
    match &att.res {
        Res::Ok => {
            out.add_label("res_ok");
            if let Some((p, k)) = dev {
                out.violate(format!("C17:accepted-despite-{k}"), format!("apply_snapshot_stream_from_leader returned Ok although delivered chunk #{p} deviates ({k}); {} of {} chunks delivered", n_items, total));
            } else if !snapshot_state(&after) {
                out.violate("C17:ok-but-state-not-snapshot", format!("after Ok: B {:?} vs snapshot state {:?} label {label:?}", after.obs, a_dump));
            } else if after.finals != finals_with_new {
                out.violate("C17:ok-but-final-file-not-complete", format!("after Ok: finals {:?}, expected {:?}", after.finals, finals_with_new));
            }
        }
        Res::Err(e) => {
            out.add_label("res_err");
            if complete_valid {
                // not a partial / corrupted / interrupted transfer: the statement leaves this open
                out.add_label("err_on_complete_valid_stream");
            } else {
                first_attempt_untouched = true;
                if after.finals != before.finals {
                    out.violate(format!("C17:final-file-after-{kind}"), format!("transfer failed ({e}) but final snapshot files changed: {:?} -> {:?} (incoming {incoming_name}, complete {complete:?})", before.finals, after.finals));
                } else if after.obs != before.obs {
                    out.violate(format!("C17:state-changed-after-{kind}"), format!("transfer failed ({e}) but state changed: {:?} -> {:?}", before.obs, after.obs));
                }
            }
        }
        Res::Crashed => {
            out.add_label("res_crash");
            if complete_valid {
                out.add_label("crash_in_finalization");
                if after.finals == finals_with_new {
                    out.add_label("crash_final_file_present");
                }
                // file atomicity: old set or old set + complete new file
                if after.finals != before.finals && after.finals != finals_with_new {
                    out.violate("C17:non-atomic-final-file-at-crash", format!("crash during finalization: finals {:?}; allowed {:?} or {:?}", after.finals, before.finals, finals_with_new));
                } else if after.obs == before.obs {
                    out.add_label("crash_state_old");
                } else if snapshot_state(&after) {
                    out.add_label("crash_state_new");
                } else {
                    out.add_label(format!("crash_state_in_between_not_judged:{}:{}", if c.rocks { "rocks" } else { "file" }, if after.obs.kv.is_err() { "not_serving" } else { "readable" }));
                }
            } else {
                first_attempt_untouched = true;
                if after.finals != before.finals {
                    out.violate(format!("C17:final-file-after-{kind}"), format!("receiver dropped after {} ACKs but final snapshot files changed: {:?} -> {:?}", att.acks, before.finals, after.finals));
                } else if after.obs != before.obs {
                    out.violate(format!("C17:state-changed-after-{kind}"), format!("receiver dropped after {} ACKs but state changed: {:?} -> {:?}", att.acks, before.obs, after.obs));
                }
            }
        }
    }
    if c.crash.is_some() && !matches!(att.res, Res::Crashed) {
        out.add_label("crash_not_reached");
    }

    // ---------------- documented: an interrupted transfer restarts cleanly ---------------------------
    if c.retry && first_attempt_untouched && out.violation.is_none() {
        let pristine = Delivery { items: chunks.iter().cloned().map(Item::Chunk).collect(), final_stall: None };
        let att2 = run_transfer(&b, pristine, None, cur_term, &before, &incoming_name, complete);
        let after2 = Seen { obs: b.observe(), finals: list_finals(&b.snap_dir) };
        if let Some((p, what)) = att2.mid.first() {
            out.violate("C17:change-before-stream-end-retry", format!("retry, after ACK #{p}: {what}"));
        }
        match att2.res {
            Res::Ok => {
                out.add_label("retry_ok");
                if !snapshot_state(&after2) {
                    out.violate("C17:retry-ok-but-state-not-snapshot", format!("retry after {kind}: B {:?} vs snapshot state {:?}", after2.obs, a_dump));
                } else if after2.finals != finals_with_new {
                    out.violate("C17:retry-ok-but-final-file-not-complete", format!("retry after {kind}: finals {:?}, expected {:?}", after2.finals, finals_with_new));
                }
            }
            Res::Err(e) => out.violate("C17:retry-after-interrupted-transfer-failed", format!("pristine retry after {kind} failed: {e}")),
            Res::Crashed => {}
        }
    }

    let first_dev_before_last = matches!(dev, Some((p, _)) if p + 1 < total);
    out.nontrivial = first_dev_before_last || (matches!(att.res, Res::Crashed) && att.acks >= 1);
    let trace: Vec<(u32, bool, bool, bool, u64, u32)> = delivered.iter().map(|d| (d.seq, d.metadata.is_some(), d.data == chunks.get(d.seq as usize).map(|o| o.data.clone()).unwrap_or_default(), d.chunk_checksum == chunks.get(d.seq as usize).map(|o| o.chunk_checksum.clone()).unwrap_or_default(), d.leader_term, d.leader_id)).collect();
    out.fingerprint = fp(&(c.rocks, total, trace, long_stall, crash, c.b_own_snapshot));
    drop(b);
    drop(a);
    rm_dir(&root);
    out
}
