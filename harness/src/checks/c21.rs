//! C21 — saved term and vote are never lost or corrupted (File and RocksDB meta stores).
//!
//! Generator: 1..=6 `save_hard_state` calls with non-decreasing terms and arbitrary votes.
//! Fault enumeration: for the File meta store a dry run with a counting crash-point callback lists
//! every crash point of every save (`meta.save.after_create|after_write|after_flush`); each of them,
//! plus "right after save j returned", is executed in its own child process that `abort()`s there
//! (process-crash semantics: whatever was handed to the OS survives). RocksDB has no internal crash
//! points: the child aborts before the first save and after each save returned, without closing the DB.
//! Oracle after reopening the directory: `load_hard_state()` ∈ {previous saved value, value being
//! saved}; once a save returned it is that value; never `None` after a first successful save; never an
//! error.
use std::cell::RefCell;
use std::path::Path;
use std::rc::Rc;

use d_engine_core::{verif_hooks, HardState, MetaStore, StorageEngine};
use d_engine_proto::server::election::VotedFor;
use d_engine_server::{FileStorageEngine, RocksDBStorageEngine};
use proptest::prelude::*;
use serde::{Deserialize, Serialize};

use super::simdisk::{crash_now, hs_eq, read_spec, spawn_child, sub_dir, ChildExit, Findings};
use crate::runner::{fp, rm_dir, work_dir, Check, Outcome, Tier};

#[derive(Clone, Debug, Serialize, Deserialize, Hash, PartialEq)]
pub struct Hs {
    pub term: u64,
    /// (voted_for_id, voted_for_term, committed)
    pub vote: Option<(u32, u64, bool)>,
}
impl Hs {
    fn to_hard_state(&self) -> HardState {
        HardState {
            current_term: self.term,
            voted_for: self.vote.map(|(id, t, c)| VotedFor { voted_for_id: id, voted_for_term: t, committed: c }),
        }
    }
}

#[derive(Clone, Debug, Serialize, Deserialize, Hash)]
pub struct Case {
    /// term increments (terms never decrease, as the RaftLog contract demands of callers) and votes
    pub saves: Vec<(u64, Option<(u32, u64, bool)>)>,
    pub first_term: u64,
}
impl Case {
    fn values(&self) -> Vec<Hs> {
        let mut t = self.first_term;
        self.saves
            .iter()
            .map(|(d, v)| {
                t = t.saturating_add(*d);
                Hs { term: t, vote: *v }
            })
            .collect()
    }
}

#[derive(Clone, Debug, Serialize, Deserialize)]
pub struct ChildSpec {
    pub engine: String,
    pub dir: String,
    pub values: Vec<Hs>,
    /// number of saves executed to completion
    pub n_full: usize,
    /// crash at the k-th crash-point hit inside save `n_full` (None: abort right after the last full save)
    pub crash_in_next: Option<usize>,
}

pub struct C21;

fn num() -> BoxedStrategy<u64> {
    prop_oneof![
        6 => 0u64..4,
        2 => 0u64..1000,
        1 => prop_oneof![Just(255u64), Just(256), Just(65535), Just(65536), Just(u32::MAX as u64), Just(1u64 << 32)],
        1 => any::<u64>().prop_map(|x| x >> 1),
    ]
    .boxed()
}
fn vote() -> BoxedStrategy<Option<(u32, u64, bool)>> {
    prop_oneof![
        2 => Just(None),
        3 => (prop_oneof![1u32..6, any::<u32>()], num(), any::<bool>()).prop_map(Some),
    ]
    .boxed()
}

impl Check for C21 {
    type Case = Case;
    fn id(&self) -> &'static str {
        "C21"
    }
    fn level(&self) -> &'static str {
        "fault_enumeration"
    }
    fn rule(&self) -> String {
        "cases = 1..=6 save_hard_state calls (non-decreasing terms incl. width boundaries, votes None/Some); for each case EVERY crash point is executed in its own child process: File = each hit of meta.save.after_create|after_write|after_flush of each save (found by a counting dry run) + after each return; RocksDB = before the first save and after each return (abort without closing the DB); non-trivial = at least one crash strictly inside a save was executed and judged; distinct by hash of the value sequence".into()
    }
    fn assumptions(&self) -> Vec<String> {
        vec![
            "process-crash semantics only: data handed to the OS before abort() survives; power loss (unsynced data lost) is not reachable for the real engines".into(),
            "no crash point exists inside a single write(2) of the ~30 byte hard state, so torn writes are not generated".into(),
            "callers never decrease the term (RaftLog::save_hard_state contract)".into(),
        ]
    }
    fn cases(&self, tier: Tier) -> u32 {
        match tier {
            Tier::Quick => 96,
            Tier::Thorough => 1000,
        }
    }
    fn required_labels(&self) -> Vec<&'static str> {
        vec!["crash_inside_save", "overwrite_some_by_none", "rocksdb_abort_between_saves"]
    }
    fn case_timeout(&self) -> std::time::Duration {
        std::time::Duration::from_secs(300)
    }
    fn strategy(&self, _tier: Tier) -> BoxedStrategy<Case> {
        (proptest::collection::vec((num(), vote()), 1..=6), num())
            .prop_map(|(saves, first_term)| Case { saves, first_term })
            .boxed()
    }
    fn fixed_cases(&self) -> Vec<Case> {
        vec![Case { saves: vec![(0, Some((1, 1, false))), (1, None)], first_term: 1 }]
    }

    fn run(&self, case: &Case) -> Outcome {
        let mut out = Outcome::ok();
        let values = case.values();
        let n = values.len();
        let root = work_dir("c21");
        let mut f = Findings::default();

        // ---------------- dry run (in-process): list the crash points of every save -------------
        let names: Vec<Vec<&'static str>> = {
            let dir = sub_dir(&root, "dry-file");
            let eng = FileStorageEngine::new(dir.clone()).expect("harness: open file engine (dry run)");
            let ms = eng.meta_store();
            let cur: Rc<RefCell<Vec<&'static str>>> = Rc::new(RefCell::new(vec![]));
            let c2 = cur.clone();
            verif_hooks::set_crash_point(Some(Box::new(move |name| c2.borrow_mut().push(name))));
            let mut all = vec![];
            for v in &values {
                cur.borrow_mut().clear();
                let r = ms.save_hard_state(&v.to_hard_state());
                all.push(cur.borrow().clone());
                if let Err(e) = r {
                    verif_hooks::set_crash_point(None);
                    panic!("harness: file save_hard_state failed in dry run: {e:?}");
                }
                match ms.load_hard_state() {
                    Ok(l) if hs_eq(&l, &Some(v.to_hard_state())) => {}
                    other => f.add("C21:file-live-load-differs-from-saved", format!("saved {v:?}, live load returned {other:?}")),
                }
            }
            verif_hooks::set_crash_point(None);
            all
        };
        let inside: usize = names.iter().map(|v| v.len()).sum();

        // ---------------- File: every crash point ------------------------------------------------
        let mut executed = 0u64;
        let mut k_dir = 0usize;
        for j in 0..n {
            let prev = if j == 0 { None } else { Some(values[j - 1].clone()) };
            for (k, pname) in names[j].iter().enumerate() {
                let dir = sub_dir(&root, &format!("f{k_dir}"));
                k_dir += 1;
                let spec = ChildSpec { engine: "file".into(), dir: dir.display().to_string(), values: values.clone(), n_full: j, crash_in_next: Some(k) };
                let ex = spawn_child("c21", &dir, "spec.json", &spec);
                if ex != ChildExit::Aborted {
                    panic!("harness: C21 file child did not reach crash point {k} of save {j}");
                }
                executed += 1;
                judge("file", &dir, &[prev.clone(), Some(values[j].clone())], pname, j, &mut f);
            }
            // after save j returned
            let dir = sub_dir(&root, &format!("f{k_dir}"));
            k_dir += 1;
            let spec = ChildSpec { engine: "file".into(), dir: dir.display().to_string(), values: values.clone(), n_full: j + 1, crash_in_next: None };
            let ex = spawn_child("c21", &dir, "spec.json", &spec);
            assert_eq!(ex, ChildExit::Aborted, "harness: C21 file child must abort");
            executed += 1;
            judge("file", &dir, &[Some(values[j].clone())], "after-return", j, &mut f);
        }

        // ---------------- RocksDB: abort before the first save / after each return ---------------
        for j in 0..=n {
            let dir = sub_dir(&root, &format!("r{j}"));
            let dbdir = dir.join("db");
            let spec = ChildSpec { engine: "rocksdb".into(), dir: dbdir.display().to_string(), values: values.clone(), n_full: j, crash_in_next: None };
            let ex = spawn_child("c21", &dir, "spec.json", &spec);
            assert_eq!(ex, ChildExit::Aborted, "harness: C21 rocksdb child must abort");
            executed += 1;
            let expect = if j == 0 { None } else { Some(values[j - 1].clone()) };
            judge("rocksdb", &dbdir, &[expect], "after-return", j.saturating_sub(1), &mut f);
        }
        rm_dir(&root);

        out.count("crash_points_executed", executed);
        out.count("crash_points_inside_file_save", inside as u64);
        out.add_label(format!("saves_{n}"));
        if inside > 0 {
            out.add_label("crash_inside_save");
        }
        if n >= 2 {
            out.add_label("rocksdb_abort_between_saves");
        }
        if values.windows(2).any(|w| w[0].vote.is_some() && w[1].vote.is_none()) {
            out.add_label("overwrite_some_by_none");
        }
        if values.windows(2).any(|w| w[0].vote.is_none() && w[1].vote.is_some()) {
            out.add_label("overwrite_none_by_some");
        }
        if values.windows(2).any(|w| w[0] == w[1]) {
            out.add_label("resave_identical");
        }
        out.nontrivial = inside > 0;
        out.fingerprint = fp(&values);
        f.report("C21", &mut out);
        out
    }
}

fn slug(p: &str) -> String {
    p.replace(['.', '_'], "-")
}

/// Reopens the directory and judges `load_hard_state()` against the allowed values.
fn judge(engine: &str, dir: &Path, allowed: &[Option<Hs>], point: &str, save_idx: usize, f: &mut Findings) {
    let loaded: Result<Option<HardState>, String> = if engine == "file" {
        match FileStorageEngine::new(dir.to_path_buf()) {
            Ok(eng) => eng.meta_store().load_hard_state().map_err(|e| format!("{e:?}")),
            Err(e) => Err(format!("open: {e:?}")),
        }
    } else {
        match RocksDBStorageEngine::new(dir) {
            Ok(eng) => {
                let r = eng.meta_store().load_hard_state().map_err(|e| format!("{e:?}"));
                drop(eng);
                r
            }
            Err(e) => Err(format!("open: {e:?}")),
        }
    };
    let allowed_hs: Vec<Option<HardState>> = allowed.iter().map(|a| a.as_ref().map(|h| h.to_hard_state())).collect();
    let ctx = format!("engine={engine} crash at {point} of save #{save_idx}; allowed after restart: {allowed:?}");
    match loaded {
        Err(e) => f.add(format!("C21:{engine}-load-error-after-crash-{}", slug(point)), format!("{ctx}; restart failed/undecodable: {e}")),
        Ok(l) => {
            if allowed_hs.iter().any(|a| hs_eq(a, &l)) {
                return;
            }
            if l.is_none() {
                let sig = if engine == "file" && point == "meta.save.after_create" {
                    "C21:file-meta-truncate-before-write".to_string()
                } else {
                    format!("C21:{engine}-state-missing-after-crash-{}", slug(point))
                };
                f.add(sig, format!("{ctx}; load_hard_state() returned None (state lost or undecodable)"));
            } else {
                f.add(format!("C21:{engine}-wrong-state-after-crash-{}", slug(point)), format!("{ctx}; load_hard_state() returned {l:?}"));
            }
        }
    }
}

/// Child-process entry.
pub fn child(spec_path: &str) -> i32 {
    let spec: ChildSpec = read_spec(spec_path);
    let vals: Vec<HardState> = spec.values.iter().map(|h| h.to_hard_state()).collect();
    fn run_saves<M: MetaStore>(ms: &M, vals: &[HardState], spec: &ChildSpec) -> i32 {
        for v in &vals[..spec.n_full] {
            ms.save_hard_state(v).expect("save_hard_state");
        }
        match spec.crash_in_next {
            None => crash_now(),
            Some(k) => {
                let mut seen = 0usize;
                verif_hooks::set_crash_point(Some(Box::new(move |_name| {
                    if seen == k {
                        crash_now();
                    }
                    seen += 1;
                })));
                let _ = ms.save_hard_state(&vals[spec.n_full]);
                verif_hooks::set_crash_point(None);
                0 // crash point not reached
            }
        }
    }
    if spec.engine == "file" {
        let eng = FileStorageEngine::new(spec.dir.clone().into()).expect("open file engine");
        let ms = eng.meta_store();
        run_saves(&*ms, &vals, &spec)
    } else {
        let eng = RocksDBStorageEngine::new(&spec.dir).expect("open rocksdb engine");
        let ms = eng.meta_store();
        run_saves(&*ms, &vals, &spec)
    }
}
