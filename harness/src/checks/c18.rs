//! C18 — the Raft log recovers a durable, gap-free prefix after a crash.
//!
//! Generator: op sequences on the real `BufferedRaftLog` (leader append at the tail, follower
//! AppendEntries with a conflict anywhere in the log — in particular below the durable mark — then
//! more appends, non-conflicting overlapping AppendEntries, purge, reset, flush, "let the IO task
//! run", crash + restart + continue) over
//!   (1) `SimDisk` (page cache / durable split, one mutation event per persisted entry, atomic
//!       replace_range / purge / reset, `flush()` = cache -> durable). The IO task runs as a tokio task
//!       on the interpreter's current-thread runtime. ONE execution is judged at EVERY mutation event k
//!       under BOTH crash semantics (process crash: recover from the page-cache image after event k;
//!       power loss: from the durable image after event k).
//!   (2) the real File and RocksDB engines in a child process that `abort()`s after every op and at
//!       every File crash point hit inside persist / purge / replace_range (one child per crash point,
//!       counted by a dry run). Process-crash semantics only.
//! Oracle after restart (`BufferedRaftLog::new` on the recovered store): (G) indexes are consecutive
//! from the first to the last entry; (D) every entry that the log had reported durable before the crash
//! (an observed `durable_index() >= i` while the log held that entry at i, or `flush()` returning Ok
//! after it was written) and that was not since truncated / purged / reset is present with identical
//! content; (R) no entry that a conflict truncation replaced is present (process crash: once
//! `filter_out_conflicts_and_append` returned; power loss: once a later `flush()` returned Ok).
//! Only facts observed through the public API are used; obligations are cancelled when the replacing
//! op is INVOKED, and an interval between two events must satisfy every obligation that held at some
//! instant inside it (the crash may hit at any of those instants and finds the same disk).
use std::cell::RefCell;
use std::collections::{BTreeMap, BTreeSet, HashMap};
use std::path::Path;
use std::rc::Rc;
use std::sync::Arc;
use std::time::Duration;

use d_engine_core::{verif_hooks, BufferedRaftLog, FlushPolicy, PersistenceConfig, PersistenceStrategy, RaftLog, TypeConfig};
use d_engine_proto::common::{Entry, LogId};
use d_engine_server::node::RaftTypeConfig;
use d_engine_server::{FileStateMachine, FileStorageEngine, RocksDBStateMachine, RocksDBStorageEngine};
use proptest::prelude::*;
use serde::{Deserialize, Serialize};

use super::simdisk::{crash_now, ent_of, ents_of, mk_entry, read_obs, read_spec, spawn_child, sub_dir, ChildExit, Ent, Findings, Image, ObsLog, SimDisk, SimHandle};
use crate::runner::{fp, pick, rm_dir, work_dir, Check, Outcome, Tier};

type SimT = RaftTypeConfig<SimDisk, FileStateMachine>;
type FileT = RaftTypeConfig<FileStorageEngine, FileStateMachine>;
type RocksT = RaftTypeConfig<RocksDBStorageEngine, RocksDBStateMachine>;

#[derive(Clone, Debug, Serialize, Deserialize, Hash, PartialEq)]
pub enum Op {
    /// leader-style append of `n` entries at the tail (`bump`: a new term starts first)
    Append { n: u8, bump: bool },
    /// follower AppendEntries from a new leader (term + 1) whose entries conflict from the log
    /// position picked by `at`; `keep` matching entries precede the conflicting ones in the request
    Conflict { at: u16, keep: u8, n: u8 },
    /// follower AppendEntries without conflict: the last `overlap` entries again + `n` new ones
    Overlap { overlap: u8, n: u8 },
    Purge { upto: u16 },
    Reset,
    Flush,
    /// let the IO task run
    Yield { n: u8 },
    /// SimDisk only: crash now, restart on the recovered disk, continue with the remaining ops
    CrashRestart { power: bool },
}

#[derive(Clone, Copy, Debug, Serialize, Deserialize, Hash, PartialEq)]
pub enum Backend {
    Sim,
    File,
    Rocks,
}

#[derive(Clone, Debug, Serialize, Deserialize, Hash)]
pub struct Case {
    pub backend: Backend,
    pub ops: Vec<Op>,
    /// Sim: the store yields to the scheduler before every mutation (finer interleavings)
    pub yield_inside: bool,
    /// File/Rocks children: IO task on its own OS thread (production wiring; crashes at op boundaries
    /// only) instead of the child's current-thread runtime (crash points inside the store reachable)
    pub io_thread: bool,
}

#[derive(Clone, Debug, Serialize, Deserialize, PartialEq)]
pub enum Cancel {
    None,
    /// conflict truncation from this index on
    From(u64),
    UpTo(u64),
    All,
}

#[derive(Clone, Debug, Serialize, Deserialize)]
pub enum Rec {
    /// written BEFORE the op is invoked
    Begin { op: usize, kind: String, cancel: Cancel, appends: bool },
    /// written after the op returned: result + observations through the public API
    End { op: usize, ok: bool, flush_ok: bool, durable: u64, live: Vec<Ent> },
    /// observation through the public API at the start of a store call (SimDisk only)
    Probe { durable: u64, live: Vec<Ent> },
    CrashAt(String),
    Count(Vec<String>),
}

fn persistence() -> PersistenceConfig {
    PersistenceConfig { strategy: PersistenceStrategy::MemFirst, flush_policy: FlushPolicy::Batch { idle_flush_interval_ms: 3_600_000 }, max_buffered_entries: 10_000 }
}

// ------------------------------------------------------------------------------------------------
// interpreter (shared by the in-process Sim run and the File/RocksDB children)
// ------------------------------------------------------------------------------------------------
pub struct InterpState {
    pub cur_term: u64,
    pub next_uid: u32,
}

async fn guard<F: std::future::Future>(what: &str, f: F) -> F::Output {
    match tokio::time::timeout(Duration::from_secs(30), f).await {
        Ok(v) => v,
        Err(_) => panic!("harness: BufferedRaftLog::{what} did not complete within 30 s"),
    }
}

fn live_of<T: TypeConfig>(log: &BufferedRaftLog<T>) -> Vec<Entry> {
    let first = log.first_entry_id();
    let last = log.last_entry_id();
    if first == 0 || last < first {
        return vec![];
    }
    log.get_entries_range(first..=last).unwrap_or_default()
}

fn end_rec<T: TypeConfig>(log: &BufferedRaftLog<T>, op: usize, ok: bool, flush_ok: bool) -> Rec {
    // durable_index first, then the content: the content only changes through our own calls
    let durable = log.durable_index();
    Rec::End { op, ok, flush_ok, durable, live: ents_of(&live_of(log)) }
}

/// Executes one op. Returns false for `CrashRestart` (handled by the caller).
async fn step<T: TypeConfig>(log: &Arc<BufferedRaftLog<T>>, op_idx: usize, op: &Op, st: &mut InterpState, threaded: bool, sink: &mut dyn FnMut(Rec)) -> bool {
    let live = live_of(log);
    let mut fresh = |st: &mut InterpState, index: u64, term: u64| {
        let e = mk_entry(index, term, st.next_uid);
        st.next_uid += 1;
        e
    };
    let max_term = live.last().map(|e| e.term).unwrap_or(0);
    if st.cur_term < max_term {
        st.cur_term = max_term;
    }
    // an op that needs a non-empty log degrades to a plain append
    let op = match op {
        Op::Conflict { n, .. } | Op::Overlap { n, .. } if live.is_empty() => Op::Append { n: (*n).max(1), bump: false },
        o => o.clone(),
    };
    match op {
        Op::Append { n, bump } => {
            if bump {
                st.cur_term += 1;
            }
            let next = log.last_log_id().map(|l| l.index).unwrap_or(0) + 1;
            let term = st.cur_term;
            let ents: Vec<Entry> = (0..n.max(1) as u64).map(|k| fresh(st, next + k, term)).collect();
            sink(Rec::Begin { op: op_idx, kind: "append".into(), cancel: Cancel::None, appends: true });
            let r = guard("append_entries", log.append_entries(ents)).await;
            sink(end_rec(log, op_idx, r.is_ok(), false));
        }
        Op::Conflict { at, keep, n } => {
            let first = live[0].index;
            let d = first + pick(at, live.len()) as u64;
            let mut keep_k = (keep as u64).min(d - first);
            // prev must be something the follower can verify: an entry of the log, the purge
            // boundary, or (0,0) on a never-purged log (which is the "start from scratch" request)
            let mut prev_index = d - keep_k - 1;
            let mut prev_term = log.entry_term(prev_index);
            if prev_term.is_none() && prev_index != 0 {
                // no verifiable predecessor below the first entry: keep the first entry as prev
                if d == first {
                    // cannot conflict at the very first entry without a predecessor: skip
                    sink(Rec::Begin { op: op_idx, kind: "skip".into(), cancel: Cancel::None, appends: false });
                    sink(end_rec(log, op_idx, true, false));
                    return true;
                }
                keep_k = d - first - 1;
                prev_index = first;
                prev_term = log.entry_term(first);
            }
            let prev_term = prev_term.unwrap_or(0);
            st.cur_term += 1;
            let mut req: Vec<Entry> = live.iter().filter(|e| e.index >= d - keep_k && e.index < d).cloned().collect();
            let term = st.cur_term;
            for k in 0..n.max(1) as u64 {
                req.push(fresh(st, d + k, term));
            }
            let scratch = prev_index == 0 && prev_term == 0;
            // prev (0,0) is the virtual position before the first entry (d-engine 1b45a42: it no longer
            // resets the log): the request's matching prefix is kept and the log is truncated from the
            // first conflicting index d like for any other prev
            let cancel = Cancel::From(d);
            sink(Rec::Begin { op: op_idx, kind: if scratch { "conflict-prev-zero".into() } else { "conflict".into() }, cancel, appends: true });
            let r = guard("filter_out_conflicts_and_append", log.filter_out_conflicts_and_append(prev_index, prev_term, req)).await;
            sink(end_rec(log, op_idx, r.is_ok(), false));
        }
        Op::Overlap { overlap, n } => {
            let last = live.last().unwrap().index;
            let ov = (overlap as usize).min(live.len() - 1);
            let prev_index = last - ov as u64;
            let prev_term = live.iter().find(|e| e.index == prev_index).map(|e| e.term).unwrap_or(0);
            let mut req: Vec<Entry> = live.iter().filter(|e| e.index > prev_index).cloned().collect();
            let term = st.cur_term;
            for k in 0..n as u64 {
                req.push(fresh(st, last + 1 + k, term));
            }
            sink(Rec::Begin { op: op_idx, kind: "overlap".into(), cancel: Cancel::None, appends: n > 0 });
            let r = guard("filter_out_conflicts_and_append", log.filter_out_conflicts_and_append(prev_index, prev_term, req)).await;
            sink(end_rec(log, op_idx, r.is_ok(), false));
        }
        Op::Purge { upto } => {
            if live.is_empty() {
                sink(Rec::Begin { op: op_idx, kind: "skip".into(), cancel: Cancel::None, appends: false });
                sink(end_rec(log, op_idx, true, false));
                return true;
            }
            let e = &live[pick(upto, live.len())];
            let cutoff = LogId { index: e.index, term: e.term };
            sink(Rec::Begin { op: op_idx, kind: "purge".into(), cancel: Cancel::UpTo(cutoff.index), appends: false });
            let r = guard("purge_logs_up_to", log.purge_logs_up_to(cutoff)).await;
            sink(end_rec(log, op_idx, r.is_ok(), false));
        }
        Op::Reset => {
            sink(Rec::Begin { op: op_idx, kind: "reset".into(), cancel: Cancel::All, appends: false });
            let r = guard("reset", log.reset()).await;
            sink(end_rec(log, op_idx, r.is_ok(), false));
        }
        Op::Flush => {
            sink(Rec::Begin { op: op_idx, kind: "flush".into(), cancel: Cancel::None, appends: false });
            let r = guard("flush", log.flush()).await;
            sink(end_rec(log, op_idx, r.is_ok(), r.is_ok()));
        }
        Op::Yield { n } => {
            sink(Rec::Begin { op: op_idx, kind: "yield".into(), cancel: Cancel::None, appends: false });
            if threaded {
                tokio::time::sleep(Duration::from_micros(300 * n.max(1) as u64)).await;
            } else {
                for _ in 0..n.max(1) {
                    tokio::task::yield_now().await;
                }
            }
            sink(end_rec(log, op_idx, true, false));
        }
        Op::CrashRestart { .. } => return false,
    }
    true
}

// ------------------------------------------------------------------------------------------------
// obligations timeline
// ------------------------------------------------------------------------------------------------
/// conflict truncation at/below the durable mark (durable_index / pending_max not lowered)
const ZONE_STALE_DURABLE: u8 = 1;
/// purge cutoff above the durable mark: durable_index jumps to the cutoff, un-persisted entries are skipped
const ZONE_PURGE_ABOVE_DURABLE: u8 = 3;
/// conflict truncation above un-persisted entries: ReplaceRange moves pending_max past them
const ZONE_REPLACE_ABOVE_UNPERSISTED: u8 = 4;
/// durable_index non-zero right after reset() returned
const ZONE_STALE_AFTER_RESET: u8 = 6;

#[derive(Default)]
struct Timeline {
    /// entries currently owed: index -> instance
    obl: BTreeMap<u64, Ent>,
    dead_proc: BTreeSet<u32>,
    dead_power: BTreeSet<u32>,
    /// root-cause classification aid: index ranges put at risk by an op, newest last.
    /// (kind, lo, hi); kinds see `ZONE_*`.
    zones: Vec<(u8, u64, u64)>,
    zones_at: Vec<Vec<(u8, u64, u64)>>,
    last_op_was_reset: bool,
    last_durable: u64,
    prev_live: Vec<Ent>,
    pending_conflict_from: Option<u64>,
    trunc_below_durable: bool,
    // per event interval
    req: Vec<BTreeSet<Ent>>,
    forb_proc: Vec<BTreeSet<u32>>,
    forb_power: Vec<BTreeSet<u32>>,
    cur_k: usize,
    // labels
    labels: BTreeSet<&'static str>,
}
impl Timeline {
    /// The event counter is now `k`: everything owed right now was owed throughout [cur_k, k].
    fn advance(&mut self, k: usize) {
        while self.req.len() <= k {
            self.req.push(BTreeSet::new());
            self.forb_proc.push(BTreeSet::new());
            self.forb_power.push(BTreeSet::new());
            self.zones_at.push(vec![]);
        }
        for j in self.cur_k..=k {
            for z in &self.zones {
                if !self.zones_at[j].contains(z) {
                    self.zones_at[j].push(*z);
                }
            }
            self.req[j].extend(self.obl.values().cloned());
            self.forb_proc[j].extend(self.dead_proc.iter().cloned());
            self.forb_power[j].extend(self.dead_power.iter().cloned());
        }
        self.cur_k = k;
    }
    fn apply(&mut self, rec: &Rec) {
        match rec {
            Rec::Begin { cancel, appends, .. } => {
                if *appends && self.trunc_below_durable {
                    self.labels.insert("trunc_below_durable_then_append");
                }
                match cancel {
                    Cancel::None => {}
                    Cancel::From(d) => {
                        self.obl.retain(|&i, _| i < *d);
                        self.pending_conflict_from = Some(*d);
                        self.labels.insert("conflict_truncation");
                        if self.last_durable >= *d {
                            self.zones.push((ZONE_STALE_DURABLE, *d, self.last_durable));
                            self.trunc_below_durable = true;
                            self.labels.insert("conflict_below_durable");
                        } else if self.last_durable + 1 < *d {
                            self.zones.push((ZONE_REPLACE_ABOVE_UNPERSISTED, self.last_durable + 1, *d - 1));
                            self.labels.insert("conflict_above_unpersisted");
                        }
                    }
                    Cancel::UpTo(c) => {
                        self.obl.retain(|&i, _| i > *c);
                        self.labels.insert("purge");
                        if self.last_durable > *c {
                            self.labels.insert("purge_below_durable");
                        } else if self.last_durable < *c {
                            self.zones.push((ZONE_PURGE_ABOVE_DURABLE, self.last_durable + 1, *c));
                            self.labels.insert("purge_above_durable");
                        }
                    }
                    Cancel::All => {
                        self.obl.clear();
                        // (zones are dropped when the reset has returned: until then the store may
                        // still show what earlier ops left behind)
                        self.trunc_below_durable = false;
                        self.last_op_was_reset = true;
                        self.labels.insert("reset");
                    }
                }
            }
            Rec::End { ok, flush_ok, durable, live, .. } => {
                let last_live = live.last().map(|e| e.0).unwrap_or(0);
                if let Some(d) = self.pending_conflict_from.take() {
                    if *ok {
                        for e in self.prev_live.iter().filter(|e| e.0 >= d) {
                            if !live.contains(e) {
                                self.dead_proc.insert(e.2);
                            }
                        }
                        if *durable > last_live && *durable >= d {
                            // the durable mark sits above the truncated log
                            self.zones.push((ZONE_STALE_DURABLE, d, *durable));
                            self.trunc_below_durable = true;
                            self.labels.insert("conflict_below_durable");
                        }
                    }
                }
                if std::mem::take(&mut self.last_op_was_reset) {
                    // zones are kept for the whole epoch: the durable image may show what earlier ops
                    // left behind long after a reset
                    if *ok && *durable > 0 {
                        self.zones.push((ZONE_STALE_AFTER_RESET, 1, *durable));
                        self.labels.insert("durable_nonzero_after_reset");
                    }
                }
                if *flush_ok {
                    self.labels.insert("flush_ok");
                    for e in live {
                        self.obl.insert(e.0, *e);
                    }
                    // flush() promises that everything written before survives any crash; for an empty
                    // log it has nothing to make durable and we do not read more into it
                    if !live.is_empty() {
                        let dp = self.dead_proc.clone();
                        self.dead_power.extend(dp);
                    } else {
                        self.labels.insert("flush_on_empty_log");
                    }
                }
                for e in live.iter().filter(|e| e.0 <= *durable) {
                    self.obl.insert(e.0, *e);
                }
                if *durable > last_live && !live.is_empty() {
                    // only a truncation can leave the durable mark above the last entry (a purge cutoff
                    // lies inside the log): whatever is appended into that range counts as durable unseen
                    self.labels.insert("durable_above_last");
                    let z = (ZONE_STALE_DURABLE, last_live + 1, *durable);
                    if !self.zones.contains(&z) {
                        self.zones.push(z);
                        self.trunc_below_durable = true;
                    }
                }
                self.last_durable = *durable;
                self.prev_live = live.clone();
            }
            Rec::Probe { durable, live } => {
                // While a conflict truncation from index d is in flight (filter_out_conflicts_and_append
                // has replaced the in-memory tail but has not returned: it awaits the IO task, which
                // lowers the durable mark when it replaces the range in the store), the pair
                // (durable mark, in-memory content at >= d) is not a report of any completed call: the
                // only caller is suspended inside that call. The mark is judged again when the call
                // returns. (False alarm corrected: DESIGN.md "false alarms".)
                let limit = self.pending_conflict_from.unwrap_or(u64::MAX);
                for e in live.iter().filter(|e| e.0 <= *durable && e.0 < limit) {
                    self.obl.insert(e.0, *e);
                }
                self.last_durable = *durable;
            }
            Rec::CrashAt(_) | Rec::Count(_) => {}
        }
    }
}

#[derive(Clone, Debug)]
struct Recovered {
    first: u64,
    last: u64,
    ents: Vec<Ent>,
}
fn recover<T: TypeConfig>(engine: Arc<T::SE>) -> Recovered {
    let (log, _rx) = BufferedRaftLog::<T>::new(1, persistence(), engine);
    let first = log.first_entry_id();
    let last = log.last_entry_id();
    let ents = if first == 0 || last < first { vec![] } else { ents_of(&log.get_entries_range(first..=last).unwrap_or_default()) };
    // cross-check the point lookup against the range read
    let mut by_point = vec![];
    if first > 0 {
        for i in first..=last {
            if let Ok(Some(e)) = log.entry(i) {
                by_point.push(ent_of(&e));
            }
        }
    }
    let ents = if by_point.len() < ents.len() { by_point } else { ents };
    Recovered { first, last, ents }
}

/// Judges one recovered log. Returns (symptom, failing index, detail).
fn judge(r: &Recovered, req: &BTreeSet<Ent>, forb: &BTreeSet<u32>) -> Option<(&'static str, u64, String)> {
    // (G) consecutive from the first entry
    if r.first == 0 {
        if !r.ents.is_empty() || r.last != 0 {
            return Some(("gap", 0, format!("first_entry_id()=0 but last={} entries={:?}", r.last, r.ents)));
        }
    } else {
        for (j, e) in r.ents.iter().enumerate() {
            if e.0 != r.first + j as u64 {
                return Some(("gap", r.first + j as u64, format!("recovered log has an index gap at {}: first={} last={} entries={:?}", r.first + j as u64, r.first, r.last, r.ents)));
            }
        }
        if r.ents.len() as u64 != r.last - r.first + 1 {
            return Some(("gap", r.first + r.ents.len() as u64, format!("recovered log first={} last={} but only {} entries: {:?}", r.first, r.last, r.ents.len(), r.ents)));
        }
    }
    // (D) every entry reported durable is present with identical content
    for want in req {
        match r.ents.iter().find(|e| e.0 == want.0) {
            Some(e) if e == want => {}
            Some(e) => return Some(("durable-entry-content-differs", want.0, format!("entry {want:?} (index, term, uid) had been reported durable; recovered log holds {e:?} at that index; recovered={:?}", r.ents))),
            None => return Some(("durable-entry-missing", want.0, format!("entry {want:?} (index, term, uid) had been reported durable but is absent after restart; recovered={:?}", r.ents))),
        }
    }
    // (R) nothing that a conflict truncation replaced comes back
    for e in &r.ents {
        if forb.contains(&e.2) {
            return Some(("replaced-entry-reappeared", e.0, format!("entry {e:?} had been replaced by a conflict truncation but is back after restart; recovered={:?}", r.ents)));
        }
    }
    None
}

fn signature(backend: &str, sem: &str, symptom: &str, idx: u64, zones: &[(u8, u64, u64)], crash_at: Option<&str>) -> String {
    if backend == "file" && crash_at.is_some_and(|n| n.starts_with("log.purge.")) && (symptom == "durable-entry-missing" || symptom == "gap") {
        return "C18:file-purge-in-place-rewrite-loses-entries".into();
    }
    if backend == "file" && symptom == "replaced-entry-reappeared" {
        // process crash: the page cache has the replace applied, so a replaced entry can only come
        // back from a stale duplicate record that FileLogStore's offset-based truncation left in log.data
        return "C18:file-truncate-leaves-stale-duplicate-records".into();
    }
    // newest zone containing the failing index names the root cause
    if let Some((kind, _, _)) = zones.iter().rev().find(|(_, lo, hi)| idx >= *lo && idx <= *hi) {
        return match *kind {
            ZONE_STALE_DURABLE => "C18:durable-index-not-lowered-on-conflict-truncate".into(),
            ZONE_PURGE_ABOVE_DURABLE => "C18:purge-raises-durable-index-over-unpersisted-entries".into(),
            ZONE_REPLACE_ABOVE_UNPERSISTED => "C18:replace-range-jumps-over-unpersisted-entries".into(),
            _ => "C18:durable-index-survives-reset".into(),
        };
    }
    match crash_at {
        Some(n) if n.starts_with("log.") => format!("C18:{backend}-{symptom}-crash-in-{}", n.split('.').nth(1).unwrap_or("store")),
        _ => format!("C18:{backend}-{symptom}-after-{sem}"),
    }
}

// ------------------------------------------------------------------------------------------------
// Sim run: one execution, all crash points, both semantics
// ------------------------------------------------------------------------------------------------
fn run_sim(case: &Case, f: &mut Findings, out: &mut Outcome, labels: &mut BTreeSet<&'static str>) {
    let rt = tokio::runtime::Builder::new_current_thread().enable_all().build().unwrap();
    rt.block_on(async {
        let mut image = Image::default();
        let mut st = InterpState { cur_term: 1, next_uid: 1 };
        let mut pos = 0usize;
        let mut epoch = 0usize;
        loop {
            let handle = SimHandle::new(image.clone(), case.yield_inside);
            let disk = Arc::new(SimDisk::new(handle.clone()));
            verif_hooks::set_io_task_on_caller_runtime(true);
            let (log, rx) = BufferedRaftLog::<SimT>::new(1, persistence(), disk);
            let log = log.start(rx, None);
            verif_hooks::set_io_task_on_caller_runtime(false);

            let tl = Arc::new(std::sync::Mutex::new(Timeline::default()));
            let trace: Arc<std::sync::Mutex<Vec<(usize, Rec)>>> = Arc::new(std::sync::Mutex::new(vec![]));
            let record = {
                let tl = tl.clone();
                let handle = handle.clone();
                let trace = trace.clone();
                move |rec: Rec| {
                    let k = handle.events();
                    let mut t = tl.lock().unwrap();
                    t.advance(k);
                    t.apply(&rec);
                    t.advance(k);
                    trace.lock().unwrap().push((k, rec));
                }
            };
            let mut sink = record.clone();
            {
                // observe durable_index()/content at the start of every store call as well
                let weak = Arc::downgrade(&log);
                let record = record.clone();
                handle.set_probe(Some(Box::new(move || {
                    if let Some(log) = weak.upgrade() {
                        let durable = log.durable_index();
                        record(Rec::Probe { durable, live: ents_of(&live_of(&log)) });
                    }
                })));
            }
            // what the restarted log claims right away
            sink(end_rec(&log, pos, true, false));
            let mut restart: Option<bool> = None;
            while pos < case.ops.len() {
                let op = &case.ops[pos];
                if let Op::CrashRestart { power } = op {
                    restart = Some(*power);
                    pos += 1;
                    break;
                }
                step(&log, pos, op, &mut st, false, &mut sink).await;
                pos += 1;
            }
            handle.set_probe(None);
            let k_end = handle.events();
            tl.lock().unwrap().advance(k_end);

            // ---- judge every crash point of this epoch ------------------------------------------
            let t = tl.lock().unwrap();
            let mut cache: HashMap<*const Image, Recovered> = HashMap::new();
            let mut points = 0u64;
            let mut end_image_bad = [false, false];
            for k in 0..=k_end {
                let (pc, du) = handle.at(k);
                for (sem, img) in [("process-crash", &pc), ("power-loss", &du)] {
                    let rec = cache.entry(Arc::as_ptr(img)).or_insert_with(|| recover::<SimT>(Arc::new(SimDisk::new(SimHandle::new((**img).clone(), false))))).clone();
                    points += 1;
                    let forb = if sem == "process-crash" { &t.forb_proc[k] } else { &t.forb_power[k] };
                    if let Some((symptom, idx, detail)) = judge(&rec, &t.req[k], forb) {
                        if k == k_end {
                            end_image_bad[(sem == "power-loss") as usize] = true;
                        }
                        let sig = signature("sim", sem, symptom, idx, &t.zones_at[k], None);
                        let hist: Vec<String> = {
                            // probes are shown only when they saw the durable mark move
                            let mut last_d = u64::MAX;
                            let mut v = vec![];
                            for (k, r) in trace.lock().unwrap().iter() {
                                match r {
                                    Rec::Probe { durable, live } => {
                                        if *durable != last_d {
                                            v.push(format!("@{k} probe-at-store-call {{ durable: {durable}, live: {live:?} }}"));
                                        }
                                        last_d = *durable;
                                    }
                                    Rec::End { durable, .. } => {
                                        last_d = *durable;
                                        v.push(format!("@{k} {r:?}"));
                                    }
                                    _ => v.push(format!("@{k} {r:?}")),
                                }
                            }
                            v
                        };
                        f.add(sig, format!("SimDisk epoch {epoch}, {sem} after store event {k} of {k_end}: {detail}; api trace: {}", hist.join(" | ")));
                    }
                }
            }
            out.count("crash_points_judged", points);
            out.count("store_events", k_end as u64);
            labels.extend(t.labels.iter().cloned());
            drop(t);
            log.close().await;
            match restart {
                Some(power) if end_image_bad[power as usize] => {
                    // the disk we would restart from already violates the property (reported above):
                    // whatever follows would only re-report its consequences
                    labels.insert("restart_image_already_violating");
                    break;
                }
                Some(power) => {
                    let (pc, du) = handle.at(k_end);
                    image = if power { (*du).clone() } else { (*pc).clone() };
                    labels.insert(if power { "restart_after_power_loss" } else { "restart_after_process_crash" });
                    epoch += 1;
                }
                None => break,
            }
        }
    });
}

// ------------------------------------------------------------------------------------------------
// File / RocksDB children
// ------------------------------------------------------------------------------------------------
#[derive(Clone, Debug, Serialize, Deserialize, PartialEq)]
pub enum CrashSel {
    /// dry run: count crash-point hits, exit normally
    Count,
    /// abort at the k-th crash-point hit inside the store
    Point(usize),
    /// abort right after the End record of op j was written
    AfterOp(usize),
}
#[derive(Clone, Debug, Serialize, Deserialize)]
pub struct ChildSpec {
    pub backend: Backend,
    pub dir: String,
    pub obs: String,
    pub ops: Vec<Op>,
    pub io_thread: bool,
    pub crash: CrashSel,
}

async fn child_run<T: TypeConfig>(engine: Arc<T::SE>, spec: &ChildSpec, obs: Rc<RefCell<ObsLog>>) {
    verif_hooks::set_io_task_on_caller_runtime(!spec.io_thread);
    let (log, rx) = BufferedRaftLog::<T>::new(1, persistence(), engine);
    let log = log.start(rx, None);
    verif_hooks::set_io_task_on_caller_runtime(false);
    let names: Rc<RefCell<Vec<String>>> = Rc::new(RefCell::new(vec![]));
    match spec.crash.clone() {
        CrashSel::Count => {
            let n = names.clone();
            verif_hooks::set_crash_point(Some(Box::new(move |name| n.borrow_mut().push(name.to_string()))));
        }
        CrashSel::Point(k) => {
            let o = obs.clone();
            let mut seen = 0usize;
            verif_hooks::set_crash_point(Some(Box::new(move |name| {
                if seen == k {
                    o.borrow_mut().put(&Rec::CrashAt(name.to_string()));
                    crash_now();
                }
                seen += 1;
            })));
        }
        CrashSel::AfterOp(_) => {}
    }
    let mut st = InterpState { cur_term: 1, next_uid: 1 };
    let crash = spec.crash.clone();
    let o = obs.clone();
    let mut sink = move |rec: Rec| {
        o.borrow_mut().put(&rec);
        if let (Rec::End { op, .. }, CrashSel::AfterOp(j)) = (&rec, &crash) {
            if op == j {
                crash_now();
            }
        }
    };
    for (i, op) in spec.ops.iter().enumerate() {
        step(&log, i, op, &mut st, spec.io_thread, &mut sink).await;
    }
    verif_hooks::set_crash_point(None);
    if spec.crash == CrashSel::Count {
        obs.borrow_mut().put(&Rec::Count(names.borrow().clone()));
        std::process::exit(0);
    }
    // selected crash point not reached (IO-task schedules differ between runs): crash here instead
    crash_now()
}

pub fn child(spec_path: &str) -> i32 {
    let spec: ChildSpec = read_spec(spec_path);
    let rt = tokio::runtime::Builder::new_current_thread().enable_all().build().unwrap();
    let obs = Rc::new(RefCell::new(ObsLog::create(Path::new(&spec.obs))));
    rt.block_on(async {
        match spec.backend {
            Backend::File => {
                let eng = Arc::new(FileStorageEngine::new(spec.dir.clone().into()).expect("open file engine"));
                child_run::<FileT>(eng, &spec, obs).await;
            }
            Backend::Rocks => {
                let eng = Arc::new(RocksDBStorageEngine::new(&spec.dir).expect("open rocksdb engine"));
                child_run::<RocksT>(eng, &spec, obs).await;
            }
            Backend::Sim => panic!("Sim backend has no child"),
        }
    });
    // selected crash point not reached (schedules differ between runs): crash at the end instead
    crash_now()
}

fn run_child_case(case: &Case, f: &mut Findings, out: &mut Outcome, labels: &mut BTreeSet<&'static str>) {
    let root = work_dir("c18");
    let bname = if case.backend == Backend::File { "file" } else { "rocksdb" };
    let ops: Vec<Op> = case.ops.iter().filter(|o| !matches!(o, Op::CrashRestart { .. })).cloned().collect();
    let mk_spec = |dir: &Path, crash: CrashSel| ChildSpec {
        backend: case.backend,
        dir: dir.join("data").display().to_string(),
        obs: dir.join("obs.jsonl").display().to_string(),
        ops: ops.clone(),
        io_thread: case.io_thread,
        crash,
    };
    // dry run: list the crash-point hits (File engine with the IO task on the child's runtime)
    let mut names: Vec<String> = vec![];
    if case.backend == Backend::File && !case.io_thread {
        let dir = sub_dir(&root, "count");
        let ex = spawn_child("c18", &dir, "spec.json", &mk_spec(&dir, CrashSel::Count));
        if ex != ChildExit::Completed {
            panic!("harness: C18 count child did not complete");
        }
        let recs: Vec<Rec> = read_obs(&dir.join("obs.jsonl"));
        names = recs.iter().find_map(|r| if let Rec::Count(v) = r { Some(v.clone()) } else { None }).expect("harness: no Count record");
    }
    let mut sels: Vec<CrashSel> = (0..names.len()).map(CrashSel::Point).collect();
    sels.extend((0..ops.len()).map(CrashSel::AfterOp));
    let mut executed = 0u64;
    for (si, sel) in sels.iter().enumerate() {
        let dir = sub_dir(&root, &format!("p{si}"));
        let spec = mk_spec(&dir, sel.clone());
        let ex = spawn_child("c18", &dir, "spec.json", &spec);
        if ex != ChildExit::Aborted {
            panic!("harness: C18 child did not abort ({sel:?})");
        }
        executed += 1;
        let recs: Vec<Rec> = read_obs(&dir.join("obs.jsonl"));
        let mut tl = Timeline::default();
        for r in &recs {
            tl.apply(r);
        }
        tl.advance(0);
        let crash_at = recs.iter().find_map(|r| if let Rec::CrashAt(n) = r { Some(n.clone()) } else { None });
        if let Some(n) = &crash_at {
            if n.starts_with("log.purge.") {
                labels.insert("crash_inside_purge");
            } else if n.starts_with("log.replace.") {
                labels.insert("crash_inside_replace_range");
            } else if n.starts_with("log.persist.") {
                labels.insert("crash_inside_persist");
            }
        }
        labels.extend(tl.labels.iter().cloned());
        let data = dir.join("data");
        let rec = if case.backend == Backend::File {
            match FileStorageEngine::new(data.clone()) {
                Ok(e) => recover::<FileT>(Arc::new(e)),
                Err(e) => {
                    f.add("C18:file-reopen-failed-after-crash", format!("reopen failed after {sel:?}: {e:?}"));
                    continue;
                }
            }
        } else {
            match RocksDBStorageEngine::new(&data) {
                Ok(e) => recover::<RocksT>(Arc::new(e)),
                Err(e) => {
                    f.add("C18:rocksdb-reopen-failed-after-crash", format!("reopen failed after {sel:?}: {e:?}"));
                    continue;
                }
            }
        };
        if let Some((symptom, idx, detail)) = judge(&rec, &tl.req[0], &tl.forb_proc[0]) {
            let sig = signature(bname, "process-crash", symptom, idx, &tl.zones_at[0], crash_at.as_deref());
            let hist: Vec<String> = recs.iter().map(|r| format!("{r:?}")).collect();
            f.add(sig, format!("{bname} engine, io_thread={}, child aborted at {sel:?} ({crash_at:?}): {detail}; api trace: {}", case.io_thread, hist.join(" | ")));
        }
    }
    out.count("crash_points_judged", executed);
    out.count("child_processes", executed + 1);
    rm_dir(&root);
}

// ------------------------------------------------------------------------------------------------
// generator
// ------------------------------------------------------------------------------------------------
fn op_strategy(allow_restart: bool) -> BoxedStrategy<Op> {
    let mut v: Vec<(u32, BoxedStrategy<Op>)> = vec![
        (6, (1u8..=3, proptest::bool::weighted(0.25)).prop_map(|(n, bump)| Op::Append { n, bump }).boxed()),
        (4, (any::<u16>(), 0u8..=2, 1u8..=3).prop_map(|(at, keep, n)| Op::Conflict { at, keep, n }).boxed()),
        (1, (0u8..=3, 0u8..=2).prop_map(|(overlap, n)| Op::Overlap { overlap, n }).boxed()),
        (2, any::<u16>().prop_map(|upto| Op::Purge { upto }).boxed()),
        (1, Just(Op::Reset).boxed()),
        (3, Just(Op::Flush).boxed()),
        (3, (1u8..=3).prop_map(|n| Op::Yield { n }).boxed()),
    ];
    if allow_restart {
        v.push((1, any::<bool>().prop_map(|power| Op::CrashRestart { power }).boxed()));
    }
    proptest::strategy::Union::new_weighted(v).boxed()
}

pub struct C18;

impl Check for C18 {
    type Case = Case;
    fn id(&self) -> &'static str {
        "C18"
    }
    fn level(&self) -> &'static str {
        "fault_enumeration"
    }
    fn rule(&self) -> String {
        "cases = op sequences (2..=14 ops: tail append, conflicting AppendEntries anywhere in the log incl. below the durable mark, overlapping AppendEntries, purge, reset, flush, IO-task turns, crash+restart+continue) on the real BufferedRaftLog; SimDisk cases judge EVERY store mutation event under both process-crash and power-loss images; File/RocksDB cases run one child per crash point (every File crash-point hit + after every op); non-trivial = a conflict truncation at or below the observed durable mark followed by a later append, or a child crash inside File purge; distinct by hash of (backend, ops, flags)".into()
    }
    fn assumptions(&self) -> Vec<String> {
        vec![
            "SimDisk: persist_entries is not atomic (one event per entry), replace_range / purge / reset are atomic, flush() makes the whole page cache durable; power loss = durable image, process crash = page-cache image".into(),
            "real File/RocksDB engines are exercised under process-crash semantics only (child abort); power loss is modelled on SimDisk only".into(),
            "the IO task is scheduled on the interpreter's current-thread runtime (hook set_io_task_on_caller_runtime) for SimDisk and for children with io_thread=false; tokio::select! picks ready branches pseudo-randomly, so two runs of one case may take different IO-task branch orders — the oracle only uses facts observed in the same run".into(),
            "callers are sequential (one Raft loop): ops are never issued concurrently; purge cutoffs and conflict points lie inside the current log".into(),
            "log starts empty; entries carry unique payload ids so that content identity is decidable".into(),
        ]
    }
    fn cases(&self, tier: Tier) -> u32 {
        match tier {
            Tier::Quick => 12_000,
            Tier::Thorough => 120_000,
        }
    }
    fn required_labels(&self) -> Vec<&'static str> {
        vec!["conflict_below_durable", "trunc_below_durable_then_append", "purge", "flush_ok", "sim"]
    }
    fn case_timeout(&self) -> Duration {
        Duration::from_secs(600)
    }
    fn strategy(&self, _tier: Tier) -> BoxedStrategy<Case> {
        let sim = (proptest::collection::vec(op_strategy(true), 2..=14), any::<bool>()).prop_map(|(ops, yield_inside)| Case { backend: Backend::Sim, ops, yield_inside, io_thread: false });
        let file = (proptest::collection::vec(op_strategy(false), 2..=9), proptest::bool::weighted(0.2)).prop_map(|(ops, io_thread)| Case { backend: Backend::File, ops, yield_inside: false, io_thread });
        let rocks = (proptest::collection::vec(op_strategy(false), 2..=9), proptest::bool::weighted(0.4)).prop_map(|(ops, io_thread)| Case { backend: Backend::Rocks, ops, yield_inside: false, io_thread });
        prop_oneof![984 => sim, 10 => file, 6 => rocks].boxed()
    }
    fn fixed_cases(&self) -> Vec<Case> {
        let purge_crash = vec![Op::Append { n: 3, bump: false }, Op::Flush, Op::Purge { upto: 0 }];
        let stale = vec![Op::Append { n: 3, bump: false }, Op::Flush, Op::Conflict { at: 30000, keep: 0, n: 1 }, Op::Append { n: 2, bump: false }, Op::Flush];
        vec![
            Case { backend: Backend::File, ops: purge_crash.clone(), yield_inside: false, io_thread: false },
            Case { backend: Backend::Rocks, ops: purge_crash, yield_inside: false, io_thread: false },
            Case { backend: Backend::Sim, ops: stale.clone(), yield_inside: false, io_thread: false },
            Case { backend: Backend::File, ops: stale.clone(), yield_inside: false, io_thread: false },
            Case { backend: Backend::Rocks, ops: stale, yield_inside: false, io_thread: true },
        ]
    }

    fn run(&self, case: &Case) -> Outcome {
        let mut out = Outcome::ok();
        let mut f = Findings::default();
        let mut labels: BTreeSet<&'static str> = BTreeSet::new();
        match case.backend {
            Backend::Sim => {
                labels.insert("sim");
                if case.yield_inside {
                    labels.insert("sim_yield_inside");
                }
                run_sim(case, &mut f, &mut out, &mut labels)
            }
            Backend::File => {
                labels.insert(if case.io_thread { "file_io_thread" } else { "file_io_on_caller" });
                run_child_case(case, &mut f, &mut out, &mut labels)
            }
            Backend::Rocks => {
                labels.insert(if case.io_thread { "rocksdb_io_thread" } else { "rocksdb_io_on_caller" });
                run_child_case(case, &mut f, &mut out, &mut labels)
            }
        }
        out.nontrivial = labels.contains("trunc_below_durable_then_append") || labels.contains("crash_inside_purge");
        for l in labels {
            out.add_label(l);
        }
        out.fingerprint = fp(case);
        f.report("C18", &mut out);
        out
    }
}
