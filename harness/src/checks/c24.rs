//! C24 — watch streams deliver committed changes in order, with no silent gaps.
//!
//! System under test (real code, wired exactly like `NodeBuilder::build`): a
//! `tokio::sync::broadcast` channel of `event_queue_size`, `WatchRegistry::new_with_limits`,
//! `WatchDispatcher::run` spawned as a task, and a `DefaultStateMachineHandler` (with the broadcast
//! sender and the registry's prev_kv counter) over a real `FileStateMachine`. Everything runs on a
//! paused-clock current-thread tokio runtime, so the interleaving of the test driver and the
//! dispatcher task is a pure function of the case.
//!
//! Oracle (per watcher): the data events received are a gap-free, duplicate-free, in-order run of
//! the committed mutations that match the watcher (key equality / documented '/'-terminated prefix
//! rule) and were applied after `register` returned (mutations that were still queued in the
//! broadcast channel at registration are tolerated and labelled); revision == entry index; type,
//! key, value correct; no event for a failed CAS; if the run stops short of the model's list then
//! the next item is CANCELED and nothing follows it; Progress revisions never exceed the applied
//! index and never decrease.
//!
//! The harness observes the real broadcast backlog (`Sender::len`) at the instant the handler
//! broadcasts (via the `sm.apply.after_last_applied` hook, which runs on the same thread right before
//! the synchronous broadcast) and derives exactly which events the channel evicted. A gap that
//! consists only of evicted events gets the signature `C24:broadcast-lagged-silently-drops-events`;
//! any other gap / mismatch gets a different signature, so other root causes stay visible even in
//! cases where the channel lagged.
use std::cell::Cell;
use std::collections::BTreeMap;
use std::rc::Rc;
use std::sync::atomic::AtomicU64;
use std::sync::Arc;
use std::time::Duration;

use bytes::Bytes;
use d_engine_core::watch::{WatchDispatcher, WatchEvent, WatchEventType, WatchRegistry, WatcherHandle};
use d_engine_core::{DefaultStateMachineHandler, LogSizePolicy, SnapshotConfig, StateMachineHandler};
use d_engine_proto::client::WriteCommand;
use d_engine_proto::common::entry_payload::Payload;
use d_engine_proto::common::{Entry, EntryPayload, Noop};
use d_engine_server::node::RaftTypeConfig;
use d_engine_server::{FileStateMachine, FileStorageEngine};
use prost::Message;
use proptest::prelude::*;
use serde::{Deserialize, Serialize};
use tokio::sync::{broadcast, mpsc};

use crate::runner::{fp, pick, rm_dir, work_dir, Check, Outcome, Tier};

type T = RaftTypeConfig<FileStorageEngine, FileStateMachine>;

/// Heartbeat period used when the heartbeat is on. The dispatcher adds a ±10 % start jitter seeded
/// from the wall clock; the driver only moves the virtual clock to instants ≡ period/2 (mod period),
/// which is outside every possible jitter window, so the number of ticks per step is deterministic.
const HB_MS: u64 = 1000;
/// `queue` value standing for "large enough that the broadcast channel cannot lag in this case".
pub const BIG_QUEUE: u16 = 4096;

pub const KEYS: &[&[u8]] = &[
    b"/a/x", b"/a/y", b"/a/b/z", b"/a", b"/a/", b"/ab", b"/ab/x", b"/a/b", b"/a/b/", b"/", b"a/x", b"k", b"", b"/b/x", b"//",
    b"/a//x",
];
pub const PREFIXES: &[&[u8]] = &[b"/a/", b"/", b"/a/b/", b"/ab/", b"/b/", b"//", b"/a", b"a/", b""];

#[derive(Clone, Debug, Serialize, Deserialize, Hash, PartialEq)]
pub enum Exp {
    /// expected = None (key must not exist)
    Absent,
    /// expected = the value the key currently holds in the model (None if absent) → succeeds
    Current,
    /// expected = Some([v]) (Some(empty) for v == 0)
    Value(u8),
}

#[derive(Clone, Debug, Serialize, Deserialize, Hash, PartialEq)]
pub enum M {
    Put { k: u16, v: u8 },
    Del { k: u16 },
    Cas { k: u16, exp: Exp, v: u8 },
    Noop,
}

#[derive(Clone, Debug, Serialize, Deserialize, Hash, PartialEq)]
pub enum Op {
    /// register an exact (`prefix == false`, key from KEYS) or prefix (from PREFIXES) watcher
    Reg { prefix: bool, k: u16, prev_kv: bool },
    /// consumer goes away: drains what is buffered, then drops the handle (auto-unregister)
    Unreg { w: u16 },
    /// `into_receiver()` (the gRPC-stream style): keeps receiving, no auto-unregister
    Detach { w: u16 },
    /// consumer reads up to n buffered events
    Drain { w: u16, n: u8 },
    /// one chunk through the real handler.apply_chunk
    Apply { muts: Vec<M> },
    /// let the dispatcher task run
    Yield { n: u8 },
    /// advance the virtual clock by k heartbeat periods (and let the dispatcher run)
    Tick { k: u8 },
}

#[derive(Clone, Debug, Serialize, Deserialize, Hash)]
pub struct Case {
    pub queue: u16,
    pub wbuf: u8,
    /// 0 = unlimited
    pub max_watchers: u8,
    pub heartbeat: bool,
    pub ops: Vec<Op>,
}

pub struct C24;

fn val(v: u8) -> Bytes {
    if v == 0 {
        Bytes::new()
    } else {
        Bytes::from(vec![v])
    }
}

fn m_strategy() -> BoxedStrategy<M> {
    prop_oneof![
        6 => (any::<u16>(), 0u8..4).prop_map(|(k, v)| M::Put { k, v }),
        2 => any::<u16>().prop_map(|k| M::Del { k }),
        1 => (any::<u16>(), 0u8..4).prop_map(|(k, v)| M::Cas { k, exp: Exp::Absent, v }),
        2 => (any::<u16>(), 0u8..4).prop_map(|(k, v)| M::Cas { k, exp: Exp::Current, v }),
        2 => (any::<u16>(), 0u8..4, 0u8..4).prop_map(|(k, e, v)| M::Cas { k, exp: Exp::Value(e), v }),
        1 => Just(M::Noop),
    ]
    .boxed()
}

fn op_strategy() -> BoxedStrategy<Op> {
    prop_oneof![
        4 => (any::<bool>(), any::<u16>(), prop::bool::weighted(0.3)).prop_map(|(prefix, k, prev_kv)| Op::Reg { prefix, k, prev_kv }),
        1 => any::<u16>().prop_map(|w| Op::Unreg { w }),
        1 => any::<u16>().prop_map(|w| Op::Detach { w }),
        4 => (any::<u16>(), 1u8..12).prop_map(|(w, n)| Op::Drain { w, n }),
        6 => prop_oneof![
            3 => prop::collection::vec(m_strategy(), 1..6),
            2 => prop::collection::vec(m_strategy(), 1..41),
        ].prop_map(|muts| Op::Apply { muts }),
        3 => (1u8..4).prop_map(|n| Op::Yield { n }),
        2 => (1u8..4).prop_map(|k| Op::Tick { k }),
    ]
    .boxed()
}

impl Check for C24 {
    type Case = Case;
    fn id(&self) -> &'static str {
        "C24"
    }
    fn rule(&self) -> String {
        "cases = event_queue_size 1..16 (or 4096 = cannot lag, ~45% of cases), watcher_buffer_size 1..8, optional watcher limit, heartbeat on/off, up to 24 ops {register exact/prefix watcher (<=6), drop, into_receiver, drain n, apply chunk of 1..40 put/delete/CAS/noop over 16 keys, yield, advance clock}; non-trivial = at least one watcher received CANCELED (per-watcher buffer overflow) or the broadcast channel evicted an event (lag); distinct by hash of every watcher's received stream + evicted ranges".into()
    }
    fn assumptions(&self) -> Vec<String> {
        vec![
            "wiring copied from NodeBuilder::build: broadcast::channel(event_queue_size), WatchRegistry::new_with_limits, WatchDispatcher::new(.., last_applied_ref, heartbeat_interval_ms) spawned as a task, DefaultStateMachineHandler::new(.., Some(broadcast_tx), registry.prev_kv_watcher_count_arc()); last_applied_ref is never written by anyone in the real wiring either".into(),
            "single-threaded paused-clock runtime: the dispatcher runs only when the driver yields (explicit Yield/Tick ops, and once before every chunk — the point where apply_chunk's file I/O would let it run anyway); true multi-thread races between register() and dispatch are not explored (only the queue-backlog form of that race)".into(),
            "a committed mutation = every applied Insert / Delete and every CAS whose real ApplyResult.succeeded is true (a put of an identical value or a delete of an absent key counts, as the code documents)".into(),
            "mutations that were still queued in the broadcast channel when register() returned may or may not be delivered (tolerated, labelled inflight_delivered)".into(),
            "prev_value is judged only for events of chunks that started while the watcher's prev_kv registration was already counted, and not after a CAS on the same key earlier in the same chunk (documented limitation of read_prev_values)".into(),
        ]
    }
    fn cases(&self, tier: Tier) -> u32 {
        match tier {
            Tier::Quick => 12_000,
            Tier::Thorough => 200_000,
        }
    }
    fn max_shrink_iters(&self) -> u32 {
        6000
    }
    fn required_labels(&self) -> Vec<&'static str> {
        vec!["watcher_canceled", "broadcast_lagged", "queue_cannot_lag", "prefix_watcher_got_event", "exact_watcher_got_event", "failed_cas", "progress_event", "watcher_dropped_by_consumer"]
    }
    fn strategy(&self, _tier: Tier) -> BoxedStrategy<Case> {
        (
            prop_oneof![5 => 1u16..=16, 4 => Just(BIG_QUEUE)],
            1u8..=8,
            prop_oneof![6 => Just(0u8), 1 => 1u8..4],
            any::<bool>(),
            prop::collection::vec(op_strategy(), 1..25),
        )
            .prop_map(|(queue, wbuf, max_watchers, heartbeat, mut ops)| {
                // at most 6 registrations per case
                let mut regs = 0;
                ops.retain(|o| {
                    if matches!(o, Op::Reg { .. }) {
                        regs += 1;
                        regs <= 6
                    } else {
                        true
                    }
                });
                Case { queue, wbuf, max_watchers, heartbeat, ops }
            })
            .boxed()
    }
    fn fixed_cases(&self) -> Vec<Case> {
        vec![
            // smallest form of the lagged-broadcast scenario
            Case {
                queue: 1,
                wbuf: 8,
                max_watchers: 0,
                heartbeat: false,
                ops: vec![
                    Op::Reg { prefix: false, k: 0, prev_kv: false },
                    Op::Apply { muts: vec![M::Put { k: 0, v: 1 }, M::Put { k: 0, v: 2 }] },
                ],
            },
        ]
    }

    fn run(&self, c: &Case) -> Outcome {
        let dir = work_dir("c24");
        let rt = tokio::runtime::Builder::new_current_thread().enable_all().start_paused(true).build().expect("runtime");
        let mut out = rt.block_on(run_async(c, &dir));
        out.labels.sort();
        out.labels.dedup();
        d_engine_core::verif_hooks::set_crash_point(None);
        drop(rt);
        rm_dir(&dir);
        out
    }
}

// ---- model ---------------------------------------------------------------------------------------

#[derive(Clone, Debug)]
struct MutRec {
    key: Bytes,
    put: bool,
    value: Bytes,
    index: u64,
    /// model value of the key right before this mutation
    prev: Option<Bytes>,
    /// false when a CAS on the same key preceded it in the same chunk
    prev_reliable: bool,
    /// chunk ordinal
    chunk: usize,
}

struct Recv {
    ev: WatchEvent,
    applied_at_drain: u64,
}

struct W {
    prefix: bool,
    key: Bytes,
    prev_kv: bool,
    handle: Option<WatcherHandle>,
    rx: Option<mpsc::Receiver<WatchEvent>>,
    /// number of mutations broadcast when register() returned
    reg_seq: usize,
    /// broadcast backlog at that moment (those mutations may still reach the watcher)
    reg_backlog: usize,
    /// first chunk ordinal that started after registration
    reg_chunk: usize,
    /// Some(n) when the consumer dropped the stream itself: n = mutations broadcast by then
    ended_by_consumer: Option<usize>,
    received: Vec<Recv>,
}

impl W {
    fn matches(&self, key: &Bytes) -> bool {
        if self.prefix {
            key.starts_with(&self.key)
        } else {
            *key == self.key
        }
    }
    fn drain(&mut self, n: usize, applied: u64) -> usize {
        let mut got = 0;
        while got < n {
            let r = if let Some(h) = self.handle.as_mut() {
                h.receiver_mut().try_recv()
            } else if let Some(rx) = self.rx.as_mut() {
                rx.try_recv()
            } else {
                break;
            };
            match r {
                Ok(ev) => {
                    self.received.push(Recv { ev, applied_at_drain: applied });
                    got += 1;
                }
                Err(_) => break,
            }
        }
        got
    }
}

fn noop_entry(index: u64) -> Entry {
    Entry { index, term: 1, payload: Some(EntryPayload { payload: Some(Payload::Noop(Noop {})) }) }
}
fn cmd_entry(index: u64, wc: WriteCommand) -> Entry {
    Entry { index, term: 1, payload: Some(EntryPayload { payload: Some(Payload::Command(Bytes::from(wc.encode_to_vec()))) }) }
}

async fn run_async(c: &Case, dir: &std::path::Path) -> Outcome {
    let mut out = Outcome::ok();
    let sm = match FileStateMachine::new(dir.join("sm")).await {
        Ok(mut s) => {
            // lease injection as done by the engine start-up code (never used: no TTL writes here)
            s.set_lease(Arc::new(d_engine_server::storage::TtlLease::new(d_engine_core::RaftNodeConfig::default().raft.state_machine.lease.clone())));
            Arc::new(s)
        }
        Err(e) => {
            eprintln!("C24: cannot create FileStateMachine: {e:?}");
            std::process::exit(2);
        }
    };

    // ---- wiring, as in NodeBuilder::build ----------------------------------------------------
    let queue = c.queue.max(1) as usize;
    let (btx, brx) = broadcast::channel::<d_engine_proto::client::WatchResponse>(queue);
    let (utx, urx) = mpsc::unbounded_channel();
    let max_w = if c.max_watchers == 0 { usize::MAX } else { c.max_watchers as usize };
    let registry = Arc::new(WatchRegistry::new_with_limits(c.wbuf.max(1) as usize, max_w, utx));
    let last_applied_ref = Arc::new(AtomicU64::new(0));
    let hb = if c.heartbeat { HB_MS } else { 0 };
    let dispatcher = WatchDispatcher::new(Arc::clone(&registry), brx, urx, Arc::clone(&last_applied_ref), hb);
    let dh = tokio::spawn(async move { dispatcher.run().await });
    let mut snap = SnapshotConfig::default();
    snap.snapshots_dir = dir.join("snap");
    let handler: DefaultStateMachineHandler<T> = DefaultStateMachineHandler::new(
        1,
        0,
        sm.clone(),
        snap,
        LogSizePolicy::new(1_000_000_000, Duration::from_secs(3600)),
        Some(btx.clone()),
        registry.prev_kv_watcher_count_arc(),
    );
    // dispatcher starts (creates its heartbeat interval at virtual time 0)
    tokio::task::yield_now().await;

    // backlog of the broadcast channel at the instant right before the handler broadcasts
    let backlog_probe: Rc<Cell<usize>> = Rc::new(Cell::new(0));
    {
        let probe = backlog_probe.clone();
        let btx2 = btx.clone();
        d_engine_core::verif_hooks::set_crash_point(Some(Box::new(move |name: &'static str| {
            if name == "sm.apply.after_last_applied" || name == "sm.checkpoint.after_clear_wal" {
                probe.set(btx2.len());
            }
        })));
    }
    let cap = queue.next_power_of_two(); // tokio rounds the capacity up

    let mut model: BTreeMap<Bytes, Bytes> = BTreeMap::new();
    let mut muts: Vec<MutRec> = vec![];
    let mut evicted: Vec<bool> = vec![];
    let mut failed_cas_index: Vec<u64> = vec![];
    let mut ws: Vec<W> = vec![];
    let mut next_index = 1u64;
    let mut chunk_no = 0usize;
    // chunk ordinal -> prev_kv counter > 0 when the chunk started
    let mut chunk_prevkv: Vec<bool> = vec![];
    let mut first_tick_done = false;
    let mut setup_error: Option<String> = None;

    for op in &c.ops {
        match op {
            Op::Reg { prefix, k, prev_kv } => {
                let key = if *prefix { Bytes::from_static(PREFIXES[pick(*k, PREFIXES.len())]) } else { Bytes::from_static(KEYS[pick(*k, KEYS.len())]) };
                let backlog = btx.len();
                let r = if *prefix { registry.register_prefix(key.clone(), *prev_kv) } else { registry.register(key.clone(), *prev_kv) };
                match r {
                    Ok(_) if *prefix && !(key.starts_with(b"/") && key.ends_with(b"/")) => {
                        // documented: "prefix must start with '/' and end with '/'" → InvalidPrefix
                        out.violate("C24:invalid-prefix-accepted", format!("register_prefix({key:?}) succeeded"));
                    }
                    Ok(h) => {
                        if h.is_prefix() != *prefix || h.key() != &key {
                            out.violate("C24:handle-misreports-registration", format!("handle key={:?} is_prefix={} for request key={key:?} prefix={prefix}", h.key(), h.is_prefix()));
                        }
                        ws.push(W {
                            prefix: *prefix,
                            key,
                            prev_kv: *prev_kv,
                            handle: Some(h),
                            rx: None,
                            reg_seq: muts.len(),
                            reg_backlog: backlog,
                            reg_chunk: chunk_no,
                            ended_by_consumer: None,
                            received: vec![],
                        });
                        if backlog > 0 {
                            out.add_label("registered_with_backlog");
                        }
                    }
                    Err(d_engine_core::watch::WatchError::InvalidPrefix) => {
                        let valid = key.starts_with(b"/") && key.ends_with(b"/");
                        if valid {
                            out.violate("C24:valid-prefix-rejected", format!("{key:?}"));
                        }
                        out.add_label("invalid_prefix_rejected");
                    }
                    Err(d_engine_core::watch::WatchError::LimitExceeded(_)) => {
                        out.add_label("watcher_limit_hit");
                    }
                }
            }
            Op::Unreg { w } => {
                if ws.is_empty() {
                    continue;
                }
                let i = pick(*w, ws.len());
                let applied = handler.last_applied();
                let total = muts.len();
                let wt = &mut ws[i];
                if wt.handle.is_some() || wt.rx.is_some() {
                    wt.drain(usize::MAX, applied);
                    wt.handle = None; // Drop → unregister message
                    wt.rx = None; // receiver dropped → dispatcher sees Closed
                    wt.ended_by_consumer = Some(total);
                    out.add_label("watcher_dropped_by_consumer");
                }
            }
            Op::Detach { w } => {
                if ws.is_empty() {
                    continue;
                }
                let i = pick(*w, ws.len());
                if let Some(h) = ws[i].handle.take() {
                    let (_id, _key, rx) = h.into_receiver();
                    ws[i].rx = Some(rx);
                    out.add_label("into_receiver");
                }
            }
            Op::Drain { w, n } => {
                if ws.is_empty() {
                    continue;
                }
                let i = pick(*w, ws.len());
                let applied = handler.last_applied();
                ws[i].drain(*n as usize, applied);
            }
            Op::Apply { muts: ms } => {
                // Normally the dispatcher runs while apply_chunk awaits its WAL file I/O, i.e. before the
                // chunk's events are broadcast. Whether the driver task really yields there depends on
                // blocking-pool timing, so make that step explicit (and therefore deterministic): let the
                // dispatcher consume what is already queued before the chunk is applied.
                tokio::task::yield_now().await;
                let mut settle = 0;
                while btx.len() > 0 && settle < 10_000 && !dh.is_finished() {
                    tokio::task::yield_now().await;
                    settle += 1;
                }
                let mut entries = Vec::with_capacity(ms.len());
                // planned (key, kind) per entry for the model
                let mut plan: Vec<Option<(Bytes, M, Option<Bytes>)>> = vec![];
                let mut shadow = model.clone();
                for m in ms {
                    let idx = next_index;
                    next_index += 1;
                    match m {
                        M::Noop => {
                            entries.push(noop_entry(idx));
                            plan.push(None);
                        }
                        M::Put { k, v } => {
                            let key = Bytes::from_static(KEYS[pick(*k, KEYS.len())]);
                            entries.push(cmd_entry(idx, WriteCommand::insert(key.clone(), val(*v))));
                            shadow.insert(key.clone(), val(*v));
                            plan.push(Some((key, m.clone(), None)));
                        }
                        M::Del { k } => {
                            let key = Bytes::from_static(KEYS[pick(*k, KEYS.len())]);
                            entries.push(cmd_entry(idx, WriteCommand::delete(key.clone())));
                            shadow.remove(&key);
                            plan.push(Some((key, m.clone(), None)));
                        }
                        M::Cas { k, exp, v } => {
                            let key = Bytes::from_static(KEYS[pick(*k, KEYS.len())]);
                            let expected: Option<Bytes> = match exp {
                                Exp::Absent => None,
                                Exp::Current => shadow.get(&key).cloned(),
                                Exp::Value(e) => Some(val(*e)),
                            };
                            entries.push(cmd_entry(idx, WriteCommand::compare_and_swap(key.clone(), expected.clone(), val(*v))));
                            if shadow.get(&key).cloned() == expected {
                                shadow.insert(key.clone(), val(*v));
                            }
                            plan.push(Some((key, m.clone(), expected)));
                        }
                    }
                }
                let first_index = entries[0].index;
                chunk_prevkv.push(registry.prev_kv_watcher_count() > 0);
                backlog_probe.set(usize::MAX);
                let before = muts.len();
                let results = match handler.apply_chunk(entries).await {
                    Ok(r) => r,
                    Err(e) => {
                        setup_error = Some(format!("apply_chunk failed: {e:?}"));
                        break;
                    }
                };
                if results.len() != ms.len() {
                    setup_error = Some(format!("apply_chunk returned {} results for {} entries", results.len(), ms.len()));
                    break;
                }
                let mut cas_keys_in_chunk: Vec<Bytes> = vec![];
                for (j, p) in plan.iter().enumerate() {
                    let index = first_index + j as u64;
                    let Some((key, m, expected)) = p else { continue };
                    match m {
                        M::Put { v, .. } => {
                            let prev = model.insert(key.clone(), val(*v));
                            muts.push(MutRec { key: key.clone(), put: true, value: val(*v), index, prev, prev_reliable: !cas_keys_in_chunk.contains(key), chunk: chunk_no });
                        }
                        M::Del { .. } => {
                            let prev = model.remove(key);
                            muts.push(MutRec { key: key.clone(), put: false, value: Bytes::new(), index, prev, prev_reliable: !cas_keys_in_chunk.contains(key), chunk: chunk_no });
                        }
                        M::Cas { v, .. } => {
                            let model_ok = model.get(key).cloned() == *expected;
                            let real_ok = results[j].succeeded;
                            if model_ok != real_ok {
                                out.add_label("cas_outcome_differs_from_model");
                            }
                            if real_ok {
                                let prev = model.insert(key.clone(), val(*v));
                                muts.push(MutRec { key: key.clone(), put: true, value: val(*v), index, prev, prev_reliable: !cas_keys_in_chunk.contains(key), chunk: chunk_no });
                                out.add_label("successful_cas");
                            } else {
                                failed_cas_index.push(index);
                                out.add_label("failed_cas");
                            }
                            cas_keys_in_chunk.push(key.clone());
                        }
                        M::Noop => {}
                    }
                }
                let n = muts.len() - before;
                evicted.resize(muts.len(), false);
                let backlog = backlog_probe.get();
                if backlog == usize::MAX {
                    setup_error = Some("backlog probe hook did not fire during apply_chunk".into());
                    break;
                }
                if backlog + n > cap {
                    let from = before - backlog.min(before);
                    let to = before + n - cap;
                    for e in evicted.iter_mut().take(to).skip(from) {
                        *e = true;
                    }
                }
                chunk_no += 1;
            }
            Op::Yield { n } => {
                for _ in 0..*n {
                    tokio::task::yield_now().await;
                }
            }
            Op::Tick { k } => {
                let ms = if first_tick_done { HB_MS * (*k as u64) } else { HB_MS / 2 + HB_MS * (*k as u64) };
                first_tick_done = true;
                tokio::time::advance(Duration::from_millis(ms)).await;
                for _ in 0..3 {
                    tokio::task::yield_now().await;
                }
            }
        }
    }

    // ---- quiescence: everything broadcast has been dispatched ---------------------------------
    let mut spins = 0;
    while btx.len() > 0 && spins < 20_000 && !dh.is_finished() {
        tokio::task::yield_now().await;
        spins += 1;
    }
    for _ in 0..4 {
        tokio::task::yield_now().await;
    }
    let dispatcher_died = dh.is_finished();
    let applied_final = handler.last_applied();
    for w in ws.iter_mut() {
        w.drain(usize::MAX, applied_final);
    }
    // shut the dispatcher down: close the broadcast channel and join the task
    d_engine_core::verif_hooks::set_crash_point(None);
    drop(handler);
    let stuck_backlog = btx.len();
    drop(btx);
    let mut joined = false;
    for _ in 0..1000 {
        if dh.is_finished() {
            joined = true;
            break;
        }
        tokio::task::yield_now().await;
    }
    if !joined {
        dh.abort();
    }
    let _ = dh.await;
    // nothing may arrive after the dispatcher is gone either
    for w in ws.iter_mut() {
        w.drain(usize::MAX, applied_final);
    }

    if let Some(e) = setup_error {
        // the handler refused a chunk: not a watch-stream verdict
        eprintln!("C24: harness-level failure: {e}");
        out.add_label("apply_failed");
        return out;
    }
    if stuck_backlog > 0 && !dispatcher_died {
        out.add_label("dispatcher_did_not_quiesce");
        return out;
    }

    // ---- oracle -------------------------------------------------------------------------------
    let any_evicted = evicted.iter().any(|e| *e);
    if any_evicted {
        out.add_label("broadcast_lagged");
    }
    if c.queue == BIG_QUEUE {
        out.add_label("queue_cannot_lag");
    }
    if dispatcher_died {
        out.add_label("dispatcher_task_ended_early");
    }
    let mut canceled_any = false;
    let mut lag_violation: Option<(String, String)> = None;
    let mut other_violation: Option<(String, String)> = None;
    let mut stream_fp: Vec<(usize, Vec<(u8, u64)>)> = vec![];

    for (wi, w) in ws.iter().enumerate() {
        let tag = format!("watcher#{wi} {}{:?} prev_kv={}", if w.prefix { "prefix " } else { "exact " }, w.key, w.prev_kv);
        let end = w.ended_by_consumer.unwrap_or(muts.len());
        let lo = w.reg_seq - w.reg_backlog.min(w.reg_seq);
        // candidate list: in-flight window + everything after registration (until the consumer left)
        let full: Vec<usize> = (lo..end).filter(|s| w.matches(&muts[*s].key)).collect();
        let n_inflight = full.iter().filter(|s| **s < w.reg_seq).count();

        let mut bad = |sig: &str, detail: String| {
            if other_violation.is_none() {
                other_violation = Some((sig.to_string(), format!("{tag}: {detail}")));
            }
        };

        let mut pos_in_full: Option<usize> = None; // index into `full` of the last matched data event
        let mut last_rev = 0u64;
        let mut last_progress: Option<u64> = None;
        let mut canceled_at: Option<usize> = None;
        let mut fpv: Vec<(u8, u64)> = vec![];
        let mut gap_lag_only = true;
        let mut gap_found: Option<String> = None;

        for (ri, r) in w.received.iter().enumerate() {
            let ev = &r.ev;
            if let Some(cpos) = canceled_at {
                bad("C24:event-after-canceled", format!("item #{ri} {:?} rev={} arrived after CANCELED (item #{cpos})", ev.event_type, ev.revision));
                break;
            }
            match ev.event_type {
                WatchEventType::Canceled => {
                    canceled_at = Some(ri);
                    canceled_any = true;
                    fpv.push((2, 0));
                }
                WatchEventType::Progress => {
                    out.add_label("progress_event");
                    fpv.push((3, ev.revision));
                    if ev.revision > r.applied_at_drain {
                        bad("C24:progress-revision-exceeds-applied", format!("progress revision {} > applied index {}", ev.revision, r.applied_at_drain));
                    }
                    if let Some(p) = last_progress {
                        if ev.revision < p {
                            bad("C24:progress-revision-decreased", format!("progress revision {} after {}", ev.revision, p));
                        }
                    }
                    last_progress = Some(ev.revision);
                    if ev.revision < last_rev {
                        out.add_label("progress_revision_behind_delivered_data");
                    }
                    if w.prev_kv && ev.prev_value.is_some() && !ev.prev_value.as_ref().unwrap().is_empty() {
                        bad("C24:prev-value-wrong", "progress event carries a prev_value".into());
                    }
                }
                WatchEventType::Put | WatchEventType::Delete => {
                    let is_put = ev.event_type == WatchEventType::Put;
                    fpv.push((is_put as u8, ev.revision));
                    if w.prefix {
                        out.add_label("prefix_watcher_got_event");
                    } else {
                        out.add_label("exact_watcher_got_event");
                    }
                    // revision order / duplicates
                    if ev.revision == last_rev && last_rev != 0 {
                        bad("C24:duplicate-event", format!("revision {} delivered twice", ev.revision));
                        continue;
                    }
                    if ev.revision < last_rev {
                        bad("C24:out-of-order-event", format!("revision {} after {}", ev.revision, last_rev));
                        continue;
                    }
                    last_rev = ev.revision;
                    // which committed mutation is it?
                    let Some(seq) = muts.iter().position(|m| m.index == ev.revision) else {
                        if failed_cas_index.contains(&ev.revision) {
                            bad("C24:event-for-failed-cas", format!("{:?} key={:?} revision {} is a CAS that failed", ev.event_type, ev.key, ev.revision));
                        } else {
                            bad("C24:event-for-no-committed-mutation", format!("{:?} key={:?} revision {} matches no committed mutation", ev.event_type, ev.key, ev.revision));
                        }
                        continue;
                    };
                    let m = &muts[seq];
                    if ev.key != m.key || is_put != m.put || ev.value != m.value {
                        bad(
                            "C24:event-content-mismatch",
                            format!("revision {}: got {:?} key={:?} value={:?}, committed {} key={:?} value={:?}", ev.revision, ev.event_type, ev.key, ev.value, if m.put { "PUT" } else { "DELETE" }, m.key, m.value),
                        );
                        continue;
                    }
                    if !w.matches(&m.key) {
                        bad("C24:event-outside-watch-scope", format!("received key {:?} (revision {})", m.key, m.index));
                        continue;
                    }
                    if seq < lo {
                        bad("C24:historical-event-delivered", format!("revision {} was dispatched before the watcher registered", m.index));
                        continue;
                    }
                    if seq >= end {
                        // cannot happen (consumer already gone) — defensive
                        continue;
                    }
                    let p = full.iter().position(|s| *s == seq).expect("matching mutation in window");
                    // gap check
                    let skipped_from = pos_in_full.map(|q| q + 1).unwrap_or(0);
                    let skipped: Vec<usize> = full[skipped_from..p]
                        .iter()
                        .copied()
                        // mutations broadcast before register() returned are never owed to the watcher
                        .filter(|s| *s >= w.reg_seq)
                        .collect();
                    if !skipped.is_empty() && gap_found.is_none() {
                        gap_lag_only = skipped.iter().all(|s| evicted[*s]);
                        let revs: Vec<u64> = skipped.iter().map(|s| muts[*s].index).collect();
                        gap_found = Some(format!("revisions {:?} were skipped before revision {} with no CANCELED", revs, m.index));
                    }
                    if seq < w.reg_seq {
                        out.add_label("inflight_delivered");
                    }
                    pos_in_full = Some(p);
                    // prev_value contract
                    match (&ev.prev_value, w.prev_kv) {
                        (Some(_), false) => bad("C24:prev-value-presence", format!("prev_kv=false watcher got prev_value at revision {}", m.index)),
                        (None, true) => bad("C24:prev-value-presence", format!("prev_kv=true watcher got no prev_value at revision {}", m.index)),
                        (Some(pv), true) => {
                            if m.chunk >= w.reg_chunk && chunk_prevkv.get(m.chunk).copied().unwrap_or(false) && m.prev_reliable {
                                out.add_label("prev_value_checked");
                                let want = m.prev.clone().unwrap_or_default();
                                if *pv != want {
                                    bad("C24:prev-value-wrong", format!("revision {} key {:?}: prev_value {:?}, model {:?}", m.index, m.key, pv, want));
                                }
                            }
                        }
                        (None, false) => {}
                    }
                }
            }
        }
        // tail: stream cut short?
        if canceled_at.is_none() && w.ended_by_consumer.is_none() && gap_found.is_none() {
            // nothing received yet: only post-registration mutations are owed
            let from = pos_in_full.map(|q| q + 1).unwrap_or(n_inflight);
            let missing: Vec<usize> = full[from.min(full.len())..].to_vec();
            if !missing.is_empty() {
                gap_lag_only = missing.iter().all(|s| evicted[*s]);
                let revs: Vec<u64> = missing.iter().map(|s| muts[*s].index).collect();
                gap_found = Some(format!("stream is still open but revisions {:?} never arrived and no CANCELED was delivered", revs));
            }
        }
        if let Some(g) = gap_found {
            if gap_lag_only {
                if lag_violation.is_none() {
                    lag_violation = Some(("C24:broadcast-lagged-silently-drops-events".into(), format!("{tag}: {g} (event_queue_size={}, all skipped events were evicted from the broadcast channel; dispatcher only logs RecvError::Lagged)", c.queue)));
                }
            } else {
                bad("C24:gap-without-canceled", g);
            }
        }
        if canceled_at.is_some() {
            out.add_label("watcher_canceled");
        }
        stream_fp.push((wi, fpv));
    }

    if ws.is_empty() {
        out.add_label("no_watcher");
    }
    out.nontrivial = canceled_any || any_evicted;
    let ev_ranges: Vec<usize> = evicted.iter().enumerate().filter(|(_, e)| **e).map(|(i, _)| i).collect();
    out.fingerprint = fp(&(stream_fp, ev_ranges));
    out.count("watchers", ws.len() as u64);
    out.count("mutations", muts.len() as u64);
    if let Some((s, d)) = other_violation {
        out.violate(s, d);
    } else if let Some((s, d)) = lag_violation {
        out.violate(s, d);
    }
    out
}
