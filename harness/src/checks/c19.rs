//! C19 — the buffered log behaves like a plain indexed log.
//!
//! Model-based test of the real `BufferedRaftLog` (over a real `FileStorageEngine`) against the plain
//! reference log of `logutil::PlainLog`.
//!
//! Generator (protocol-plausible world, so that every caller precondition holds):
//!   * there is always one "current leader" (remote, or the local node itself) with a full log; a new
//!     leader's log is a prefix (>= everything the local node has purged, i.e. committed) of the previous
//!     leader's log or of the local node's log, plus entries of its own, strictly larger term. Hence
//!     (index, term) identifies an entry (Log Matching), request entries are consecutive with
//!     non-decreasing terms, and `prev` is a position of the sender's log.
//!   * ops: NewLeader / LeaderGrow (tail append with the leader's term; on the real log when the leader
//!     is local) / Replicate (`filter_out_conflicts_and_append` with any prev of the leader's log: all
//!     overlap shapes, duplicates, stale prefixes, rejections, prev=(0,0) catch-up from the start, also over a
//!     purged prefix) / Purge (leader-style: below the
//!     tail; follower-style: any committed index, also beyond the local tail as after a snapshot
//!     install) / Reset / TermStorm (n elections in a row, each appending one entry).
//! Oracle after EVERY op: last_log_id, first/last_entry_id, is_empty, last_entry, entry_term(i) and
//! entry(i) for i in 0..=max+3, first/last_index_for_term(t) for every term, several
//! get_entries_range reads, and the return value of filter_out_conflicts_and_append where the
//! documentation is unambiguous.
use std::sync::Arc;

use d_engine_core::RaftLog;
use d_engine_proto::common::Entry;
use proptest::prelude::*;
use serde::{Deserialize, Serialize};

use super::logutil::{block_on, catch_quiet, ent, lid, show, ConflictAppend, Log, LogBox, PlainLog, Rep};
use crate::runner::{fp, pick, Check, Outcome, Tier};

#[derive(Clone, Debug, Serialize, Deserialize, Hash)]
pub enum Op {
    /// The current leader appends `n` entries of its term (on the real log when the leader is local).
    LeaderGrow { n: u8 },
    /// AppendEntries from the current remote leader. anchor 0: prev anywhere in the leader's log;
    /// 1: prev = min(local last, leader last) - back; 2: prev = common prefix - back.
    Replicate { anchor: u8, back: u8, prev_free: u16, n: u8 },
    /// A new leader with a larger term. `local`: the local node itself; otherwise a remote node whose
    /// log is a prefix (`keep`) of the local log (`from_local`) or of the previous leader's log.
    /// `near_tail` > 0: the prefix ends `near_tail` entries below the base log's tail (cuts inside the
    /// last term run most of the time).
    NewLeader { local: bool, from_local: bool, keep: u16, near_tail: u8, bump: u8, n_new: u8 },
    /// purge_logs_up_to. `beyond`: follower snapshot install (any committed index of the leader, may
    /// exceed the local tail); otherwise a committed index the local node holds.
    Purge { upto: u16, beyond: bool },
    Reset,
    /// n consecutive elections won by the local node, each appending one entry of the new term.
    TermStorm { n: u16 },
}

#[derive(Clone, Debug, Serialize, Deserialize, Hash)]
pub struct Case {
    /// initial leader log: per entry term bump (term starts at 1)
    pub init: Vec<u8>,
    /// the local node starts with this prefix of it
    pub init_keep: u16,
    pub ops: Vec<Op>,
    /// extra range reads (mapped onto 0..=max+3)
    pub probes: Vec<(u16, u16)>,
    /// free domain: requests only satisfy the LOCAL caller preconditions (consecutive indexes,
    /// non-decreasing terms starting at >= prev_term, prev = a position of the local log); the global
    /// Log Matching consistency between successive leaders is not maintained. See `interpret_free`.
    #[serde(default)]
    pub free: bool,
}

pub struct C19;

const MAX_LEN: usize = 44;

fn op_strategy() -> BoxedStrategy<Op> {
    prop_oneof![
        40 => (1u8..=5).prop_map(|n| Op::LeaderGrow { n }),
        90 => (prop_oneof![2 => Just(1u8), 3 => Just(2u8), 1 => Just(0u8)], prop_oneof![3 => Just(0u8), 1 => 1u8..=3], any::<u16>(), 1u8..=6)
            .prop_map(|(anchor, back, prev_free, n)| Op::Replicate { anchor, back, prev_free, n }),
        30 => (prop_oneof![5 => Just(false), 1 => Just(true)], prop_oneof![2 => Just(true), 1 => Just(false)], any::<u16>(), prop_oneof![2 => Just(0u8), 3 => 1u8..=3], 1u8..=2, prop_oneof![1 => Just(0u8), 6 => 1u8..=3])
            .prop_map(|(local, from_local, keep, near_tail, bump, n_new)| Op::NewLeader { local, from_local, keep, near_tail, bump, n_new }),
        12 => (any::<u16>(), prop_oneof![4 => Just(false), 1 => Just(true)]).prop_map(|(upto, beyond)| Op::Purge { upto, beyond }),
        2 => Just(Op::Reset),
        1 => prop_oneof![12 => 2u16..12, 1 => 1026u16..1040].prop_map(|n| Op::TermStorm { n }),
    ]
    .boxed()
}

struct World {
    cur_term: u64,
    leader_local: bool,
    /// full log of the current leader, index i at [i-1]
    leader_log: Vec<Entry>,
    /// highest index known committed (only advanced by purges); every later leader keeps this prefix
    commit: u64,
    model: PlainLog,
    max_index_seen: u64,
    storm: bool,
    trunc_cur_seg_pending: bool,
    nontrivial: bool,
}

impl World {
    /// The local node's logical full log (purged / snapshotted prefix + present entries), if well formed.
    fn local_full(&self) -> Option<Vec<Entry>> {
        let m = &self.model;
        if m.is_empty() {
            let b = m.boundary.0 as usize;
            if m.boundary_ambiguous || b > self.leader_log.len() {
                return None;
            }
            return Some(self.leader_log[..b].to_vec());
        }
        let first = m.first();
        if first == 0 || first - 1 > m.boundary.0 || (first - 1) as usize > self.leader_log.len() {
            return None;
        }
        let mut v = self.leader_log[..(first - 1) as usize].to_vec();
        let mut expect = first;
        for (i, e) in &m.entries {
            if *i != expect {
                return None;
            }
            v.push(e.clone());
            expect += 1;
        }
        Some(v)
    }
    fn matched(a: &[Entry], b: &[Entry]) -> u64 {
        a.iter().zip(b.iter()).take_while(|(x, y)| x == y).count() as u64
    }
    fn leader_term_at(&self, i: u64) -> u64 {
        if i == 0 { 0 } else { self.leader_log[(i - 1) as usize].term }
    }
}

enum Stop {
    Violation(String, String),
    IoError,
}

impl Check for C19 {
    type Case = Case;
    fn id(&self) -> &'static str {
        "C19"
    }
    fn rule(&self) -> String {
        "cases = op sequences (4..26 ops: leader tail append, conflict-aware append with every prev/overlap shape, new leaders with log prefixes of older logs, leader- and follower-style purge, reset, election storms) over <=44 indexes and small terms in a Log-Matching-consistent world; non-trivial = at least one conflict truncation INTO the current term segment (diverge index above the first index of the last term run) followed by a later op that appends entries; distinct by hash of the executed trace (op kind, prev, entries, outcome)".into()
    }
    fn assumptions(&self) -> Vec<String> {
        vec![
            "callers respect the documented preconditions: request entries consecutive with non-decreasing terms, (index,term) identifies an entry, prev is a position of the sender's log, filter_out_conflicts_and_append is never called with an empty entry list (handle_append_entries guards it), purge cutoffs are committed indexes that grow monotonically, the leader keeps at least one entry after a purge".into(),
            "prev=(0,0) is the virtual position before the first entry and matches every log (code comment in filter_out_conflicts_and_append); request entries at or below the purge boundary are skipped; when nothing is left the call acknowledges the boundary (judged only when the request ends exactly at the boundary)".into(),
            "a leader proposal (generate_new_entries -> pre_allocate_id_range) must land right after the leader's last entry".into(),
            "after a reset() with a non-zero purge boundary the boundary-dependent answers (last_log_id of the empty log, entry_term(boundary)) are not compared: documentation says 'clear all metadata', code keeps the boundary".into(),
            "return value of filter_out_conflicts_and_append: compared only when prev=(0,0), on rejection (None or current last id, both documented) and on success when the request's last entry is also the log's last entry; when entries beyond the request are retained the two readings (last matched / new last log id) differ and the value is not judged".into(),
            "in-memory view only: durability / reopen is owned by C18/C20".into(),
        ]
    }
    fn cases(&self, tier: Tier) -> u32 {
        match tier {
            Tier::Quick => 40_000,
            Tier::Thorough => 1_500_000,
        }
    }
    fn required_labels(&self) -> Vec<&'static str> {
        vec!["trunc_into_cur_segment_then_append", "fast_path_overlap", "slow_path", "purge", "rejected"]
    }
    fn strategy(&self, _tier: Tier) -> BoxedStrategy<Case> {
        (
            proptest::collection::vec(prop_oneof![3 => Just(0u8), 1 => Just(1u8)], 0..=10),
            any::<u16>(),
            proptest::collection::vec(op_strategy(), 4..=26),
            proptest::collection::vec((any::<u16>(), any::<u16>()), 0..=3),
            prop_oneof![2 => Just(false), 1 => Just(true)],
        )
            .prop_map(|(init, init_keep, ops, probes, free)| Case { init, init_keep, ops, probes, free })
            .boxed()
    }

    fn run(&self, c: &Case) -> Outcome {
        let mut out = Outcome::ok();
        let lb = LogBox::open("c19", 1);
        let log = lb.log.clone();
        let mut trace: Vec<u64> = vec![];
        let mut labels: Vec<&'static str> = vec![];
        let mut nontrivial = false;
        let mut storm = false;
        let res = catch_quiet(|| {
            if c.free {
                labels.push("free_domain");
                block_on(interpret_free(c, &log, &mut trace, &mut labels, &mut nontrivial, &mut storm))
            } else {
                labels.push("consistent_world_domain");
                block_on(interpret(c, &log, &mut trace, &mut labels, &mut nontrivial, &mut storm))
            }
        });
        block_on(lb.close());
        labels.sort();
        labels.dedup();
        for l in labels {
            out.add_label(l);
        }
        out.nontrivial = nontrivial;
        out.fingerprint = fp(&trace);
        match res {
            Ok(Ok(())) => {}
            Ok(Err(Stop::Violation(sig, detail))) => out.violate(sig, detail),
            Ok(Err(Stop::IoError)) => out.add_label("io_error_no_verdict"),
            Err(p) => {
                let msg = p.downcast_ref::<String>().cloned().or_else(|| p.downcast_ref::<&str>().map(|s| s.to_string())).unwrap_or_default();
                if storm {
                    out.violate("C19:term-segments-overflow-panic", format!("log query panicked after more than 1024 term boundaries: {msg}"));
                } else {
                    out.violate("C19:panic-in-log-operation", format!("panic: {msg}"));
                }
            }
        }
        out
    }
}

async fn interpret(
    c: &Case,
    log: &Arc<Log>,
    trace: &mut Vec<u64>,
    labels: &mut Vec<&'static str>,
    nontrivial: &mut bool,
    storm_flag: &mut bool,
) -> Result<(), Stop> {
    let mut w = World {
        cur_term: 1,
        leader_local: false,
        leader_log: vec![],
        commit: 0,
        model: PlainLog::default(),
        max_index_seen: 0,
        storm: false,
        trunc_cur_seg_pending: false,
        nontrivial: false,
    };
    // ---- initial state: a leader log and a prefix of it on the local node -------------------------
    {
        let mut t = 1u64;
        for (i, b) in c.init.iter().enumerate() {
            t += *b as u64;
            w.leader_log.push(ent(i as u64 + 1, t));
        }
        w.cur_term = t;
        let keep = pick(c.init_keep, w.leader_log.len() + 1);
        let pre: Vec<Entry> = w.leader_log[..keep].to_vec();
        if !pre.is_empty() {
            log.append_entries(pre.clone()).await.map_err(|_| Stop::IoError)?;
            w.model.append(&pre);
        }
        w.max_index_seen = w.leader_log.len() as u64;
        check_all(log, &w, &c.probes, "init")?;
    }

    for (opno, op) in c.ops.iter().enumerate() {
        let kind: &'static str;
        match op {
            Op::LeaderGrow { n } => {
                kind = "append";
                let n = (*n as usize).min(MAX_LEN.saturating_sub(w.leader_log.len()));
                if n == 0 {
                    labels.push("skipped_op");
                    continue;
                }
                let start = w.leader_log.len() as u64 + 1;
                let es: Vec<Entry> = (0..n as u64).map(|j| ent(start + j, w.cur_term)).collect();
                w.leader_log.extend(es.iter().cloned());
                trace.extend([1, start, n as u64, w.cur_term, w.leader_local as u64]);
                if w.leader_local {
                    // leader appends at its tail with its current term (what generate_new_entries does)
                    match opno % 3 {
                        0 => log.append_entries(es.clone()).await.map_err(|_| Stop::IoError)?,
                        1 => log.insert_batch(es.clone()).await.map_err(|_| Stop::IoError)?,
                        _ => leader_generate(log, &es, w.cur_term, opno, w.model.boundary.0).await?,
                    }
                    w.model.append(&es);
                    labels.push("local_leader_append");
                    if w.trunc_cur_seg_pending {
                        w.nontrivial = true;
                        labels.push("trunc_into_cur_segment_then_append");
                    }
                }
            }
            Op::NewLeader { local, from_local, keep, near_tail, bump, n_new } => {
                kind = "append";
                let full = w.local_full();
                let local_ok = full.as_ref().map(|f| World::matched(f, &w.leader_log) >= w.commit && f.len() as u64 >= w.commit).unwrap_or(false);
                let new_term = w.cur_term + (*bump).max(1) as u64;
                if *local {
                    if !local_ok {
                        labels.push("skipped_op");
                        continue;
                    }
                    w.leader_log = full.unwrap();
                    w.leader_local = true;
                } else {
                    let base: Vec<Entry> = if *from_local && local_ok { full.unwrap() } else { w.leader_log.clone() };
                    let lo = (w.commit as usize).min(base.len());
                    let k = if *near_tail > 0 && base.len() >= lo + *near_tail as usize { base.len() - *near_tail as usize } else { lo + pick(*keep, base.len() - lo + 1) };
                    w.leader_log = base[..k].to_vec();
                    w.leader_local = false;
                }
                w.cur_term = new_term;
                let n = (*n_new as usize).min(MAX_LEN.saturating_sub(w.leader_log.len()));
                let start = w.leader_log.len() as u64 + 1;
                let es: Vec<Entry> = (0..n as u64).map(|j| ent(start + j, new_term)).collect();
                w.leader_log.extend(es.iter().cloned());
                trace.extend([2, *local as u64, w.leader_log.len() as u64, new_term, n as u64]);
                labels.push(if *local { "new_leader_local" } else { "new_leader_remote" });
                if w.leader_local && !es.is_empty() {
                    // a freshly elected leader proposes through generate_new_entries (index allocation)
                    leader_generate(log, &es, new_term, opno, w.model.boundary.0).await?;
                    labels.push("new_leader_local_proposes");
                    w.model.append(&es);
                    if w.trunc_cur_seg_pending {
                        w.nontrivial = true;
                        labels.push("trunc_into_cur_segment_then_append");
                    }
                }
            }
            Op::TermStorm { n } => {
                kind = "append";
                let full = w.local_full();
                let local_ok = full.as_ref().map(|f| World::matched(f, &w.leader_log) >= w.commit && f.len() as u64 >= w.commit).unwrap_or(false);
                if !local_ok {
                    labels.push("skipped_op");
                    continue;
                }
                w.leader_log = full.unwrap();
                w.leader_local = true;
                for _ in 0..*n {
                    w.cur_term += 1;
                    let e = ent(w.leader_log.len() as u64 + 1, w.cur_term);
                    w.leader_log.push(e.clone());
                    log.append_entries(vec![e.clone()]).await.map_err(|_| Stop::IoError)?;
                    w.model.append(&[e]);
                }
                trace.extend([6, *n as u64, w.cur_term]);
                if *n > 1024 {
                    w.storm = true;
                    *storm_flag = true;
                    labels.push("term_storm_over_1024");
                } else {
                    labels.push("term_storm_small");
                }
                if w.trunc_cur_seg_pending {
                    w.nontrivial = true;
                    labels.push("trunc_into_cur_segment_then_append");
                }
            }
            Op::Replicate { anchor, back, prev_free, n } => {
                if w.leader_local {
                    labels.push("skipped_op");
                    continue;
                }
                let llen = w.leader_log.len() as u64;
                let prev = match anchor {
                    1 => w.model.last().min(llen).saturating_sub(*back as u64),
                    2 => w.local_full().map(|f| World::matched(&f, &w.leader_log)).unwrap_or(0).min(llen).saturating_sub(*back as u64),
                    _ => pick(*prev_free, llen as usize + 1) as u64,
                };
                let cnt = (*n as u64).min(llen - prev);
                if cnt == 0 {
                    labels.push("skipped_op");
                    continue;
                }
                if w.model.term_at_is_ambiguous(prev) {
                    labels.push("skipped_prev_on_ambiguous_boundary");
                    continue;
                }
                let es: Vec<Entry> = w.leader_log[prev as usize..(prev + cnt) as usize].to_vec();
                let prev_term = w.leader_term_at(prev);
                if w.model.boundary_ambiguous && es[0].index <= w.model.boundary.0 {
                    labels.push("skipped_prev_on_ambiguous_boundary");
                    continue;
                }
                kind = replicate(log, &mut w, opno, prev, prev_term, es, trace, labels).await?;
            }
            Op::Purge { upto, beyond } => {
                kind = "purge";
                let b = w.model.boundary.0;
                let llen = w.leader_log.len() as u64;
                let hi = if w.leader_local {
                    // leader: cutoff < commit_index <= last
                    w.model.last().saturating_sub(1)
                } else if *beyond {
                    llen
                } else {
                    let m = w.local_full().map(|f| World::matched(&f, &w.leader_log)).unwrap_or(0);
                    m.min(w.model.last())
                };
                if hi <= b || w.model.boundary_ambiguous && hi == 0 {
                    labels.push("skipped_op");
                    continue;
                }
                let cut = b + 1 + pick(*upto, (hi - b) as usize) as u64;
                let term = w.leader_term_at(cut);
                let had_last = w.model.last();
                log.purge_logs_up_to(lid(cut, term)).await.map_err(|_| Stop::IoError)?;
                w.model.purge((cut, term));
                w.commit = w.commit.max(cut);
                trace.extend([4, cut, term]);
                labels.push("purge");
                if cut >= had_last {
                    labels.push(if cut > had_last { "purge_beyond_last" } else { "purge_everything" });
                }
            }
            Op::Reset => {
                kind = "reset";
                log.reset().await.map_err(|_| Stop::IoError)?;
                w.model.reset();
                trace.push(5);
                labels.push("reset");
                if w.leader_local {
                    // a node that wiped its log is no longer a plausible leader; a remote one takes over
                    w.leader_local = false;
                    w.cur_term += 1;
                }
            }
        }
        w.max_index_seen = w.max_index_seen.max(w.leader_log.len() as u64).max(w.model.last()).max(w.model.boundary.0);
        check_all(log, &w, &c.probes, kind).map_err(|s| match s {
            Stop::Violation(sig, d) => Stop::Violation(sig, format!("after op#{opno} {op:?}: {d}")),
            x => x,
        })?;
    }
    *nontrivial = w.nontrivial;
    Ok(())
}

/// Free domain. The local node alternates between leading (tail appends with the current term) and
/// following arbitrary leaders whose requests satisfy only the local preconditions:
///   * prev is a position of the local log (an entry, the purge boundary, or (0,0)); with a small
///     probability prev_term is wrong (rejection path);
///   * entries are prev+1.., terms non-decreasing, first term >= prev_term, all <= the current term;
///   * (index, term) still determines the payload.
/// Such sequences can contradict the global Log Matching property (e.g. re-writing index 2 with the term
/// the log already uses from index 4 on) — the plain model and the documented contract of the log do
/// not depend on it, and the code explicitly anticipates it ("truncation + re-insert" pull-back).
async fn interpret_free(
    c: &Case,
    log: &Arc<Log>,
    trace: &mut Vec<u64>,
    labels: &mut Vec<&'static str>,
    nontrivial: &mut bool,
    storm_flag: &mut bool,
) -> Result<(), Stop> {
    let mut w = World {
        cur_term: 1,
        leader_local: true,
        leader_log: vec![],
        commit: 0,
        model: PlainLog::default(),
        max_index_seen: 0,
        storm: false,
        trunc_cur_seg_pending: false,
        nontrivial: false,
    };
    {
        let mut t = 1u64;
        let mut pre = vec![];
        for (i, b) in c.init.iter().enumerate() {
            t += *b as u64;
            pre.push(ent(i as u64 + 1, t));
        }
        w.cur_term = t;
        if !pre.is_empty() {
            log.append_entries(pre.clone()).await.map_err(|_| Stop::IoError)?;
            w.model.append(&pre);
        }
        w.max_index_seen = pre.len() as u64;
        check_all(log, &w, &c.probes, "init")?;
    }
    for (opno, op) in c.ops.iter().enumerate() {
        let kind: &'static str;
        let tail = |w: &World| w.model.last_log_id().map(|x| x.0).unwrap_or(0);
        match op {
            Op::LeaderGrow { n } => {
                kind = "append";
                if w.model.last_log_id_is_ambiguous() || tail(&w) as usize >= MAX_LEN {
                    labels.push("skipped_op");
                    continue;
                }
                let start = tail(&w) + 1;
                let es: Vec<Entry> = (0..*n as u64).map(|j| ent(start + j, w.cur_term)).collect();
                log.append_entries(es.clone()).await.map_err(|_| Stop::IoError)?;
                w.model.append(&es);
                trace.extend([1, start, *n as u64, w.cur_term]);
                labels.push("local_leader_append");
                if w.trunc_cur_seg_pending {
                    w.nontrivial = true;
                    labels.push("trunc_into_cur_segment_then_append");
                }
            }
            Op::NewLeader { bump, .. } => {
                w.cur_term += (*bump).max(1) as u64;
                trace.extend([2, w.cur_term]);
                labels.push("new_leader_remote");
                continue;
            }
            Op::TermStorm { n } => {
                kind = "append";
                if w.model.last_log_id_is_ambiguous() {
                    labels.push("skipped_op");
                    continue;
                }
                for _ in 0..*n {
                    w.cur_term += 1;
                    let e = ent(tail(&w) + 1, w.cur_term);
                    log.append_entries(vec![e.clone()]).await.map_err(|_| Stop::IoError)?;
                    w.model.append(&[e]);
                }
                trace.extend([6, *n as u64, w.cur_term]);
                if *n > 1024 {
                    w.storm = true;
                    *storm_flag = true;
                    labels.push("term_storm_over_1024");
                } else {
                    labels.push("term_storm_small");
                }
                if w.trunc_cur_seg_pending {
                    w.nontrivial = true;
                    labels.push("trunc_into_cur_segment_then_append");
                }
            }
            Op::Replicate { anchor, back, prev_free, n } => {
                let lo = w.model.boundary.0; // lowest position that has a term (0 = virtual)
                let hi = tail(&w);
                let bits = *prev_free as u64;
                let prev = match anchor {
                    1 | 2 => hi.saturating_sub(*back as u64 + if *anchor == 2 { (bits >> 12) & 3 } else { 0 }).max(lo.min(hi)).max(hi.min(1)),
                    _ => lo + pick(*prev_free, (hi - lo) as usize + 1) as u64,
                };
                // 1/8: catch-up from the very start (virtual position), also over a purged prefix
                let prev = if (bits >> 13) & 7 == 0 { 0 } else { prev };
                if w.model.term_at_is_ambiguous(prev) {
                    labels.push("skipped_prev_on_ambiguous_boundary");
                    continue;
                }
                let real_prev_term = if prev == 0 { Some(0) } else { w.model.term_at(prev) };
                let Some(mut prev_term) = real_prev_term else {
                    labels.push("skipped_op");
                    continue;
                };
                // 1/16: a prev_term the follower does not have (rejection), never turning into (0,0)
                if prev > 0 && (bits >> 8) & 15 == 0 {
                    prev_term += 1;
                }
                if prev_term > w.cur_term {
                    labels.push("skipped_op");
                    continue;
                }
                // first term: 0 = whatever the local log holds at prev+1 (overlap that matches), 1 = prev_term,
                // 2 = current term, 3 = prev_term + 1
                let have_next = w.model.entries.get(&(prev + 1)).map(|e| e.term);
                let mut t = match bits & 3 {
                    0 => have_next.unwrap_or(w.cur_term),
                    1 => prev_term.max(1),
                    2 => w.cur_term,
                    _ => (prev_term + 1).min(w.cur_term),
                }
                .max(prev_term)
                .max(1)
                .min(w.cur_term);
                let mut es = vec![];
                for j in 0..*n as u64 {
                    // follow the local log while bit j of the pattern is 0 and that keeps terms monotone
                    let follow = (bits >> (2 + j)) & 1 == 0;
                    if j > 0 {
                        if follow {
                            if let Some(ht) = w.model.entries.get(&(prev + 1 + j)).map(|e| e.term) {
                                if ht >= t && ht <= w.cur_term {
                                    t = ht;
                                }
                            }
                        } else if t < w.cur_term {
                            t += 1;
                        }
                    }
                    if prev + 1 + j == w.model.boundary.0 {
                        // purged entries are committed: the sender has the same entry at the boundary
                        t = t.max(w.model.boundary.1).min(w.cur_term);
                    }
                    es.push(ent(prev + 1 + j, t));
                }
                if prev + es.len() as u64 > MAX_LEN as u64 + 8 {
                    labels.push("skipped_op");
                    continue;
                }
                if w.model.boundary_ambiguous && es[0].index <= w.model.boundary.0 {
                    labels.push("skipped_prev_on_ambiguous_boundary");
                    continue;
                }
                kind = replicate(log, &mut w, opno, prev, prev_term, es, trace, labels).await?;
            }
            Op::Purge { upto, beyond } => {
                kind = "purge";
                let b = w.model.boundary.0;
                let last = w.model.last();
                let (cut, term) = if *beyond {
                    // snapshot install from a leader that is ahead of the local log
                    let base = tail(&w).max(b);
                    (base + 1 + pick(*upto, 3) as u64, w.cur_term)
                } else {
                    if last <= b {
                        labels.push("skipped_op");
                        continue;
                    }
                    let cut = b + 1 + pick(*upto, (last - b) as usize) as u64;
                    (cut, w.model.term_at(cut).unwrap_or(w.cur_term))
                };
                if w.model.last_log_id_is_ambiguous() && *beyond {
                    labels.push("skipped_op");
                    continue;
                }
                log.purge_logs_up_to(lid(cut, term)).await.map_err(|_| Stop::IoError)?;
                w.model.purge((cut, term));
                trace.extend([4, cut, term]);
                labels.push("purge");
                if cut >= last {
                    labels.push(if cut > last { "purge_beyond_last" } else { "purge_everything" });
                }
            }
            Op::Reset => {
                kind = "reset";
                log.reset().await.map_err(|_| Stop::IoError)?;
                w.model.reset();
                trace.push(5);
                labels.push("reset");
            }
        }
        w.max_index_seen = w.max_index_seen.max(w.model.last()).max(w.model.boundary.0);
        check_all(log, &w, &c.probes, kind).map_err(|s| match s {
            Stop::Violation(sig, d) => Stop::Violation(sig, format!("[free domain] after op#{opno} {op:?}: {d}")),
            x => x,
        })?;
    }
    *nontrivial = w.nontrivial;
    Ok(())
}

/// Leader proposal path: the real `ReplicationHandler::generate_new_entries` allocates the indexes
/// (`pre_allocate_id_range`) and inserts the entries. They must land right after the leader's last entry.
async fn leader_generate(log: &Arc<Log>, want: &[Entry], term: u64, opno: usize, boundary: u64) -> Result<(), Stop> {
    let payloads: Vec<_> = want.iter().map(|e| e.payload.clone().expect("payload")).collect();
    let got = Rep::new(1).generate_new_entries(payloads, term, log).await.map_err(|_| Stop::IoError)?;
    if got != want {
        // root causes differ: a purge boundary above the old tail (snapshot install) that the allocator
        // never learned about, versus a tail truncation that was not given back to the allocator
        let sig = if got.first().is_some_and(|e| e.index <= boundary) { "C19:allocated-index-at-or-below-purge-boundary" } else { "C19:allocated-index-not-at-tail" };
        return Err(Stop::Violation(
            sig.into(),
            format!("op#{opno} leader proposal: generate_new_entries produced {} but the log's tail (purge boundary {boundary}) requires {}", show(&got), show(want)),
        ));
    }
    Ok(())
}

/// Executes one conflict-aware append on the model and on the real log, classifies it and judges the
/// return value where the documentation is unambiguous. Returns the signature-kind of the op.
#[allow(clippy::too_many_arguments)]
async fn replicate(
    log: &Log,
    w: &mut World,
    opno: usize,
    prev: u64,
    prev_term: u64,
    es: Vec<Entry>,
    trace: &mut Vec<u64>,
    labels: &mut Vec<&'static str>,
) -> Result<&'static str, Stop> {
    // classification against the model BEFORE the call
    let before = w.model.clone();
    let run_start = before.last_term_run_start();
    let last_term = before.entries.values().next_back().map(|e| e.term).unwrap_or(0);
    let exp = w.model.conflict_append(prev, prev_term, &es);
    let ret = log.filter_out_conflicts_and_append(prev, prev_term, es.clone()).await.map_err(|_| Stop::IoError)?;
    let ret_t = ret.map(|l| (l.index, l.term));
    trace.extend([3, prev, prev_term, es.len() as u64, es[0].term, es.last().unwrap().term]);
    let req_last = es.last().map(|e| (e.index, e.term));
    if prev == 0 && prev_term == 0 {
        labels.push("prev0_virtual_position");
        if !before.is_empty() {
            labels.push("prev0_onto_nonempty_log");
        }
    }
    let kind = match &exp {
        ConflictAppend::Rejected => {
            labels.push("rejected");
            trace.push(31);
            if !w.model.last_log_id_is_ambiguous() && ret_t.is_some() && ret_t != w.model.last_log_id() {
                return Err(Stop::Violation(
                    "C19:conflict-append-return-mismatch".into(),
                    format!("op#{opno} rejected request prev=({prev},{prev_term}) returned {:?}; documented: None or current last log id {:?}", ret_t, w.model.last_log_id()),
                ));
            }
            "rejected"
        }
        ConflictAppend::Accepted { skipped_purged, nothing_left, truncated_from, appended, retained_beyond } => {
            if *skipped_purged > 0 {
                labels.push("request_entries_below_purge_boundary_skipped");
            }
            if *nothing_left {
                // code comment: "acknowledge the boundary when nothing else is left"; judged only when the
                // request's last entry IS the boundary (both readings of the return value coincide)
                labels.push("request_entirely_below_purge_boundary");
                trace.push(33);
                if req_last.map(|x| x.0) == Some(before.boundary.0) {
                    if ret_t.map(|x| x.0) != Some(before.boundary.0) {
                        return Err(Stop::Violation(
                            "C19:conflict-append-return-mismatch".into(),
                            format!("op#{opno} request prev=({prev},{prev_term}) entries={} ends at the purge boundary {:?} but returned {:?}", show(&es), before.boundary, ret_t),
                        ));
                    }
                } else {
                    labels.push("ret_ambiguous_not_judged");
                }
                return Ok("conflict-noop");
            }
            let overlap: Vec<&Entry> = es.iter().filter(|e| e.index <= before.last() && e.index > before.boundary.0).collect();
            if overlap.is_empty() {
                labels.push("no_overlap_tail_append");
            } else if overlap[0].index >= run_start && overlap[0].term == last_term && overlap.last().unwrap().term == last_term {
                labels.push("fast_path_overlap");
            } else {
                labels.push("slow_path");
            }
            trace.extend([32, truncated_from.unwrap_or(0), *appended as u64, *retained_beyond as u64]);
            if *appended > 0 && w.trunc_cur_seg_pending {
                w.nontrivial = true;
                labels.push("trunc_into_cur_segment_then_append");
            }
            let k = if let Some(d) = truncated_from {
                if *d > run_start {
                    labels.push("trunc_into_cur_segment");
                    w.trunc_cur_seg_pending = true;
                } else if *d == run_start {
                    labels.push("trunc_at_segment_start");
                } else {
                    labels.push("trunc_below_segment");
                    if es.iter().any(|e| e.index == *d && e.term == last_term) {
                        labels.push("trunc_below_segment_reinsert_same_term");
                    }
                }
                if es.last().unwrap().index < before.last() {
                    labels.push("trunc_replacement_shorter_than_old_tail");
                }
                "conflict-truncate"
            } else if *appended > 0 {
                labels.push("accepted_tail_append");
                "conflict-append"
            } else {
                labels.push("accepted_idempotent");
                "conflict-noop"
            };
            if *retained_beyond {
                labels.push("ret_ambiguous_not_judged");
            } else if ret_t != req_last {
                return Err(Stop::Violation(
                    "C19:conflict-append-return-mismatch".into(),
                    format!("op#{opno} accepted request prev=({prev},{prev_term}) entries={} returned {:?}, expected last matched = new last log id {:?}", show(&es), ret_t, req_last),
                ));
            }
            k
        }
    };
    Ok(kind)
}

/// Compares every observable of the real log with the model. `kind` = class of the last mutation
/// (part of the signature so that different root causes separate).
fn check_all(log: &Log, w: &World, probes: &[(u16, u16)], kind: &str) -> Result<(), Stop> {
    let m = &w.model;
    let v = |what: &str, detail: String| -> Result<(), Stop> {
        let what = if w.storm { format!("term-segments-overflow-{what}") } else { format!("{what}-after-{kind}") };
        Err(Stop::Violation(format!("C19:{what}"), detail))
    };
    // bounds
    let (f, l, e) = (log.first_entry_id(), log.last_entry_id(), log.is_empty());
    if f != m.first() || l != m.last() || e != m.is_empty() {
        return v("bounds-mismatch", format!("first/last/is_empty = {f}/{l}/{e}, model {}/{}/{}", m.first(), m.last(), m.is_empty()));
    }
    // last_log_id
    if !m.last_log_id_is_ambiguous() {
        let got = log.last_log_id().map(|x| (x.index, x.term));
        if got != m.last_log_id() {
            return v("last-log-id-mismatch", format!("last_log_id = {got:?}, model {:?}", m.last_log_id()));
        }
    }
    let le = log.last_entry();
    let me = m.entries.values().next_back().cloned();
    if le != me {
        return v("last-entry-mismatch", format!("last_entry = {:?}, model {:?}", le.map(|e| (e.index, e.term)), me.map(|e| (e.index, e.term))));
    }
    let hi = w.max_index_seen + 3;
    for i in 0..=hi {
        if !m.term_at_is_ambiguous(i) {
            let got = log.entry_term(i);
            if got != m.term_at(i) {
                return v("entry-term-mismatch", format!("entry_term({i}) = {got:?}, model {:?} (model log {} boundary {:?})", m.term_at(i), show(&m.range(0, u64::MAX)), m.boundary));
            }
        }
        let got = match log.entry(i) {
            Ok(x) => x,
            Err(_) => return Err(Stop::IoError),
        };
        if got.as_ref() != m.entries.get(&i) {
            return v("entry-mismatch", format!("entry({i}) = {:?}, model {:?}", got.map(|e| (e.index, e.term)), m.entries.get(&i).map(|e| (e.index, e.term))));
        }
    }
    for t in 0..=w.cur_term + 1 {
        let (gf, gl) = (log.first_index_for_term(t), log.last_index_for_term(t));
        if gf != m.first_index_for_term(t) || gl != m.last_index_for_term(t) {
            return v(
                "term-index-mismatch",
                format!("first/last_index_for_term({t}) = {gf:?}/{gl:?}, model {:?}/{:?} (model log {})", m.first_index_for_term(t), m.last_index_for_term(t), show(&m.range(0, u64::MAX))),
            );
        }
    }
    let mut ranges: Vec<(u64, u64)> = vec![(0, hi), (m.first(), m.last()), (m.last().saturating_sub(1), m.last() + 2), (m.boundary.0, m.boundary.0 + 2), (1, 1)];
    for (a, b) in probes {
        let (a, b) = (pick(*a, hi as usize + 1) as u64, pick(*b, hi as usize + 1) as u64);
        ranges.push((a.min(b), a.max(b)));
    }
    for (a, b) in ranges {
        let got = match log.get_entries_range(a..=b) {
            Ok(x) => x,
            Err(_) => return Err(Stop::IoError),
        };
        let want = m.range(a, b);
        if got != want {
            return v("range-read-mismatch", format!("get_entries_range({a}..={b}) = {}, model {}", show(&got), show(&want)));
        }
    }
    Ok(())
}
