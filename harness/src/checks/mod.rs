pub mod c07;
pub mod c08;
pub mod c16;
pub mod c17;
pub mod c19;
pub mod snapmodel;
pub mod c34;
pub mod logutil;
pub mod simchecks;

/// Child-process entry for crash-injection checks (`dverif __child <module> <spec-file>`).
/// The child executes the spec and may abort() at a generated crash point; the parent judges
/// the files left behind.
pub fn child_dispatch(module: &str, _spec_path: &str) -> i32 {
    match module {
        _ => {
            eprintln!("unknown child module {module}");
            2
        }
    }
}
