pub mod c34;

/// Child-process entry for crash-injection checks (`dverif __child <module> <spec-file>`).
/// The child executes the spec and may abort() at a generated crash point; the parent judges
/// the files left behind.
pub fn child_dispatch(module: &str, _spec_path: &str) -> i32 {
    match module {
        _ => {
            eprintln!("unknown child module {module}");
            2
        }
    }
}
