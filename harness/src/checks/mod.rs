pub mod c07;
pub mod c08;
pub mod c10close;
pub mod c13;
pub mod c15;
pub mod c16;
pub mod c22;
pub mod c23;
pub mod c25;
pub mod kvmodel;
pub mod c17;
pub mod c18;
pub mod c20;
pub mod c21;
pub mod c24;
pub mod c35;
pub mod c36;
pub mod c37;
pub mod embedded_util;
pub mod simdisk;
pub mod c19;
pub mod snapmodel;
pub mod c34;
pub mod logutil;
pub mod simchecks;

/// Child-process entry for crash-injection checks (`dverif __child <module> <spec-file>`).
/// The child executes the spec and may abort() at a generated crash point; the parent judges
/// the files left behind.
pub fn child_dispatch(module: &str, spec_path: &str) -> i32 {
    match module {
        "c15" => c15::child_main(spec_path),
        "c23" => c23::child_main(spec_path),
        "c18" => c18::child(spec_path),
        "c20" => c20::child(spec_path),
        "c21" => c21::child(spec_path),
        _ => {
            eprintln!("unknown child module {module}");
            2
        }
    }
}
