pub mod c34;
