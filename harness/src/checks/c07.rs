//! C07 — followers only mark leader-matching entries as committed.
//!
//! A real follower `BufferedRaftLog` (common prefix with the leader + optional stale tail of a deposed
//! leader) receives AppendEntries built by the real `ReplicationHandler` functions from a real leader
//! log and processes them with the real `handle_append_entries`. The follower commit index is tracked
//! from `commit_index_update` exactly as `handle_append_entries_request_workflow` applies it.
//! Oracle after every processed request: every index <= follower commit index holds exactly the
//! leader's entry (term and payload).
//!
//! Two leader scripts (field `free_next`):
//!   * faithful: the leader state of d-engine is followed step by step — next_index starts at last+1,
//!     speculative advance after each send, success -> max(current, match+1), conflict -> real
//!     `handle_conflict_response` floored by match+1, responses with a stale term are ignored; the
//!     network may hold, reorder, duplicate requests and lose responses.
//!   * free next: additionally the leader's belief may start anywhere in 1..=last+1 and `Resend` steps
//!     re-send from any earlier next_index (overlapping / pipelined resends). Requests stay
//!     protocol-plausible (leader_commit <= leader last, leader term >= all terms, contiguous entries).
//! Both scripts are judged. `StreamError` steps mirror `handle_peer_stream_error` (next_index :=
//! match_index + 1; with lost acknowledgements that is below the follower's true match point), so the
//! faithful script also re-sends capped batches inside the common prefix.
//! Nothing is excluded: capped legacy + new batch ticks and prev=(0,0) requests are generated like any
//! other (the old gap / reset defects would surface here as commit-beyond-follower-log).
use std::collections::HashMap;
use std::sync::Arc;

use d_engine_core::{RaftLog, ReplicationCore, ReplicationData, StateSnapshot};
use d_engine_proto::common::{Entry, NodeRole};
use d_engine_proto::server::replication::{append_entries_response, AppendEntriesRequest};
use proptest::prelude::*;
use serde::{Deserialize, Serialize};

use super::logutil::{block_on, ent, payload_for, show, snapshot_of, Log, LogBox, Rep, Violations};
use crate::runner::{fp, pick, Check, Outcome, Tier};

const PEER: u32 = 2;

#[derive(Clone, Debug, Serialize, Deserialize, Hash)]
pub enum Step {
    /// Leader replication tick: append `batch` new entries (none when the legacy part is capped),
    /// advance the commit index by up to `commit_adv` (only onto a current-term entry), build the
    /// request and send it. deliver 0: delivered, response delivered; 1: delivered, response lost;
    /// 2: held in flight; 3: delivered and a duplicate stays in flight.
    Tick { batch: u8, commit_adv: u8, deliver: u8 },
    /// Deliver one in-flight request (reordering / duplicates).
    Deliver { which: u16, drop_resp: bool },
    /// free-next script only: re-send from an earlier next_index (no new batch).
    Resend { from: u16, commit_adv: u8 },
    /// The replication stream to the follower broke: `handle_peer_stream_error` resets next_index to
    /// match_index + 1; everything in flight is lost.
    StreamError,
}

#[derive(Clone, Debug, Serialize, Deserialize, Hash)]
pub struct Case {
    /// leader log: per entry term bump (even terms 2,4,..)
    pub leader: Vec<u8>,
    pub cur_bump: u8,
    /// common prefix length (mapped onto 0..=len)
    pub k: u16,
    /// stale tail: one flag per entry, 1 = bump the stale term (second deposed leader)
    pub stale: Vec<u8>,
    pub stale_same_term: bool,
    pub fcommit: u16,
    pub lcommit: u16,
    pub cap: u8,
    pub term_lag: bool,
    pub free_next: bool,
    pub init_next: u16,
    pub steps: Vec<Step>,
}

pub struct C07;

impl Check for C07 {
    type Case = Case;
    fn id(&self) -> &'static str {
        "C07"
    }
    fn rule(&self) -> String {
        "cases = leader log 1..40 entries + follower = common prefix + stale tail (0..8 entries of deposed-leader terms) + 2..14 script steps (ticks with new batches / commit advances / held, duplicated, reordered requests / lost responses; in the free-next half also resends from any earlier next_index), cap 1..8; non-trivial = a request was ACCEPTED while the follower held stale entries above the request's last index and leader_commit reached at least the first stale index, OR an accepted request truncated a stale tail and a later request advanced the follower commit index past the truncation point; distinct by hash of (requests, responses, commit indexes)".into()
    }
    fn assumptions(&self) -> Vec<String> {
        vec![
            "the follower commit index is whatever commit_index_update says (role_state::update_commit_index stores it unconditionally)".into(),
            "leader script is protocol-plausible: leader_commit <= leader last index and only advances onto an entry of the leader's term; leader term >= every term in both logs; follower's initial commit index <= common prefix; stale entries have (index,term) pairs the leader never had".into(),
            "faithful script mirrors leader_state.rs (speculative next_index advance, success: max(current, match+1), conflict: hint floored by match+1, stale-term responses ignored); next_index is clamped to last+1 (a larger value only arises from the success reply reporting the follower's own last log id, a different defect)".into(),
            "a stream error resets next_index to match_index+1 and drops what is in flight (handle_peer_stream_error)".into(),
            "commit index <= follower last index is asserted from the doc comment of if_update_commit_index_as_follower (min(leader_commit, last_local_log_index))".into(),
        ]
    }
    fn cases(&self, tier: Tier) -> u32 {
        match tier {
            Tier::Quick => 30_000,
            Tier::Thorough => 900_000,
        }
    }
    fn required_labels(&self) -> Vec<&'static str> {
        vec!["stale_tail_above_request_end_commit_ge_tail", "stale_tail_truncated", "faithful_script", "heartbeat_accepted", "duplicate_or_reordered_delivery"]
    }
    fn strategy(&self, _tier: Tier) -> BoxedStrategy<Case> {
        let step = prop_oneof![
            6 => (0u8..=3, 0u8..=4, prop_oneof![6 => Just(0u8), 1 => Just(1u8), 2 => Just(2u8), 2 => Just(3u8)]).prop_map(|(batch, commit_adv, deliver)| Step::Tick { batch, commit_adv, deliver }),
            2 => (any::<u16>(), prop_oneof![3 => Just(false), 1 => Just(true)]).prop_map(|(which, drop_resp)| Step::Deliver { which, drop_resp }),
            3 => (any::<u16>(), 0u8..=4).prop_map(|(from, commit_adv)| Step::Resend { from, commit_adv }),
            2 => Just(Step::StreamError),
        ];
        (
            proptest::collection::vec(prop_oneof![4 => Just(0u8), 1 => Just(1u8)], 1..=40),
            0u8..=1,
            any::<u16>(),
            proptest::collection::vec(prop_oneof![5 => Just(0u8), 1 => Just(1u8)], 0..=8),
            prop_oneof![3 => Just(false), 1 => Just(true)],
            any::<u16>(),
            prop_oneof![1 => any::<u16>(), 2 => (u16::MAX - 20000)..=u16::MAX],
            prop_oneof![2 => 1u8..=3, 1 => 4u8..=8],
            prop_oneof![3 => Just(false), 1 => Just(true)],
            (prop_oneof![2 => Just(false), 3 => Just(true)], prop_oneof![1 => any::<u16>(), 2 => 0u16..24000]),
            proptest::collection::vec(step, 2..=14),
        )
            .prop_map(|(leader, cur_bump, k, stale, stale_same_term, fcommit, lcommit, cap, term_lag, (free_next, init_next), steps)| Case {
                leader,
                cur_bump,
                k,
                stale,
                stale_same_term,
                fcommit,
                lcommit,
                cap,
                term_lag,
                free_next,
                init_next,
                steps,
            })
            .boxed()
    }

    fn run(&self, c: &Case) -> Outcome {
        block_on(run_case(c))
    }
}

fn term_of(model: &[Entry], i: u64) -> u64 {
    if i == 0 { 0 } else { model[(i - 1) as usize].term }
}

struct W {
    leader: Arc<Log>,
    follower: Arc<Log>,
    handler: Rep,
    leader_model: Vec<Entry>,
    cur_term: u64,
    cap: u64,
    // leader's view of the follower
    next: u64,
    matched: u64,
    lcommit: u64,
    // follower
    fterm: u64,
    fcommit: u64,
    free_next: bool,
    // bookkeeping
    labels: Vec<&'static str>,
    trace: Vec<u64>,
    viol: Violations,
    nontrivial: bool,
    truncation_point: Option<u64>,
    io_error: bool,
}

impl W {
    fn advance_commit(&mut self, adv: u8) {
        if adv == 0 {
            return;
        }
        let last = self.leader_model.len() as u64;
        let target = (self.lcommit + adv as u64).min(last);
        if target > self.lcommit && term_of(&self.leader_model, target) == self.cur_term {
            self.lcommit = target;
            self.labels.push("leader_commit_advanced");
        }
    }

    /// Builds the request for the follower at `next` exactly like prepare_batch_requests does.
    async fn build(&mut self, next: u64, batch: u8) -> Option<AppendEntriesRequest> {
        let last_before = self.leader.last_entry_id();
        let lag = (last_before + 1).saturating_sub(next);
        if lag > self.cap && batch > 0 {
            self.labels.push("legacy_capped_with_new_batch");
        }
        let payloads: Vec<_> = (0..batch as u64).map(|j| payload_for(last_before + 1 + j, self.cur_term)).collect();
        let new_entries = match self.handler.generate_new_entries(payloads, self.cur_term, &self.leader).await {
            Ok(v) => v,
            Err(_) => {
                self.io_error = true;
                return None;
            }
        };
        self.leader_model.extend(new_entries.iter().cloned());
        let mut m = HashMap::new();
        m.insert(1u32, self.leader.last_entry_id() + 1);
        m.insert(PEER, next);
        let data = ReplicationData { leader_last_index_before: last_before, current_term: self.cur_term, commit_index: self.lcommit, peer_next_indices: m };
        let mut per_peer = self.handler.prepare_peer_entries(&new_entries, &data, self.cap, &self.leader);
        let (_, req) = self.handler.build_append_request(&self.leader, PEER, &mut per_peer, &data);
        if lag > self.cap {
            self.labels.push("capped_batch");
        }
        Some(req)
    }

    /// Follower processes `req`; the response reaches the leader unless `drop_resp`.
    async fn deliver(&mut self, req: AppendEntriesRequest, drop_resp: bool, sent_next: u64) {
        let before = snapshot_of(&self.follower);
        let snap = StateSnapshot { role: NodeRole::Follower as i32, current_term: self.fterm, voted_for: None, commit_index: self.fcommit };
        let resp = match self.handler.handle_append_entries(req.clone(), &snap, &self.follower).await {
            Ok(r) => r,
            Err(_) => {
                self.io_error = true;
                return;
            }
        };
        self.fterm = self.fterm.max(req.term);
        let req_end = req.prev_log_index + req.entries.len() as u64;
        let stale_before: Vec<u64> = before.iter().filter(|e| self.leader_model.get((e.index - 1) as usize) != Some(*e)).map(|e| e.index).collect();
        let success = matches!(resp.response.result, Some(append_entries_response::Result::Success(_)));
        self.trace.extend([1, req.prev_log_index, req.prev_log_term, req.entries.len() as u64, req.leader_commit_index, success as u64, resp.commit_index_update.map(|x| x + 1).unwrap_or(0)]);
        if success {
            let after = snapshot_of(&self.follower);
            let stale_after = after.iter().any(|e| self.leader_model.get((e.index - 1) as usize) != Some(e));
            if req.entries.is_empty() {
                self.labels.push("heartbeat_accepted");
            } else {
                self.labels.push("entries_accepted");
            }
            if let Some(first_stale) = stale_before.first() {
                if !stale_after {
                    self.labels.push("stale_tail_truncated");
                    self.truncation_point = Some(*first_stale);
                }
                if *first_stale > req_end {
                    self.labels.push("stale_tail_above_request_end");
                    if req.leader_commit_index >= *first_stale {
                        self.labels.push("stale_tail_above_request_end_commit_ge_tail");
                        if !self.free_next {
                            self.labels.push("stale_tail_above_request_end_commit_ge_tail_in_faithful_script");
                        }
                        self.nontrivial = true;
                    }
                }
            }
            if req.prev_log_index == 0 && req.prev_log_term == 0 && !before.is_empty() {
                self.labels.push("prev0_request_onto_nonempty_follower");
            }
        } else {
            self.labels.push("request_rejected");
        }
        if let Some(ci) = resp.commit_index_update {
            if ci < self.fcommit {
                self.labels.push("follower_commit_moved_backwards");
            }
            if let Some(tp) = self.truncation_point {
                if ci >= tp && ci > self.fcommit {
                    self.labels.push("commit_advanced_past_truncation_point");
                    self.nontrivial = true;
                }
            }
            self.fcommit = ci;
            self.labels.push("follower_commit_updated");
        }
        // ---------------- oracle ---------------------------------------------------------------------
        let flast = self.follower.last_entry_id();
        for i in 1..=self.fcommit {
            let have = self.follower.entry(i).ok().flatten();
            let want = self.leader_model.get((i - 1) as usize);
            if have.as_ref() == want && have.is_some() {
                continue;
            }
            let ctx = format!(
                "follower before: {} ; request prev=({},{}) entries={} leader_commit={} ; follower commit index now {} last index {flast} ; leader log: {}",
                show(&before),
                req.prev_log_index,
                req.prev_log_term,
                show(&req.entries),
                req.leader_commit_index,
                self.fcommit,
                show(&self.leader_model)
            );
            match have {
                None => self.viol.push("C07:commit-beyond-follower-log", format!("index {i} is committed on the follower but it holds no entry there; {ctx}")),
                Some(h) => {
                    let sig = if i > req_end && success {
                        if self.free_next { "C07:commit-min-uses-whole-follower-log" } else { "C07:stale-tail-committed-by-faithful-leader-sequence" }
                    } else {
                        "C07:committed-entry-differs-inside-request-range"
                    };
                    self.viol.push(sig, format!("index {i} committed on the follower holds {}:t{} but the leader has {:?}; {ctx}", h.index, h.term, want.map(|e| (e.index, e.term))));
                }
            }
            break;
        }
        // ---------------- leader processes the response ---------------------------------------------
        if drop_resp {
            self.labels.push("response_lost");
            return;
        }
        if resp.response.term < self.cur_term {
            self.labels.push("stale_term_response_ignored");
            return;
        }
        let lim = self.leader.last_entry_id() + 1;
        match resp.response.result {
            Some(append_entries_response::Result::Success(s)) => {
                if let Ok(u) = self.handler.handle_success_response(PEER, resp.response.term, s, self.cur_term) {
                    let m = u.match_index.unwrap_or(0);
                    if m > lim - 1 {
                        self.labels.push("success_reports_match_beyond_leader_log");
                    }
                    self.matched = self.matched.max(m.min(lim - 1));
                    self.next = self.next.max(u.next_index).max(self.matched + 1).min(lim);
                }
            }
            Some(append_entries_response::Result::Conflict(cf)) => {
                if let Ok(u) = self.handler.handle_conflict_response(PEER, cf, &self.leader, if self.free_next { sent_next } else { self.next }) {
                    self.next = u.next_index.max(self.matched + 1).clamp(1, lim);
                    self.labels.push("conflict_hint_followed");
                }
            }
            _ => {}
        }
    }
}

async fn run_case(c: &Case) -> Outcome {
    let mut out = Outcome::ok();
    // ---------------- logs -----------------------------------------------------------------------------
    let mut leader_model: Vec<Entry> = vec![];
    {
        let mut t = 2u64;
        for (i, b) in c.leader.iter().enumerate() {
            t += 2 * (*b as u64);
            leader_model.push(ent(i as u64 + 1, t));
        }
    }
    let len0 = leader_model.len() as u64;
    let cur_term = leader_model.last().map(|e| e.term).unwrap_or(2) + 2 * (c.cur_bump as u64 & 1);
    let k = pick(c.k, len0 as usize + 1) as u64;
    let mut fe: Vec<Entry> = leader_model[..k as usize].to_vec();
    let mut labels: Vec<&'static str> = vec![];
    {
        let tk = term_of(&leader_model, k);
        let same_ok = c.stale_same_term && k >= 1 && tk < cur_term && (k == len0 || term_of(&leader_model, k + 1) > tk);
        let mut s = if same_ok { tk } else if k == 0 { 1 } else { tk + 1 };
        for (j, b) in c.stale.iter().enumerate() {
            if *b == 1 {
                s = if s % 2 == 0 { s + 1 } else { s + 2 };
            }
            if s >= cur_term {
                break;
            }
            fe.push(ent(k + 1 + j as u64, s));
        }
        if fe.len() as u64 > k {
            labels.push("follower_has_stale_tail");
            if fe.len() as u64 > len0 {
                labels.push("stale_tail_beyond_leader_last");
            }
        } else {
            labels.push("follower_plain_prefix");
        }
    }
    let llb = LogBox::open("c07-l", 1);
    let flb = LogBox::open("c07-f", PEER);
    llb.log.append_entries(leader_model.clone()).await.expect("leader append");
    if !fe.is_empty() {
        flb.log.append_entries(fe.clone()).await.expect("follower append");
    }
    let fterm = if c.term_lag { fe.iter().map(|e| e.term).max().unwrap_or(0).min(cur_term) } else { cur_term };
    labels.push(if c.free_next { "free_next_script" } else { "faithful_script" });
    let mut w = W {
        leader: llb.log.clone(),
        follower: flb.log.clone(),
        handler: Rep::new(1),
        leader_model,
        cur_term,
        cap: c.cap as u64,
        next: if c.free_next { 1 + pick(c.init_next, len0 as usize + 1) as u64 } else { len0 + 1 },
        matched: 0,
        lcommit: pick(c.lcommit, len0 as usize + 1) as u64,
        fterm,
        fcommit: pick(c.fcommit, k as usize + 1) as u64,
        free_next: c.free_next,
        labels,
        trace: vec![],
        viol: Violations::default(),
        nontrivial: false,
        truncation_point: None,
        io_error: false,
    };
    let mut inflight: Vec<(AppendEntriesRequest, u64)> = vec![];

    for st in &c.steps {
        // after the first oracle violation the follower's commit state is corrupt: later requests would
        // only re-detect the same entry under a different classification
        if w.io_error || !w.viol.all.is_empty() {
            break;
        }
        match st {
            Step::Tick { batch, commit_adv, deliver } => {
                w.advance_commit(*commit_adv);
                let sent_next = w.next;
                let Some(req) = w.build(sent_next, *batch).await else { continue };
                // speculative advance (leader_state.rs phase 5)
                w.next = (req.prev_log_index + req.entries.len() as u64 + 1).max(w.matched + 1);
                match deliver {
                    2 => {
                        inflight.push((req, sent_next));
                        w.labels.push("request_held_in_flight");
                    }
                    3 => {
                        inflight.push((req.clone(), sent_next));
                        w.deliver(req, false, sent_next).await;
                    }
                    1 => w.deliver(req, true, sent_next).await,
                    _ => w.deliver(req, false, sent_next).await,
                }
            }
            Step::Deliver { which, drop_resp } => {
                if inflight.is_empty() {
                    w.labels.push("skipped_step");
                    continue;
                }
                let (req, sent_next) = inflight.remove(pick(*which, inflight.len()));
                w.labels.push("duplicate_or_reordered_delivery");
                w.deliver(req, *drop_resp, sent_next).await;
            }
            Step::StreamError => {
                inflight.clear();
                w.next = w.matched + 1;
                w.labels.push("stream_error_next_reset_to_match_plus_one");
            }
            Step::Resend { from, commit_adv } => {
                if !c.free_next {
                    w.labels.push("skipped_step");
                    continue;
                }
                w.advance_commit(*commit_adv);
                let lim = w.leader.last_entry_id() + 1;
                let from_next = 1 + pick(*from, w.next.min(lim) as usize) as u64; // 1..=current next
                let Some(req) = w.build(from_next, 0).await else { continue };
                w.labels.push("free_resend");
                w.deliver(req, false, from_next).await;
            }
        }
    }

    flb.close().await;
    llb.close().await;
    let W { mut labels, trace, viol, nontrivial, io_error, .. } = w;
    if io_error {
        labels.push("io_error_no_verdict");
    }
    labels.sort();
    labels.dedup();
    for l in labels {
        out.add_label(l);
    }
    out.nontrivial = nontrivial;
    out.fingerprint = fp(&trace);
    viol.report("C07", &mut out);
    out
}
