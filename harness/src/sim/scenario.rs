//! Scenario = one generated cluster run (a proptest value). The interpreter executes it on the simulator
//! and returns a `RunResult` (recorded history, client operations, apply log, committed sequence,
//! checkpoint observations). Property monitors (monitors.rs) are pure functions over the RunResult.
use std::collections::{BTreeMap, BTreeSet};
use std::sync::{Arc, Mutex};
use std::time::Duration;

use bytes::Bytes;
use d_engine_core::client::{ClientReadRequest, ClientResponsePayload, ClientWriteRequest, ErrorCode, WriteOperation};
use d_engine_core::{ClientCmd, MaybeCloneOneshot, Membership, RaftLog, RaftOneshot, ReadConsistencyPolicy, StateMachine};
use d_engine_proto::common::Entry;
use prost::Message;
use serde::{Deserialize, Serialize};

use super::history::{Ev, History};
use super::net::LinkParams;
use super::sm::{ApplyLog, Kv};
use super::{make_config, node_meta, NodeKnobs, Sim, World};
use crate::runner::pick;

#[derive(Clone, Debug, Serialize, Deserialize, Hash, PartialEq)]
pub struct Knobs {
    pub election_min_ms: u16,
    pub election_span_ms: u16,
    pub heartbeat_ms: u16,
    pub lease_ms: u16,
    pub cap: u8,
    pub max_batch: u8,
    pub noop_timeout_ms: u16,
    pub general_timeout_ms: u16,
    /// 0 = snapshots disabled
    pub snapshot_threshold: u8,
    pub retained: u8,
    pub max_pending_writes: u16,
}
impl Default for Knobs {
    fn default() -> Self {
        Knobs {
            election_min_ms: 150,
            election_span_ms: 150,
            heartbeat_ms: 30,
            lease_ms: 80,
            cap: 100,
            max_batch: 100,
            noop_timeout_ms: 1000,
            general_timeout_ms: 400,
            snapshot_threshold: 0,
            retained: 1,
            max_pending_writes: 10_000,
        }
    }
}
impl Knobs {
    pub fn to_node(&self) -> NodeKnobs {
        NodeKnobs {
            election_min_ms: self.election_min_ms as u64,
            election_max_ms: self.election_min_ms as u64 + self.election_span_ms.max(1) as u64,
            heartbeat_ms: self.heartbeat_ms.max(1) as u64,
            lease_ms: self.lease_ms.max(1) as u64,
            per_request_cap: self.cap.max(1) as u64,
            max_batch_size: self.max_batch.max(1) as usize,
            general_timeout_ms: self.general_timeout_ms.max(1) as u64,
            noop_timeout_ms: self.noop_timeout_ms.max(1) as u64,
            snapshot_enable: self.snapshot_threshold > 0,
            snapshot_threshold: self.snapshot_threshold.max(1) as u64,
            retained_log_entries: self.retained.max(1) as u64,
            max_pending_writes: self.max_pending_writes as usize,
            ..NodeKnobs::default()
        }
    }
}

#[derive(Clone, Debug, Serialize, Deserialize, Hash, PartialEq)]
pub struct NetP {
    pub min_delay_ms: u8,
    pub span_delay_ms: u8,
    pub loss_pm: u16,
    pub dup_pm: u16,
}
impl Default for NetP {
    fn default() -> Self {
        NetP {
            min_delay_ms: 1,
            span_delay_ms: 4,
            loss_pm: 0,
            dup_pm: 0,
        }
    }
}
impl NetP {
    pub fn to_link(&self) -> LinkParams {
        LinkParams {
            min_delay_ms: self.min_delay_ms as u64,
            max_delay_ms: self.min_delay_ms as u64 + self.span_delay_ms as u64,
            loss_pm: self.loss_pm as u32,
            dup_pm: self.dup_pm as u32,
        }
    }
}

/// target selector: < 0x8000 → the node currently believed to be leader (by any live node's
/// leader-change watch), otherwise an index into the live nodes (monotone mapping).
pub type Target = u16;

#[derive(Clone, Debug, Serialize, Deserialize, Hash, PartialEq)]
pub enum Event {
    Put { at: Target, key: u8 },
    PutTtl { at: Target, key: u8, ttl: u8 },
    Del { at: Target, key: u8 },
    /// expected value = the `exp`-th most recent value written to `key` (0 = absent)
    Cas { at: Target, key: u8, exp: u8 },
    Read { at: Target, key: u8, policy: u8 },
    /// n concurrent writes to the same node (batching)
    Burst { at: Target, n: u8, key: u8, cas: bool },
    EmptyWrite { at: Target },
    /// nodes whose bit is set are cut off from the others
    Partition { mask: u8, brk: bool },
    IsolateLeader { brk: bool },
    Heal,
    Crash { node: u16, power_loss: bool },
    Stop { node: u16 },
    Restart { node: u16 },
    /// graceful stop of every node followed by restart of all
    RestartCluster,
    ResetStreams { a: u16, b: u16 },
    ApplyLag { node: u16, ms: u16 },
    /// slow disk on one node: every persist_entries call of its log store takes `ms` of virtual time, so
    /// acknowledged entries stay memory-only for a while (0 = back to immediate)
    DiskLag { node: u16, ms: u16 },
    Net(NetP),
    /// start learner number `idx` (node id voters+1+idx); it discovers the leader and asks to join
    JoinLearner { idx: u8 },
    /// a second JoinCluster request for node id `1 + (idx mod nodes)` sent straight to the believed leader
    DuplicateJoin { idx: u8 },
    Wait,
}

#[derive(Clone, Debug, Serialize, Deserialize, Hash, PartialEq)]
pub struct Step {
    pub dt_ms: u16,
    pub ev: Event,
}

#[derive(Clone, Debug, Serialize, Deserialize, Hash, PartialEq)]
pub struct Scenario {
    pub seed: u64,
    pub voters: u8,
    pub knobs: Knobs,
    pub net: NetP,
    pub warmup_ms: u16,
    pub steps: Vec<Step>,
    pub tail_ms: u16,
    /// final linearizable read of every key from the leader after the tail
    pub final_reads: bool,
    /// allow crashing nodes although hard state is not yet durable (see C02); when false a Crash event
    /// on a node whose in-memory (term, vote) differs from its durable copy becomes a graceful Stop
    pub raw_crashes: bool,
    /// after the tail: probe that the healed cluster elects a leader, accepts a write and applies it everywhere
    #[serde(default)]
    pub probe_recovery: bool,
    /// number of learner nodes (0..=2) that JoinLearner events may start
    #[serde(default)]
    pub learners: u8,
    /// server default read policy (0 linearizable, 1 lease, 2 eventual); None = linearizable
    #[serde(default)]
    pub default_policy: Option<u8>,
    #[serde(default)]
    pub allow_override: Option<bool>,
    /// interval of the cluster-metadata poller (ClusterConf request to every node); 0 = no polling
    #[serde(default)]
    pub poll_ms: u16,
}

#[derive(Clone, Debug, Serialize, PartialEq)]
pub enum OpKind {
    Put { k: Vec<u8>, v: Vec<u8>, ttl: Option<u64> },
    Del { k: Vec<u8> },
    Cas { k: Vec<u8>, exp: Option<Vec<u8>>, v: Vec<u8> },
    Read { k: Vec<u8>, policy: Option<u8> },
    Empty,
}

#[derive(Clone, Debug, Serialize, PartialEq)]
pub enum OpOutcome {
    Pending,
    /// acknowledged: applied (for CAS: compare succeeded)
    WriteOk,
    /// acknowledged CAS whose compare failed
    CasFailed,
    /// definite rejection documented as "never applied" (not leader / invalid / back-pressure)
    Rejected(String),
    /// may or may not have taken effect
    Indeterminate(String),
    /// the response channel was dropped without any answer
    Dropped,
    ReadOk(Option<Vec<u8>>),
    ReadFailed(String),
}

#[derive(Clone, Debug, Serialize)]
pub struct ClientOp {
    pub id: u64,
    pub node: u32,
    pub node_incarnation: u32,
    pub kind: OpKind,
    pub invoke_ms: u64,
    pub return_ms: Option<u64>,
    pub outcome: OpOutcome,
    pub final_read: bool,
}

#[derive(Clone, Debug, Default, Serialize)]
pub struct CommittedSeq {
    /// index -> (term, payload bytes) as first observed in a leader's log when its commit index passed it
    pub entries: BTreeMap<u64, (u64, Vec<u8>)>,
    /// index -> current term of the leader that first committed it
    pub commit_term: BTreeMap<u64, u64>,
    /// index -> virtual time at which it was first observed committed
    pub commit_time: BTreeMap<u64, u64>,
    pub conflicts: Vec<String>,
    pub max_index: u64,
}

#[derive(Clone, Debug, Serialize)]
pub struct NodeSnapshot {
    pub id: u32,
    pub incarnation: u32,
    pub first: u64,
    pub last: u64,
    pub entries: Vec<(u64, u64, u64)>, // (index, term, payload hash)
    pub last_applied: u64,
    #[serde(serialize_with = "ser_kv")]
    pub kv: Kv,
    pub voters: Vec<u32>,
    pub is_leader: bool,
    pub term_seen: u64,
    pub raft_exit: Option<String>,
}

#[derive(Debug, Default, Serialize)]
pub struct RunResult {
    pub history: Vec<(u64, Ev)>,
    pub ops: Vec<ClientOp>,
    pub applies: ApplyLog,
    pub committed: CommittedSeq,
    /// violations detected by checkpoint invariants while the run was in progress: (property id, signature, detail)
    pub checkpoint_violations: Vec<(String, String, String)>,
    pub final_nodes: Vec<NodeSnapshot>,
    pub end_ms: u64,
    pub heal_ms: u64,
    pub labels: BTreeSet<String>,
    pub skipped_events: u32,
    pub softened_crashes: u32,
    pub n_nodes: u32,
    pub general_timeout_ms: u64,
    pub tick_ms: u64,
    /// C32 probe: virtual ms after the heal at which a probe write was acknowledged (None = never within the bound)
    pub recovery_write_ok_after_ms: Option<u64>,
    pub recovery_bound_ms: u64,
    /// live voters whose applied index did not reach the probe's index within the bound: (node, applied, needed)
    pub recovery_unapplied: Vec<(u32, u64, u64)>,
    pub recovery_probed: bool,
}

fn ser_kv<S: serde::Serializer>(kv: &Kv, s: S) -> Result<S::Ok, S::Error> {
    use serde::ser::SerializeMap;
    let mut m = s.serialize_map(Some(kv.len()))?;
    for (k, v) in kv {
        m.serialize_entry(&String::from_utf8_lossy(k), &String::from_utf8_lossy(v))?;
    }
    m.end()
}

pub fn payload_bytes(e: &Entry) -> Vec<u8> {
    e.payload.as_ref().map(|p| p.encode_to_vec()).unwrap_or_default()
}

fn key_bytes(k: u8) -> Vec<u8> {
    vec![b'k', b'0' + (k % 4)]
}

struct Interp {
    sc: Scenario,
    w: World,
    ops: Arc<Mutex<Vec<ClientOp>>>,
    next_op: u64,
    committed: Arc<Mutex<CommittedSeq>>,
    res: RunResult,
    /// values written per key (for CAS expectations), most recent last
    written: BTreeMap<u8, Vec<Vec<u8>>>,
    /// per node: highest committed index the node was seen holding
    held: BTreeMap<u32, BTreeSet<u64>>,
    cluster: Vec<d_engine_proto::server::cluster::NodeMeta>,
    client_tasks: Vec<tokio::task::JoinHandle<()>>,
    learners_started: Vec<u32>,
    /// last membership view recorded per node: (voters incl. self if voter, learners)
    last_membership: BTreeMap<u32, (Vec<u32>, Vec<u32>)>,
}

impl Interp {
    /// initial voters plus the learners that have been started so far
    fn ids(&self) -> Vec<u32> {
        let mut v: Vec<u32> = (1..=self.sc.voters as u32).collect();
        v.extend(self.learners_started.iter().copied());
        v
    }
    fn believed_leader(&self) -> Option<u32> {
        // highest-term leader any live node reports about itself, else what others believe
        let mut best: Option<(u64, u32)> = None;
        for n in self.w.nodes.values() {
            if let Some(li) = n.leader_rx.borrow().clone() {
                if li.leader_id == n.id && self.w.nodes.contains_key(&li.leader_id) {
                    if best.map(|b| li.term > b.0).unwrap_or(true) {
                        best = Some((li.term, li.leader_id));
                    }
                }
            }
        }
        if best.is_none() {
            for n in self.w.nodes.values() {
                if let Some(li) = n.leader_rx.borrow().clone() {
                    if self.w.nodes.contains_key(&li.leader_id) && best.map(|b| li.term > b.0).unwrap_or(true) {
                        best = Some((li.term, li.leader_id));
                    }
                }
            }
        }
        best.map(|b| b.1)
    }
    fn resolve(&self, t: Target) -> Option<u32> {
        let live: Vec<u32> = self.w.nodes.keys().copied().collect();
        if live.is_empty() {
            return None;
        }
        if t < 0x8000 {
            Some(self.believed_leader().unwrap_or(live[0]))
        } else {
            Some(live[pick((t - 0x8000) << 1, live.len())])
        }
    }
    fn node_by_index(&self, i: u16) -> u32 {
        let ids = self.ids();
        ids[pick(i, ids.len())]
    }

    fn submit_write(&mut self, node: u32, kind: OpKind, final_read: bool) {
        let Some(n) = self.w.nodes.get(&node) else { return };
        let id = self.next_op;
        self.next_op += 1;
        let cmd_tx = n.cmd_tx.clone();
        let inc = n.incarnation;
        let base = self.w.clock_base;
        let ops = self.ops.clone();
        let invoke_ms = self.w.now_ms();
        let command = match &kind {
            OpKind::Put { k, v, ttl } => Some(WriteOperation::Insert {
                key: Bytes::from(k.clone()),
                value: Bytes::from(v.clone()),
                ttl_secs: *ttl,
            }),
            OpKind::Del { k } => Some(WriteOperation::Delete { key: Bytes::from(k.clone()) }),
            OpKind::Cas { k, exp, v } => Some(WriteOperation::CompareAndSwap {
                key: Bytes::from(k.clone()),
                expected: exp.clone().map(Bytes::from),
                new_value: Bytes::from(v.clone()),
            }),
            OpKind::Empty => None,
            OpKind::Read { .. } => unreachable!(),
        };
        let slot = {
            let mut g = ops.lock().unwrap();
            g.push(ClientOp {
                id,
                node,
                node_incarnation: inc,
                kind,
                invoke_ms,
                return_ms: None,
                outcome: OpOutcome::Pending,
                final_read,
            });
            g.len() - 1
        };
        let h = tokio::spawn(async move {
            let (tx, rx) = MaybeCloneOneshot::new();
            let req = ClientWriteRequest { client_id: 1, command };
            let outcome = if cmd_tx.send(ClientCmd::Propose(req, tx)).await.is_err() {
                OpOutcome::Rejected("command channel closed".into())
            } else {
                match rx.await {
                    Ok(Ok(resp)) => match (resp.error, &resp.result) {
                        (ErrorCode::Success, Some(ClientResponsePayload::Write(w))) => {
                            if w.succeeded {
                                OpOutcome::WriteOk
                            } else {
                                OpOutcome::CasFailed
                            }
                        }
                        // "not leader" is a rejection whichever way it is spelled: the client is told to redirect
                        // and retry, so the command must never be applied (C14)
                        (ErrorCode::NotLeader, _) => OpOutcome::Rejected("FailedPrecondition:Not leader (ErrorCode::NotLeader)".into()),
                        (code, _) => OpOutcome::Indeterminate(format!("{code:?}")),
                    },
                    Ok(Err(status)) => match status.code() {
                        tonic::Code::FailedPrecondition | tonic::Code::InvalidArgument | tonic::Code::ResourceExhausted => {
                            OpOutcome::Rejected(format!("{:?}:{}", status.code(), status.message()))
                        }
                        c => OpOutcome::Indeterminate(format!("{:?}:{}", c, status.message())),
                    },
                    Err(_) => OpOutcome::Dropped,
                }
            };
            let mut g = ops.lock().unwrap();
            g[slot].return_ms = Some(base.elapsed().as_millis() as u64);
            g[slot].outcome = outcome;
        });
        self.client_tasks.push(h);
    }

    fn submit_read(&mut self, node: u32, key: Vec<u8>, policy: u8, final_read: bool) {
        let Some(n) = self.w.nodes.get(&node) else { return };
        let id = self.next_op;
        self.next_op += 1;
        let cmd_tx = n.cmd_tx.clone();
        let inc = n.incarnation;
        let base = self.w.clock_base;
        let ops = self.ops.clone();
        let invoke_ms = self.w.now_ms();
        let pol = match policy % 4 {
            0 => None,
            1 => Some(ReadConsistencyPolicy::LinearizableRead),
            2 => Some(ReadConsistencyPolicy::LeaseRead),
            _ => Some(ReadConsistencyPolicy::EventualConsistency),
        };
        let slot = {
            let mut g = ops.lock().unwrap();
            g.push(ClientOp {
                id,
                node,
                node_incarnation: inc,
                kind: OpKind::Read {
                    k: key.clone(),
                    policy: if policy % 4 == 0 { None } else { Some(policy % 4) },
                },
                invoke_ms,
                return_ms: None,
                outcome: OpOutcome::Pending,
                final_read,
            });
            g.len() - 1
        };
        let h = tokio::spawn(async move {
            let (tx, rx) = MaybeCloneOneshot::new();
            let req = ClientReadRequest {
                client_id: 1,
                keys: vec![Bytes::from(key.clone())],
                consistency_policy: pol,
            };
            let outcome = if cmd_tx.send(ClientCmd::Read(req, tx)).await.is_err() {
                OpOutcome::ReadFailed("command channel closed".into())
            } else {
                match rx.await {
                    Ok(Ok(resp)) => match (resp.error, &resp.result) {
                        (ErrorCode::Success, Some(ClientResponsePayload::Read(r))) => {
                            OpOutcome::ReadOk(r.entries.iter().find(|e| e.key.as_ref() == key.as_slice()).map(|e| e.value.to_vec()))
                        }
                        (code, _) => OpOutcome::ReadFailed(format!("{code:?}")),
                    },
                    Ok(Err(status)) => OpOutcome::ReadFailed(format!("{:?}:{}", status.code(), status.message())),
                    Err(_) => OpOutcome::Dropped,
                }
            };
            let mut g = ops.lock().unwrap();
            g[slot].return_ms = Some(base.elapsed().as_millis() as u64);
            g[slot].outcome = outcome;
        });
        self.client_tasks.push(h);
    }

    fn fresh_value(&self) -> Vec<u8> {
        format!("v{}", self.next_op).into_bytes()
    }

    fn config_for(&self, id: u32) -> d_engine_core::RaftNodeConfig {
        let mut cluster = self.cluster.clone();
        if id > self.sc.voters as u32 {
            // a joining node lists the existing voters plus itself as a promotable learner
            cluster.push(node_meta(id, true));
        }
        let mut k = self.sc.knobs.to_node();
        if let Some(p) = self.sc.default_policy {
            k.default_read_policy = match p % 3 {
                0 => ReadConsistencyPolicy::LinearizableRead,
                1 => ReadConsistencyPolicy::LeaseRead,
                _ => ReadConsistencyPolicy::EventualConsistency,
            };
        }
        if let Some(a) = self.sc.allow_override {
            k.allow_client_override = a;
        }
        make_config(id, cluster, &k, &self.w.root)
    }

    /// number of initial voters that are currently down
    fn down_count(&self) -> usize {
        (1..=self.sc.voters as u32).filter(|i| !self.w.nodes.contains_key(i)).count()
    }

    /// hard state that would be lost by a crash right now? (in-memory != page cache)
    fn hard_state_dirty(&self, id: u32) -> bool {
        let Some(n) = self.w.nodes.get(&id) else { return false };
        let mem_term = n.leader_rx.borrow().as_ref().map(|l| l.term);
        let disk = n.persistent.disk.cache_hard_state();
        // We cannot read the in-memory hard state of a running node without a hook; be conservative:
        // any node that has ever reported a term above the durable one is dirty.
        let durable_term = disk.map(|h| h.current_term).unwrap_or(1);
        let seen = self.term_seen(id).max(mem_term.unwrap_or(0));
        seen > durable_term || (seen >= durable_term && disk.is_none() && seen > 1)
    }
    fn term_seen(&self, id: u32) -> u64 {
        let h = self.w.history.lock().unwrap();
        let mut t = 0;
        for (_, ev) in h.events.iter() {
            match ev {
                Ev::VoteReqSent { from, term, .. } if *from == id => t = t.max(*term),
                Ev::VoteRespDelivered { voter, resp_term, req_term, granted, .. } if *voter == id => {
                    t = t.max(*resp_term);
                    if *granted {
                        t = t.max(*req_term);
                    }
                }
                Ev::AeDelivered { to, term, .. } if *to == id => t = t.max(*term),
                Ev::AeSent { from, term, .. } if *from == id => t = t.max(*term),
                Ev::LeaderNotify { node, term, .. } if *node == id => t = t.max(*term),
                _ => {}
            }
        }
        t
    }

    async fn apply_event(&mut self, ev: &Event) {
        match ev {
            Event::Put { at, key } => {
                if let Some(n) = self.resolve(*at) {
                    let v = self.fresh_value();
                    self.written.entry(*key % 4).or_default().push(v.clone());
                    self.submit_write(n, OpKind::Put { k: key_bytes(*key), v, ttl: None }, false);
                }
            }
            Event::PutTtl { at, key, ttl } => {
                if let Some(n) = self.resolve(*at) {
                    let v = self.fresh_value();
                    self.written.entry(*key % 4).or_default().push(v.clone());
                    self.submit_write(
                        n,
                        OpKind::Put {
                            k: key_bytes(*key),
                            v,
                            ttl: Some(1000 + *ttl as u64),
                        },
                        false,
                    );
                }
            }
            Event::Del { at, key } => {
                if let Some(n) = self.resolve(*at) {
                    self.submit_write(n, OpKind::Del { k: key_bytes(*key) }, false);
                }
            }
            Event::Cas { at, key, exp } => {
                if let Some(n) = self.resolve(*at) {
                    let v = self.fresh_value();
                    let hist = self.written.entry(*key % 4).or_default();
                    let e = if *exp == 0 || hist.is_empty() {
                        None
                    } else {
                        let back = (*exp as usize - 1).min(hist.len() - 1);
                        Some(hist[hist.len() - 1 - back].clone())
                    };
                    hist.push(v.clone());
                    self.submit_write(n, OpKind::Cas { k: key_bytes(*key), exp: e, v }, false);
                }
            }
            Event::Read { at, key, policy } => {
                if let Some(n) = self.resolve(*at) {
                    self.submit_read(n, key_bytes(*key), *policy, false);
                }
            }
            Event::Burst { at, n, key, cas } => {
                if let Some(node) = self.resolve(*at) {
                    for i in 0..(*n).min(30) {
                        let v = self.fresh_value();
                        let k = key.wrapping_add(i % 2);
                        let hist = self.written.entry(k % 4).or_default();
                        let kind = if *cas && i % 2 == 1 {
                            let e = hist.last().cloned();
                            OpKind::Cas { k: key_bytes(k), exp: e, v: v.clone() }
                        } else {
                            OpKind::Put { k: key_bytes(k), v: v.clone(), ttl: None }
                        };
                        hist.push(v);
                        self.submit_write(node, kind, false);
                    }
                }
            }
            Event::EmptyWrite { at } => {
                if let Some(n) = self.resolve(*at) {
                    self.submit_write(n, OpKind::Empty, false);
                }
            }
            Event::Partition { mask, brk } => {
                let ids = self.ids();
                let a: Vec<u32> = ids.iter().copied().filter(|i| mask & (1 << (i - 1)) != 0).collect();
                let b: Vec<u32> = ids.iter().copied().filter(|i| mask & (1 << (i - 1)) == 0).collect();
                if a.is_empty() || b.is_empty() {
                    self.res.skipped_events += 1;
                    return;
                }
                self.w.fault(format!("partition {a:?} | {b:?} brk={brk}"));
                for x in &a {
                    for y in &b {
                        self.w.net.cut(*x, *y, *brk);
                    }
                }
                self.res.labels.insert("partition".into());
            }
            Event::IsolateLeader { brk } => {
                if let Some(l) = self.believed_leader() {
                    self.w.fault(format!("isolate leader {l} brk={brk}"));
                    for y in self.ids() {
                        if y != l {
                            self.w.net.cut(l, y, *brk);
                        }
                    }
                    self.res.labels.insert("isolate_leader".into());
                } else {
                    self.res.skipped_events += 1;
                }
            }
            Event::Heal => {
                self.w.fault("heal");
                let ids = self.ids();
                for x in &ids {
                    for y in &ids {
                        if x < y {
                            self.w.net.heal(*x, *y);
                        }
                    }
                }
            }
            Event::Crash { node, power_loss } => {
                let id = self.node_by_index(*node);
                let minority = (self.sc.voters as usize - 1) / 2;
                if !self.w.nodes.contains_key(&id) || self.down_count() + 1 > minority {
                    self.res.skipped_events += 1;
                    return;
                }
                if !self.sc.raw_crashes && self.hard_state_dirty(id) {
                    // excluded by construction while the C02 finding (hard state only saved on drop) is open
                    self.res.softened_crashes += 1;
                    self.w.fault(format!("stop(node {id}) [crash softened]"));
                    self.w.stop_node(id).await;
                    self.res.labels.insert("stop".into());
                    return;
                }
                self.w.fault(format!("crash node {id} power_loss={power_loss}"));
                self.w.crash_node(id, *power_loss).await;
                // entries that were only in memory / unsynced may legitimately be gone on this node
                self.held.remove(&id);
                self.res.labels.insert("crash".into());
            }
            Event::Stop { node } => {
                let id = self.node_by_index(*node);
                let minority = (self.sc.voters as usize - 1) / 2;
                if !self.w.nodes.contains_key(&id) || self.down_count() + 1 > minority {
                    self.res.skipped_events += 1;
                    return;
                }
                self.w.fault(format!("stop node {id}"));
                self.w.stop_node(id).await;
                self.res.labels.insert("stop".into());
            }
            Event::Restart { node } => {
                let id = self.node_by_index(*node);
                // prefer a node that is actually down
                let id = if self.w.stopped.contains_key(&id) {
                    id
                } else if let Some(d) = self.w.stopped.keys().next().copied() {
                    d
                } else {
                    self.res.skipped_events += 1;
                    return;
                };
                self.w.fault(format!("restart node {id}"));
                let cfg = self.config_for(id);
                self.w.restart_node(id, cfg).await;
                self.res.labels.insert("restart".into());
            }
            Event::RestartCluster => {
                self.w.fault("graceful restart of the whole cluster");
                let ids: Vec<u32> = self.w.nodes.keys().copied().collect();
                // every node gets the shutdown signal at the same instant (an operator stopping the cluster); the
                // individual stops below then only wait for each node's own shutdown work
                for n in self.w.nodes.values() {
                    let _ = n.shutdown_tx.send(());
                }
                for id in &ids {
                    self.w.stop_node(*id).await;
                }
                let down: Vec<u32> = self.w.stopped.keys().copied().collect();
                for id in down {
                    let cfg = self.config_for(id);
                    self.w.restart_node(id, cfg).await;
                }
                self.res.labels.insert("restart_cluster".into());
            }
            Event::ResetStreams { a, b } => {
                let x = self.node_by_index(*a);
                let y = self.node_by_index(*b);
                if x != y {
                    self.w.fault(format!("reset streams {x}<->{y}"));
                    self.w.net.reset_streams(x, y);
                    self.res.labels.insert("stream_reset".into());
                }
            }
            Event::ApplyLag { node, ms } => {
                let id = self.node_by_index(*node);
                if let Some(n) = self.w.nodes.get(&id) {
                    n.apply_delay_ms.store(*ms as u64, std::sync::atomic::Ordering::Relaxed);
                    self.w.fault(format!("apply lag node {id} = {ms}ms"));
                    if *ms > 0 {
                        self.res.labels.insert("apply_lag".into());
                    }
                }
            }
            Event::DiskLag { node, ms } => {
                if *node >= 0xC000 {
                    // a quarter of the events slows every disk down (shared storage hiccup)
                    for n in self.w.nodes.values() {
                        n.persistent.disk.set_lag_ms(*ms as u64);
                    }
                    self.w.fault(format!("disk lag on all nodes = {ms}ms"));
                    if *ms > 0 {
                        self.res.labels.insert("disk_lag".into());
                        self.res.labels.insert("disk_lag_all".into());
                    }
                } else {
                    let id = self.node_by_index(*node);
                    if let Some(n) = self.w.nodes.get(&id) {
                        n.persistent.disk.set_lag_ms(*ms as u64);
                        self.w.fault(format!("disk lag node {id} = {ms}ms"));
                        if *ms > 0 {
                            self.res.labels.insert("disk_lag".into());
                        }
                    }
                }
            }
            Event::Net(p) => {
                self.w.net.set_default_params(p.to_link());
                self.w.fault(format!("net params {p:?}"));
                if p.loss_pm > 0 {
                    self.res.labels.insert("rpc_loss".into());
                }
                if p.dup_pm > 0 {
                    self.res.labels.insert("stream_dup".into());
                }
            }
            Event::JoinLearner { idx } => {
                if self.sc.learners == 0 {
                    self.res.skipped_events += 1;
                    return;
                }
                let id = self.sc.voters as u32 + 1 + (*idx % self.sc.learners.min(2)) as u32;
                if self.learners_started.contains(&id) {
                    self.res.skipped_events += 1;
                    return;
                }
                self.learners_started.push(id);
                self.w.fault(format!("learner {id} starts and asks to join"));
                let cfg = self.config_for(id);
                self.w.start_node(id, cfg, None, 1).await;
                self.res.labels.insert("learner_join".into());
            }
            Event::DuplicateJoin { idx } => {
                let ids = self.ids();
                let target = ids[(*idx as usize) % ids.len()];
                let Some(l) = self.believed_leader() else {
                    self.res.skipped_events += 1;
                    return;
                };
                let Some(n) = self.w.nodes.get(&l) else { return };
                let member_before = n.membership.contains_node(target).await;
                let (tx, rx) = MaybeCloneOneshot::new();
                let req = d_engine_proto::server::cluster::JoinRequest {
                    node_id: target,
                    node_role: d_engine_proto::common::NodeRole::Learner as i32,
                    address: format!("127.0.0.1:{}", 9000 + target),
                    status: d_engine_proto::common::NodeStatus::Promotable as i32,
                };
                if n.event_tx.send(d_engine_core::InboundEvent::JoinCluster(req, tx)).await.is_err() {
                    return;
                }
                let hist = self.w.history.clone();
                let base = self.w.clock_base;
                let to = self.sc.knobs.general_timeout_ms as u64 + 2000;
                self.res.labels.insert("duplicate_join".into());
                let h = tokio::spawn(async move {
                    let r = tokio::time::timeout(Duration::from_millis(to), rx).await;
                    let success = matches!(&r, Ok(Ok(Ok(resp))) if resp.success);
                    let t = base.elapsed().as_millis() as u64;
                    hist.lock().unwrap().push(
                        t,
                        Ev::JoinResp {
                            learner: target,
                            leader: l,
                            success,
                            duplicate: true,
                            member_before,
                        },
                    );
                });
                self.client_tasks.push(h);
            }
            Event::Wait => {}
        }
    }

    /// Invariants that need live access to the nodes (C04 log matching, C05 committed entries).
    fn checkpoint(&mut self) {
        if self.res.checkpoint_violations.len() >= 8 {
            return; // enough evidence recorded (runs that continue after a violation)
        }
        let mut logs: BTreeMap<u32, BTreeMap<u64, (u64, Vec<u8>)>> = BTreeMap::new();
        for (id, n) in &self.w.nodes {
            let first = n.raft_log.first_entry_id();
            let last = n.raft_log.last_entry_id();
            let mut m = BTreeMap::new();
            if last > 0 {
                if let Ok(es) = n.raft_log.get_entries_range(first.max(1)..=last) {
                    for e in es {
                        m.insert(e.index, (e.term, payload_bytes(&e)));
                    }
                }
            }
            logs.insert(*id, m);
        }
        // C04: log matching between every pair of live nodes
        let ids: Vec<u32> = logs.keys().copied().collect();
        for (ai, a) in ids.iter().enumerate() {
            for b in ids.iter().skip(ai + 1) {
                let la = &logs[a];
                let lb = &logs[b];
                // highest common index with equal term
                let mut top: Option<u64> = None;
                for (i, (t, _)) in la.iter().rev() {
                    if let Some((tb, _)) = lb.get(i) {
                        if tb == t {
                            top = Some(*i);
                            break;
                        }
                    }
                }
                if let Some(top) = top {
                    // "all earlier entries are identical too": below the matching entry neither log may have a hole
                    // (indexes below a node's first stored entry are compacted, not missing)
                    let lo = la.keys().next().copied().unwrap_or(0).max(lb.keys().next().copied().unwrap_or(0));
                    for i in lo..=top {
                        for (who, l) in [(a, la), (b, lb)] {
                            if !l.contains_key(&i) {
                                self.res.checkpoint_violations.push((
                                    "C04".into(),
                                    "C04:entry-missing-below-matching-entry".into(),
                                    format!("t={}ms nodes {a},{b} agree on (index {top}) but node {who} has no entry at index {i} although its log starts at or below it", self.w.now_ms()),
                                ));
                                return;
                            }
                        }
                    }
                    for (i, (t, p)) in la.range(..=top) {
                        if let Some((tb, pb)) = lb.get(i) {
                            if t != tb || p != pb {
                                self.res.checkpoint_violations.push((
                                    "C04".into(),
                                    if t == tb { "C04:same-index-term-different-payload".into() } else { "C04:prefix-differs-below-matching-entry".into() },
                                    format!(
                                        "t={}ms nodes {a},{b} agree on (index {top}) but differ at index {i}: term {t} vs {tb}, payload equal={}",
                                        self.w.now_ms(),
                                        p == pb
                                    ),
                                ));
                                return;
                            }
                        }
                    }
                }
            }
        }
        // C05: committed entries
        let committed = self.committed.lock().unwrap().clone();
        // C33: a node's purge boundary never passes what is committed nor the snapshot the node holds
        for (id, n) in &self.w.nodes {
            let first = n.raft_log.first_entry_id();
            let boundary = if first > 0 { first - 1 } else { n.raft_log.last_log_id().map(|l| l.index).unwrap_or(0) };
            if boundary == 0 {
                continue;
            }
            self.res.labels.insert("log_purged".into());
            let snap = n.sm.snapshot_metadata().and_then(|m| m.last_included).map(|l| l.index).unwrap_or(0);
            if boundary > committed.max_index {
                self.res.checkpoint_violations.push((
                    "C33".into(),
                    "C33:purged-beyond-commit".into(),
                    format!("t={}ms node {id} purged its log up to {boundary} but the highest committed index is {}", self.w.now_ms(), committed.max_index),
                ));
                return;
            }
            if boundary > snap {
                self.res.checkpoint_violations.push((
                    "C33".into(),
                    "C33:purged-beyond-own-snapshot".into(),
                    format!("t={}ms node {id} purged its log up to {boundary} but the snapshot it holds covers only up to {snap}", self.w.now_ms()),
                ));
                return;
            }
        }
        for c in &committed.conflicts {
            self.res.checkpoint_violations.push(("C05".into(), "C05:two-different-entries-committed-at-one-index".into(), c.clone()));
        }
        for (id, n) in &self.w.nodes {
            let log = &logs[id];
            let first = n.raft_log.first_entry_id();
            let held = self.held.entry(*id).or_default();
            for (i, (t, p)) in committed.entries.iter() {
                match log.get(i) {
                    Some((lt, lp)) => {
                        if lt != t || lp != p {
                            // a node that never held the committed entry may still carry a stale uncommitted
                            // tail at that index (it will be overwritten); only overwriting a held one is a loss
                            if held.contains(i) {
                                self.res.checkpoint_violations.push((
                                    "C05".into(),
                                    "C05:node-overwrote-committed-entry".into(),
                                    format!("t={}ms node {id} held committed index {i} (term {t}) and now holds term {lt} there, payload equal={}", self.w.now_ms(), lp == p),
                                ));
                                return;
                            }
                        } else {
                            held.insert(*i);
                        }
                    }
                    None => {
                        if held.contains(i) && (*i >= first && first > 0 || log.is_empty() && first == 0) {
                            // it held the committed entry before and it is not below a purge boundary
                            let purged = n.raft_log.last_log_id().map(|l| l.index).unwrap_or(0);
                            if log.is_empty() && purged >= *i {
                                continue; // compacted into a snapshot (log empty, boundary beyond i)
                            }
                            self.res.checkpoint_violations.push((
                                "C05".into(),
                                "C05:node-discarded-committed-entry".into(),
                                format!("t={}ms node {id} no longer holds committed index {i} (first={first}, last={})", self.w.now_ms(), n.raft_log.last_entry_id()),
                            ));
                            return;
                        }
                    }
                }
            }
            // a node acting as leader must hold every committed entry above its purge boundary
            // (only leaders of a term later than the one the entry was committed in are bound by the property)
            let leader_term = n.leader_rx.borrow().as_ref().filter(|l| l.leader_id == *id).map(|l| l.term);
            if let Some(lt) = leader_term {
                for (i, _) in committed.entries.iter() {
                    let ct = committed.commit_term.get(i).copied().unwrap_or(u64::MAX);
                    if lt > ct && *i >= first.max(1) && first > 0 && !log.contains_key(i) {
                        self.res.checkpoint_violations.push((
                            "C05".into(),
                            "C05:leader-missing-committed-entry".into(),
                            format!("t={}ms leader {id} lacks committed index {i} (first={first}, last={})", self.w.now_ms(), n.raft_log.last_entry_id()),
                        ));
                        return;
                    }
                }
            }
        }
    }

    /// Records each live node's membership view whenever it changed since the last sample.
    async fn sample_membership(&mut self) {
        use d_engine_proto::common::NodeStatus;
        let mut changes = vec![];
        for (id, n) in &self.w.nodes {
            let members = n.membership.members().await;
            let mut voters: Vec<u32> = members.iter().filter(|m| m.status == NodeStatus::Active as i32).map(|m| m.id).collect();
            let mut learners: Vec<u32> = members.iter().filter(|m| m.status != NodeStatus::Active as i32).map(|m| m.id).collect();
            voters.sort();
            learners.sort();
            let cur = (voters, learners);
            if self.last_membership.get(id) != Some(&cur) {
                changes.push((*id, n.incarnation, cur.clone(), n.sm.last_applied().index));
                self.last_membership.insert(*id, cur);
            }
        }
        let t = self.w.now_ms();
        let mut h = self.w.history.lock().unwrap();
        for (id, inc, (voters, learners), la) in changes {
            h.push(
                t,
                Ev::Membership {
                    node: id,
                    incarnation: inc,
                    voters,
                    learners,
                    last_applied: la,
                },
            );
        }
    }

    async fn snapshot_nodes(&mut self) {
        let mut out = vec![];
        for (id, n) in &self.w.nodes {
            let first = n.raft_log.first_entry_id();
            let last = n.raft_log.last_entry_id();
            let entries = if last > 0 {
                n.raft_log
                    .get_entries_range(first.max(1)..=last)
                    .unwrap_or_default()
                    .iter()
                    .map(|e| (e.index, e.term, crate::runner::fp(&payload_bytes(e))))
                    .collect()
            } else {
                vec![]
            };
            let mut voters: Vec<u32> = n.membership.voters().await.iter().map(|m| m.id).collect();
            voters.push(*id);
            voters.sort();
            out.push(NodeSnapshot {
                id: *id,
                incarnation: n.incarnation,
                first,
                last,
                entries,
                last_applied: n.sm.last_applied().index,
                kv: n.sm.contents(),
                voters,
                is_leader: n.leader_rx.borrow().as_ref().map(|l| l.leader_id == *id).unwrap_or(false),
                term_seen: n.leader_rx.borrow().as_ref().map(|l| l.term).unwrap_or(0),
                raft_exit: n.raft_exit.lock().unwrap().clone(),
            });
        }
        self.res.final_nodes = out;
    }
}

/// Executes a scenario on the simulator.
pub fn run_scenario(sc: &Scenario) -> RunResult {
    let sc = sc.clone();
    Sim::run(sc.seed, |mut w| async move {
        let n = sc.voters.clamp(1, 5) as u32;
        let cluster: Vec<_> = (1..=n).map(|i| node_meta(i, false)).collect();
        w.net.set_default_params(sc.net.to_link());
        let committed = Arc::new(Mutex::new(CommittedSeq::default()));
        w.commit_observer = Some(committed.clone());
        let mut it = Interp {
            sc: sc.clone(),
            w,
            ops: Arc::new(Mutex::new(vec![])),
            next_op: 1,
            committed,
            res: RunResult::default(),
            written: BTreeMap::new(),
            held: BTreeMap::new(),
            cluster: cluster.clone(),
            client_tasks: vec![],
            learners_started: vec![],
            last_membership: BTreeMap::new(),
        };
        it.res.n_nodes = n;
        it.res.general_timeout_ms = sc.knobs.general_timeout_ms.max(1) as u64;
        it.res.tick_ms = sc.knobs.heartbeat_ms.max(1) as u64;
        for id in 1..=n {
            let cfg = it.config_for(id);
            it.w.start_node(id, cfg, None, 1).await;
        }
        tokio::time::sleep(Duration::from_millis(sc.warmup_ms as u64)).await;
        it.checkpoint();
            it.sample_membership().await;
        // A checkpoint (C04/C05/C33) violation ends the run at once — except in the durability family (final
        // reads), whose oracle is the client-visible history: there the run continues so that the consequences of,
        // say, a log that lost acknowledged entries reach the reads.
        let stop_on_checkpoint = !sc.final_reads;
        if sc.poll_ms > 0 {
            // clients / operators polling cluster metadata from every node (ClusterConf requests), all the time
            let net = it.w.net.clone();
            let every = sc.poll_ms as u64;
            let max_id = n + sc.learners as u32;
            let h = tokio::spawn(async move {
                loop {
                    tokio::time::sleep(Duration::from_millis(every)).await;
                    for id in 1..=max_id {
                        if let Some((tx, _, _, _)) = net.endpoint_tx(id) {
                            let (rtx, rrx) = MaybeCloneOneshot::new();
                            if tx.try_send(d_engine_core::InboundEvent::ClusterConf(d_engine_proto::server::cluster::MetadataRequest {}, rtx)).is_ok() {
                                tokio::spawn(async move {
                                    let _ = tokio::time::timeout(Duration::from_secs(2), rrx).await;
                                });
                            }
                        }
                    }
                }
            });
            it.client_tasks.push(h);
            it.res.labels.insert("metadata_polling".into());
        }
        for step in sc.steps.clone() {
            tokio::time::sleep(Duration::from_millis(step.dt_ms as u64)).await;
            it.apply_event(&step.ev).await;
            // let same-instant work settle, then check the live invariants
            tokio::task::yield_now().await;
            it.checkpoint();
            it.sample_membership().await;
            if stop_on_checkpoint && !it.res.checkpoint_violations.is_empty() {
                break;
            }
        }
        // tail: faults stop — heal, restart what is down, quiet period
        it.res.heal_ms = it.w.now_ms();
        it.apply_event(&Event::Heal).await;
        it.apply_event(&Event::Net(NetP::default())).await;
        for (_, n) in it.w.nodes.iter() {
            n.apply_delay_ms.store(0, std::sync::atomic::Ordering::Relaxed);
        }
        let down: Vec<u32> = it.w.stopped.keys().copied().collect();
        for id in down {
            let cfg = it.config_for(id);
            it.w.restart_node(id, cfg).await;
        }
        let mut waited = 0u64;
        while waited < sc.tail_ms as u64 {
            tokio::time::sleep(Duration::from_millis(50)).await;
            waited += 50;
            it.checkpoint();
            it.sample_membership().await;
            if stop_on_checkpoint && !it.res.checkpoint_violations.is_empty() {
                break;
            }
        }
        if sc.probe_recovery && it.res.checkpoint_violations.is_empty() {
            // bounded liveness: Q = 60 x election_timeout_max of virtual time after the faults stopped
            let emax = sc.knobs.election_min_ms as u64 + sc.knobs.election_span_ms.max(1) as u64;
            let bound = 100 * emax;
            it.res.recovery_bound_ms = bound;
            it.res.recovery_probed = true;
            let start = it.w.now_ms();
            let heal = it.res.heal_ms;
            let mut probe_value: Option<Vec<u8>> = None;
            while it.w.now_ms() - start < bound {
                if let Some(l) = it.believed_leader() {
                    let v = format!("probe{}", it.next_op).into_bytes();
                    let before = it.ops.lock().unwrap().len();
                    it.submit_write(l, OpKind::Put { k: b"probe".to_vec(), v: v.clone(), ttl: None }, true);
                    let mut waited = 0;
                    while waited < sc.knobs.general_timeout_ms as u64 + 100 {
                        tokio::time::sleep(Duration::from_millis(10)).await;
                        waited += 10;
                        let done = it.ops.lock().unwrap().get(before).map(|o| o.return_ms.is_some()).unwrap_or(false);
                        if done {
                            break;
                        }
                    }
                    let ok = it.ops.lock().unwrap().get(before).map(|o| matches!(o.outcome, OpOutcome::WriteOk)).unwrap_or(false);
                    if ok {
                        it.res.recovery_write_ok_after_ms = Some(it.w.now_ms() - heal);
                        probe_value = Some(v);
                        break;
                    }
                } else {
                    tokio::time::sleep(Duration::from_millis(20)).await;
                }
            }
            if let Some(v) = probe_value {
                // every live voter must apply the probe within the remaining bound
                let deadline = start + bound;
                loop {
                    let mut missing = vec![];
                    let idx = it.w.applies.lock().unwrap().applied.iter().find(|a| matches!(&a.cmd, super::sm::Cmd::Put { v: pv, .. } if *pv == v)).map(|a| a.index).unwrap_or(0);
                    for (id, n) in &it.w.nodes {
                        let a = n.sm.last_applied().index;
                        if a < idx {
                            missing.push((*id, a, idx));
                        }
                    }
                    if missing.is_empty() || it.w.now_ms() >= deadline {
                        it.res.recovery_unapplied = missing;
                        break;
                    }
                    tokio::time::sleep(Duration::from_millis(20)).await;
                }
            }
        }
        if sc.final_reads {
            if let Some(l) = it.believed_leader() {
                for k in 0..4u8 {
                    it.submit_read(l, key_bytes(k), 1, true);
                }
                tokio::time::sleep(Duration::from_millis(sc.knobs.general_timeout_ms as u64 + 200)).await;
            }
        }
        it.snapshot_nodes().await;
        it.res.end_ms = it.w.now_ms();
        // collect
        for h in it.client_tasks.drain(..) {
            h.abort();
        }
        it.res.ops = it.ops.lock().unwrap().clone();
        it.res.committed = it.committed.lock().unwrap().clone();
        it.w.shutdown_all().await;
        it.res.history = std::mem::take(&mut it.w.history.lock().unwrap().events);
        it.res.applies = std::mem::take(&mut *it.w.applies.lock().unwrap());
        crate::runner::rm_dir(&it.w.root);
        it.res
    })
}

#[allow(dead_code)]
pub fn history_of(_h: &History) {}
