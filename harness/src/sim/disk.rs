//! SimDisk: in-memory StorageEngine (LogStore + MetaStore) with a page-cache / durable split.
//!
//! * every write lands in the *cache* image (what survives a process crash);
//! * `flush()` copies the cache to the *durable* image (what survives power loss);
//! * `freeze()` models the instant of a crash: all later writes from the dying process are ignored;
//! * `recover(power_loss)` produces the disk the next incarnation of the node sees.
//!
//! Semantics follow the `LogStore` / `MetaStore` trait documentation (RocksDB-like: the purge
//! boundary is persisted, `last_index` is the highest stored index).
use std::collections::BTreeMap;
use std::ops::RangeInclusive;
use std::sync::{Arc, Mutex};

use async_trait::async_trait;
use d_engine_core::{Error, HardState, LogStore, MetaStore, StorageEngine};
use d_engine_proto::common::{Entry, LogId};

#[derive(Clone, Default, Debug)]
pub struct LogImage {
    pub entries: BTreeMap<u64, Entry>,
    pub purge_boundary: Option<LogId>,
}
#[derive(Clone, Default, Debug)]
pub struct MetaImage {
    pub hard_state: Option<HardState>,
}

#[derive(Default, Debug)]
struct Inner {
    log_cache: LogImage,
    log_durable: LogImage,
    meta_cache: MetaImage,
    meta_durable: MetaImage,
    frozen: bool,
    /// number of save_hard_state calls (observability for C02)
    hard_state_saves: u64,
}

#[derive(Debug, Clone)]
pub struct SimDisk {
    inner: Arc<Mutex<Inner>>,
    /// "slow disk": virtual milliseconds every persist_entries call takes (0 = immediate)
    lag_ms: Arc<std::sync::atomic::AtomicU64>,
}

#[derive(Debug)]
pub struct SimLogStore {
    d: SimDisk,
}
#[derive(Debug)]
pub struct SimMetaStore {
    d: SimDisk,
}
#[derive(Debug)]
pub struct SimStorage {
    log: Arc<SimLogStore>,
    meta: Arc<SimMetaStore>,
    pub disk: SimDisk,
}

impl SimDisk {
    pub fn new() -> Self {
        SimDisk {
            inner: Arc::new(Mutex::new(Inner::default())),
            lag_ms: Default::default(),
        }
    }
    pub fn lag_ms(&self) -> u64 {
        self.lag_ms.load(std::sync::atomic::Ordering::Relaxed)
    }
    pub fn set_lag_ms(&self, ms: u64) {
        self.lag_ms.store(ms, std::sync::atomic::Ordering::Relaxed);
    }
    pub fn freeze(&self) {
        self.inner.lock().unwrap().frozen = true;
    }
    /// Disk as seen by the next incarnation. `power_loss` = only synced data survives.
    pub fn recover(&self, power_loss: bool) -> SimDisk {
        let g = self.inner.lock().unwrap();
        let (log, meta) = if power_loss {
            (g.log_durable.clone(), g.meta_durable.clone())
        } else {
            (g.log_cache.clone(), g.meta_cache.clone())
        };
        SimDisk {
            inner: Arc::new(Mutex::new(Inner {
                log_cache: log.clone(),
                log_durable: log,
                meta_cache: meta.clone(),
                meta_durable: meta,
                frozen: false,
                hard_state_saves: 0,
            })),
            lag_ms: Default::default(),
        }
    }
    pub fn storage(&self) -> Arc<SimStorage> {
        Arc::new(SimStorage {
            log: Arc::new(SimLogStore { d: self.clone() }),
            meta: Arc::new(SimMetaStore { d: self.clone() }),
            disk: self.clone(),
        })
    }
    pub fn cache_hard_state(&self) -> Option<HardState> {
        self.inner.lock().unwrap().meta_cache.hard_state
    }
    pub fn hard_state_saves(&self) -> u64 {
        self.inner.lock().unwrap().hard_state_saves
    }
    pub fn cache_log(&self) -> LogImage {
        self.inner.lock().unwrap().log_cache.clone()
    }
}

impl StorageEngine for SimStorage {
    type LogStore = SimLogStore;
    type MetaStore = SimMetaStore;
    fn log_store(&self) -> Arc<SimLogStore> {
        self.log.clone()
    }
    fn meta_store(&self) -> Arc<SimMetaStore> {
        self.meta.clone()
    }
}

#[async_trait]
impl LogStore for SimLogStore {
    async fn persist_entries(&self, entries: Vec<Entry>) -> Result<(), Error> {
        let lag = self.d.lag_ms.load(std::sync::atomic::Ordering::Relaxed);
        if lag > 0 {
            tokio::time::sleep(std::time::Duration::from_millis(lag)).await;
        }
        let mut g = self.d.inner.lock().unwrap();
        if g.frozen {
            return Ok(());
        }
        for e in entries {
            g.log_cache.entries.insert(e.index, e);
        }
        Ok(())
    }
    async fn entry(&self, index: u64) -> Result<Option<Entry>, Error> {
        Ok(self.d.inner.lock().unwrap().log_cache.entries.get(&index).cloned())
    }
    fn get_entries(&self, range: RangeInclusive<u64>) -> Result<Vec<Entry>, Error> {
        Ok(self.d.inner.lock().unwrap().log_cache.entries.range(range).map(|(_, e)| e.clone()).collect())
    }
    async fn purge(&self, cutoff: LogId) -> Result<(), Error> {
        let mut g = self.d.inner.lock().unwrap();
        if g.frozen {
            return Ok(());
        }
        g.log_cache.entries.retain(|&i, _| i > cutoff.index);
        g.log_cache.purge_boundary = Some(cutoff);
        Ok(())
    }
    async fn truncate(&self, from_index: u64) -> Result<(), Error> {
        let mut g = self.d.inner.lock().unwrap();
        if g.frozen {
            return Ok(());
        }
        g.log_cache.entries.retain(|&i, _| i < from_index);
        Ok(())
    }
    async fn replace_range(&self, from_index: u64, new_entries: Vec<Entry>) -> Result<(), Error> {
        let mut g = self.d.inner.lock().unwrap();
        if g.frozen {
            return Ok(());
        }
        g.log_cache.entries.retain(|&i, _| i < from_index);
        for e in new_entries {
            g.log_cache.entries.insert(e.index, e);
        }
        Ok(())
    }
    fn is_write_durable(&self) -> bool {
        false
    }
    fn flush(&self) -> Result<(), Error> {
        let mut g = self.d.inner.lock().unwrap();
        if g.frozen {
            return Ok(());
        }
        g.log_durable = g.log_cache.clone();
        Ok(())
    }
    async fn flush_async(&self) -> Result<(), Error> {
        LogStore::flush(self)
    }
    async fn reset(&self) -> Result<(), Error> {
        let mut g = self.d.inner.lock().unwrap();
        if g.frozen {
            return Ok(());
        }
        g.log_cache.entries.clear();
        Ok(())
    }
    fn last_index(&self) -> u64 {
        self.d.inner.lock().unwrap().log_cache.entries.keys().next_back().copied().unwrap_or(0)
    }
    fn load_purge_boundary(&self) -> Result<Option<LogId>, Error> {
        Ok(self.d.inner.lock().unwrap().log_cache.purge_boundary)
    }
}

#[async_trait]
impl MetaStore for SimMetaStore {
    fn save_hard_state(&self, state: &HardState) -> Result<(), Error> {
        let mut g = self.d.inner.lock().unwrap();
        if g.frozen {
            return Ok(());
        }
        // MetaStore contract: "Atomically persist hard state" — a conforming store makes it durable
        // before returning (RaftLog::save_hard_state: "MUST call fsync/flush before returning").
        // The simulated store honours the contract; whether the real File/RocksDB stores fsync is a
        // store-level question outside C02 (which quantifies over process crashes).
        g.meta_cache.hard_state = Some(*state);
        g.meta_durable.hard_state = Some(*state);
        g.hard_state_saves += 1;
        Ok(())
    }
    fn load_hard_state(&self) -> Result<Option<HardState>, Error> {
        Ok(self.d.inner.lock().unwrap().meta_cache.hard_state)
    }
    fn flush(&self) -> Result<(), Error> {
        let mut g = self.d.inner.lock().unwrap();
        if g.frozen {
            return Ok(());
        }
        g.meta_durable = g.meta_cache.clone();
        Ok(())
    }
    async fn flush_async(&self) -> Result<(), Error> {
        MetaStore::flush(self)
    }
}
