//! SimSM: reference key-value state machine used by the cluster simulator.
//!
//! It is a *correct* implementation of the `StateMachine` trait contract (data and applied index
//! change atomically and survive crashes; `generate_snapshot_data(last_included)` produces the
//! state as of `last_included`), so that cluster-level checks are not contaminated by defects of
//! the File/RocksDB engines (those are owned by C15/C16/C22/C23).  Every apply is reported to an
//! observer (node id, incarnation, index, term, command, result).
use std::collections::{BTreeMap, VecDeque};
use std::sync::atomic::{AtomicBool, AtomicU64, Ordering};
use std::sync::{Arc, Mutex};

use async_trait::async_trait;
use bytes::Bytes;
use d_engine_core::{ApplyEntry, ApplyResult, Command, Error, ScanResult, StateMachine, StorageError};
use d_engine_proto::common::LogId;
use d_engine_proto::server::storage::SnapshotMetadata;
use serde::{Deserialize, Serialize};

pub type Kv = BTreeMap<Vec<u8>, Vec<u8>>;

#[derive(Clone, Debug, Serialize, Deserialize, PartialEq, Eq, Hash)]
pub enum Cmd {
    Noop,
    Put { k: Vec<u8>, v: Vec<u8>, ttl: Option<u64> },
    Del { k: Vec<u8> },
    Cas { k: Vec<u8>, exp: Option<Vec<u8>>, v: Vec<u8> },
}

impl From<&Command> for Cmd {
    fn from(c: &Command) -> Self {
        match c {
            Command::Noop => Cmd::Noop,
            Command::Insert { key, value, ttl_secs } => Cmd::Put {
                k: key.to_vec(),
                v: value.to_vec(),
                ttl: *ttl_secs,
            },
            Command::Delete { key } => Cmd::Del { k: key.to_vec() },
            Command::CompareAndSwap { key, expected, value } => Cmd::Cas {
                k: key.to_vec(),
                exp: expected.as_ref().map(|b| b.to_vec()),
                v: value.to_vec(),
            },
        }
    }
}

/// Reference semantics: returns the `succeeded` flag the state machines report.
pub fn model_apply(kv: &mut Kv, c: &Cmd) -> bool {
    match c {
        Cmd::Noop => true,
        Cmd::Put { k, v, .. } => {
            kv.insert(k.clone(), v.clone());
            true
        }
        Cmd::Del { k } => {
            kv.remove(k);
            true
        }
        Cmd::Cas { k, exp, v } => {
            let ok = match (kv.get(k), exp) {
                (Some(c), Some(e)) => c == e,
                (None, None) => true,
                _ => false,
            };
            if ok {
                kv.insert(k.clone(), v.clone());
            }
            ok
        }
    }
}

#[derive(Clone, Debug, Serialize)]
pub struct Applied {
    pub node: u32,
    pub incarnation: u32,
    pub index: u64,
    pub term: u64,
    pub cmd: Cmd,
    pub ok: bool,
    /// SM's last_applied before this chunk
    pub prev_applied: u64,
    pub at_ms: u64,
}

#[derive(Clone, Debug, Serialize)]
pub struct Installed {
    pub node: u32,
    pub incarnation: u32,
    pub last_included: u64,
    pub at_ms: u64,
}

#[derive(Default, Debug, Serialize)]
pub struct ApplyLog {
    pub applied: Vec<Applied>,
    pub installs: Vec<Installed>,
}

/// The part of the state machine that lives on "disk" (survives crash and restart).
#[derive(Clone, Debug, Default)]
pub struct SmImage {
    pub data: Kv,
    pub last_applied: (u64, u64), // (index, term)
    pub snapshot_metadata: Option<SnapshotMetadata>,
    /// recent states: (index, term, state after index) — lets snapshots be taken "as of" an index
    pub history: VecDeque<(u64, u64, Kv)>,
}

const HISTORY: usize = 12;

#[derive(Debug)]
pub struct SimSM {
    node: u32,
    incarnation: u32,
    image: Arc<Mutex<SmImage>>,
    observer: Arc<Mutex<ApplyLog>>,
    running: AtomicBool,
    /// virtual milliseconds each apply_chunk takes (apply lag knob)
    pub apply_delay_ms: Arc<AtomicU64>,
    /// when set, apply_chunk fails (fatal error injection)
    pub fail_apply: Arc<AtomicBool>,
    clock_base: tokio::time::Instant,
}

#[derive(Serialize, Deserialize)]
struct SnapFile {
    data: Vec<(Vec<u8>, Vec<u8>)>,
    index: u64,
    term: u64,
}

impl SimSM {
    pub fn new(
        node: u32,
        incarnation: u32,
        image: Arc<Mutex<SmImage>>,
        observer: Arc<Mutex<ApplyLog>>,
        apply_delay_ms: Arc<AtomicU64>,
        fail_apply: Arc<AtomicBool>,
        clock_base: tokio::time::Instant,
    ) -> Self {
        SimSM {
            node,
            incarnation,
            image,
            observer,
            running: AtomicBool::new(true),
            apply_delay_ms,
            fail_apply,
            clock_base,
        }
    }
    fn now_ms(&self) -> u64 {
        self.clock_base.elapsed().as_millis() as u64
    }
    pub fn contents(&self) -> Kv {
        self.image.lock().unwrap().data.clone()
    }
}

fn sm_err(msg: impl Into<String>) -> Error {
    Error::System(d_engine_core::SystemError::Storage(StorageError::StateMachineError(msg.into())))
}

#[async_trait]
impl StateMachine for SimSM {
    async fn start(&self) -> Result<(), Error> {
        self.running.store(true, Ordering::SeqCst);
        Ok(())
    }
    fn stop(&self) -> Result<(), Error> {
        self.running.store(false, Ordering::SeqCst);
        Ok(())
    }
    fn is_running(&self) -> bool {
        self.running.load(Ordering::SeqCst)
    }
    fn get(&self, key: &[u8]) -> Result<Option<Bytes>, Error> {
        Ok(self.image.lock().unwrap().data.get(key).map(|v| Bytes::from(v.clone())))
    }
    fn entry_term(&self, entry_id: u64) -> Option<u64> {
        let g = self.image.lock().unwrap();
        g.history.iter().find(|(i, _, _)| *i == entry_id).map(|(_, t, _)| *t)
    }
    async fn apply_chunk(&self, chunk: &[ApplyEntry]) -> Result<Vec<ApplyResult>, Error> {
        let d = self.apply_delay_ms.load(Ordering::Relaxed);
        if d > 0 {
            tokio::time::sleep(std::time::Duration::from_millis(d)).await;
        }
        if self.fail_apply.load(Ordering::Relaxed) {
            return Err(sm_err("injected apply failure"));
        }
        let at = self.now_ms();
        let mut g = self.image.lock().unwrap();
        let mut obs = self.observer.lock().unwrap();
        let mut results = Vec::with_capacity(chunk.len());
        let prev_applied = g.last_applied.0;
        for e in chunk {
            let cmd = Cmd::from(&e.command);
            let ok = model_apply(&mut g.data, &cmd);
            results.push(if ok { ApplyResult::success(e.index) } else { ApplyResult::failure(e.index) });
            obs.applied.push(Applied {
                node: self.node,
                incarnation: self.incarnation,
                index: e.index,
                term: e.term,
                cmd,
                ok,
                prev_applied,
                at_ms: at,
            });
            g.last_applied = (e.index, e.term);
            let snap = g.data.clone();
            g.history.push_back((e.index, e.term, snap));
            if g.history.len() > HISTORY {
                g.history.pop_front();
            }
        }
        Ok(results)
    }
    fn len(&self) -> usize {
        self.image.lock().unwrap().data.len()
    }
    fn update_last_applied(&self, last_applied: LogId) {
        self.image.lock().unwrap().last_applied = (last_applied.index, last_applied.term);
    }
    fn last_applied(&self) -> LogId {
        let g = self.image.lock().unwrap();
        LogId {
            index: g.last_applied.0,
            term: g.last_applied.1,
        }
    }
    fn persist_last_applied(&self, last_applied: LogId) -> Result<(), Error> {
        self.update_last_applied(last_applied);
        Ok(())
    }
    fn update_last_snapshot_metadata(&self, m: &SnapshotMetadata) -> Result<(), Error> {
        self.image.lock().unwrap().snapshot_metadata = Some(m.clone());
        Ok(())
    }
    fn snapshot_metadata(&self) -> Option<SnapshotMetadata> {
        self.image.lock().unwrap().snapshot_metadata.clone()
    }
    fn persist_last_snapshot_metadata(&self, m: &SnapshotMetadata) -> Result<(), Error> {
        self.update_last_snapshot_metadata(m)
    }
    async fn apply_snapshot_from_file(&self, metadata: &SnapshotMetadata, snapshot_path: std::path::PathBuf) -> Result<(), Error> {
        let bytes = tokio::fs::read(snapshot_path.join("snapshot.bin")).await?;
        let f: SnapFile = bincode::deserialize(&bytes).map_err(|e| sm_err(format!("snapshot decode: {e}")))?;
        let mut g = self.image.lock().unwrap();
        g.data = f.data.into_iter().collect();
        g.snapshot_metadata = Some(metadata.clone());
        if let Some(li) = metadata.last_included {
            g.last_applied = (li.index, li.term);
            g.history.clear();
            let snap = g.data.clone();
            g.history.push_back((li.index, li.term, snap));
            self.observer.lock().unwrap().installs.push(Installed {
                node: self.node,
                incarnation: self.incarnation,
                last_included: li.index,
                at_ms: self.now_ms(),
            });
        }
        Ok(())
    }
    async fn generate_snapshot_data(&self, new_snapshot_dir: std::path::PathBuf, last_included: LogId) -> Result<Bytes, Error> {
        let (file, meta) = {
            let mut g = self.image.lock().unwrap();
            // state as of `last_included` (trait contract: entries up to last_included_index)
            let state = g
                .history
                .iter()
                .find(|(i, _, _)| *i == last_included.index)
                .map(|(_, _, s)| s.clone())
                .ok_or_else(|| sm_err(format!("no retained state for index {}", last_included.index)))?;
            let meta = SnapshotMetadata {
                last_included: Some(last_included),
                checksum: Bytes::from(vec![0u8; 32]),
            };
            g.snapshot_metadata = Some(meta.clone());
            (
                SnapFile {
                    data: state.into_iter().collect(),
                    index: last_included.index,
                    term: last_included.term,
                },
                meta,
            )
        };
        let _ = meta;
        tokio::fs::create_dir_all(&new_snapshot_dir).await?;
        let bytes = bincode::serialize(&file).map_err(|e| sm_err(format!("snapshot encode: {e}")))?;
        tokio::fs::write(new_snapshot_dir.join("snapshot.bin"), bytes).await?;
        Ok(Bytes::from_static(&[0u8; 32]))
    }
    fn save_hard_state(&self) -> Result<(), Error> {
        Ok(())
    }
    fn flush(&self) -> Result<(), Error> {
        Ok(())
    }
    async fn flush_async(&self) -> Result<(), Error> {
        Ok(())
    }
    async fn reset(&self) -> Result<(), Error> {
        let mut g = self.image.lock().unwrap();
        *g = SmImage::default();
        Ok(())
    }
    fn scan_prefix(&self, prefix: &[u8]) -> Result<ScanResult, Error> {
        let g = self.image.lock().unwrap();
        let entries = g
            .data
            .iter()
            .filter(|(k, _)| k.starts_with(prefix))
            .map(|(k, v)| (Bytes::from(k.clone()), Bytes::from(v.clone())))
            .collect();
        Ok(ScanResult {
            entries,
            revision: g.last_applied.0,
        })
    }
}
