//! E1/E2 cluster simulator: N complete real d-engine nodes (Raft<SimT>, BufferedRaftLog, ElectionHandler,
//! ReplicationHandler, DefaultCommitHandler, DefaultStateMachineHandler, StateMachineWorker, DefaultPurgeExecutor,
//! LogSizePolicy, server RaftMembership) wired exactly as `NodeBuilder::build()` wires them, around a simulated
//! network (net.rs), disk (disk.rs), state machine (sm.rs) and a paused tokio clock.
pub mod disk;
pub mod history;
pub mod sgen;
pub mod memmon;
pub mod monitors;
pub mod net;
pub mod scenario;
pub mod sm;

use std::collections::BTreeMap;
use std::path::PathBuf;
use std::sync::atomic::{AtomicBool, AtomicU64};
use std::sync::{Arc, Mutex};
use std::time::Duration;

use d_engine_core::{
    BufferedRaftLog, ClientCmd, CommitHandler, CommitHandlerDependencies, DefaultCommitHandler, DefaultPurgeExecutor, DefaultStateMachineHandler,
    ElectionHandler, InboundEvent, InternalEvent, LeaderInfo, LogSizePolicy, NewCommitData, Raft, RaftCoreHandlers, RaftLog, RaftNodeConfig, RaftRole,
    RaftStorageHandles, ReadLease, ReplicationHandler, SignalParams, StateMachine, StateMachineWorker, TypeConfig,
};
use d_engine_core::follower_state::FollowerState;
use d_engine_core::learner_state::LearnerState;
use d_engine_proto::common::{NodeRole, NodeStatus};
use d_engine_proto::server::cluster::NodeMeta;
use d_engine_server::verif_api::{new_raft_membership, RaftMembership};
use tokio::sync::{mpsc, watch};
use tokio::task::JoinHandle;

use disk::{SimDisk, SimStorage};
use history::{Ev, History};
use net::{Endpoint, Net, SimTransport};
use sm::{ApplyLog, SimSM, SmImage};

#[derive(Debug)]
pub struct SimT;
impl TypeConfig for SimT {
    type SE = SimStorage;
    type SM = SimSM;
    type R = BufferedRaftLog<Self>;
    type M = RaftMembership<Self>;
    type TR = SimTransport;
    type E = ElectionHandler<Self>;
    type REP = ReplicationHandler<Self>;
    type C = DefaultCommitHandler<Self>;
    type SMH = DefaultStateMachineHandler<Self>;
    type SNP = LogSizePolicy;
    type PE = DefaultPurgeExecutor<Self>;
}

/// Per-node knobs a scenario may vary (everything else keeps d-engine's defaults).
#[derive(Clone, Debug)]
pub struct NodeKnobs {
    pub election_min_ms: u64,
    pub election_max_ms: u64,
    pub heartbeat_ms: u64,
    pub lease_ms: u64,
    pub per_request_cap: u64,
    pub max_batch_size: usize,
    pub general_timeout_ms: u64,
    pub noop_timeout_ms: u64,
    pub snapshot_enable: bool,
    pub snapshot_threshold: u64,
    pub retained_log_entries: u64,
    pub max_pending_writes: usize,
    pub default_read_policy: d_engine_core::ReadConsistencyPolicy,
    pub allow_client_override: bool,
    pub learner_catchup_threshold: u64,
}
impl Default for NodeKnobs {
    fn default() -> Self {
        NodeKnobs {
            election_min_ms: 150,
            election_max_ms: 300,
            heartbeat_ms: 30,
            lease_ms: 80,
            per_request_cap: 100,
            max_batch_size: 100,
            general_timeout_ms: 400,
            noop_timeout_ms: 1000,
            snapshot_enable: false,
            snapshot_threshold: 1000,
            retained_log_entries: 1,
            max_pending_writes: 10_000,
            default_read_policy: d_engine_core::ReadConsistencyPolicy::LinearizableRead,
            allow_client_override: true,
            learner_catchup_threshold: 1,
        }
    }
}

pub fn node_meta(id: u32, learner: bool) -> NodeMeta {
    NodeMeta {
        id,
        address: format!("127.0.0.1:{}", 9000 + id),
        role: if learner { NodeRole::Learner as i32 } else { NodeRole::Follower as i32 },
        status: if learner { NodeStatus::Promotable as i32 } else { NodeStatus::Active as i32 },
    }
}

pub fn make_config(id: u32, initial_cluster: Vec<NodeMeta>, k: &NodeKnobs, root: &PathBuf) -> RaftNodeConfig {
    let mut c = RaftNodeConfig::default();
    c.cluster.node_id = id;
    c.cluster.initial_cluster = initial_cluster;
    c.cluster.listen_address = format!("127.0.0.1:{}", 9000 + id).parse().unwrap();
    c.cluster.db_root_dir = root.join(format!("n{id}/db"));
    c.cluster.log_dir = root.join(format!("n{id}/logs"));
    c.raft.election.election_timeout_min = k.election_min_ms;
    c.raft.election.election_timeout_max = k.election_max_ms;
    c.raft.replication.rpc_append_entries_clock_in_ms = k.heartbeat_ms;
    c.raft.replication.append_entries_max_entries_per_replication = k.per_request_cap;
    c.raft.batching.max_batch_size = k.max_batch_size;
    c.raft.read_consistency.lease_duration_ms = k.lease_ms;
    c.raft.read_consistency.default_policy = k.default_read_policy.clone();
    c.raft.read_consistency.allow_client_override = k.allow_client_override;
    c.raft.general_raft_timeout_duration_in_ms = k.general_timeout_ms;
    c.raft.membership.verify_leadership_persistent_timeout = Duration::from_millis(k.noop_timeout_ms);
    c.raft.snapshot.enable = k.snapshot_enable;
    c.raft.snapshot.max_log_entries_before_snapshot = k.snapshot_threshold;
    c.raft.snapshot.retained_log_entries = k.retained_log_entries;
    c.raft.snapshot.snapshots_dir = root.join(format!("n{id}/snapshots"));
    c.raft.snapshot.snapshot_cool_down_since_last_check = Duration::from_millis(0);
    c.raft.snapshot.chunk_size = 256;
    c.raft.backpressure.max_pending_writes = k.max_pending_writes;
    c.raft.learner_catchup_threshold = k.learner_catchup_threshold;
    c.raft.learner_check_throttle_ms = 10;
    c.raft.metrics.enable_backpressure = false;
    // d-engine's defaults keep a whole vote round (3 x 100 ms + back-off = 450 ms) below the default
    // election_timeout_min (500 ms); keep the same proportion for the generated election windows, otherwise a
    // candidate's blocking vote round outlasts its own election timer and BecomeLeader is starved forever.
    c.retry.election.timeout_ms = (k.election_min_ms / 5).max(5);
    c.retry.election.base_delay_ms = (k.election_min_ms / 10).max(2);
    c.retry.election.max_delay_ms = (k.election_min_ms / 5).max(5);
    c.retry.election.max_retries = 3;
    c
}

/// What survives a node's process: its disk, its state-machine image and its snapshot directory.
#[derive(Clone)]
pub struct Persistent {
    pub disk: SimDisk,
    pub sm_image: Arc<Mutex<SmImage>>,
}

pub struct RunningNode {
    pub id: u32,
    pub incarnation: u32,
    pub config: Arc<RaftNodeConfig>,
    pub persistent: Persistent,
    pub raft_log: Arc<BufferedRaftLog<SimT>>,
    pub sm: Arc<SimSM>,
    pub smh: Arc<DefaultStateMachineHandler<SimT>>,
    pub membership: Arc<RaftMembership<SimT>>,
    pub cmd_tx: mpsc::Sender<ClientCmd>,
    pub event_tx: mpsc::Sender<InboundEvent>,
    pub internal_tx: mpsc::UnboundedSender<InternalEvent>,
    pub lease: Arc<ReadLease>,
    pub leader_rx: watch::Receiver<Option<LeaderInfo>>,
    pub shutdown_tx: watch::Sender<()>,
    pub apply_delay_ms: Arc<AtomicU64>,
    pub fail_apply: Arc<AtomicBool>,
    pub raft_task: JoinHandle<()>,
    pub aux_tasks: Vec<JoinHandle<()>>,
    /// set when raft.run() returned (Ok or fatal Err)
    pub raft_exit: Arc<Mutex<Option<String>>>,
}

pub struct World {
    pub root: PathBuf,
    pub net: Arc<Net>,
    pub history: Arc<Mutex<History>>,
    pub applies: Arc<Mutex<ApplyLog>>,
    pub clock_base: tokio::time::Instant,
    pub nodes: BTreeMap<u32, RunningNode>,
    pub stopped: BTreeMap<u32, (Persistent, u32)>,
    /// committed-sequence oracle: filled from leaders' logs when their commit index advances
    pub commit_observer: Option<Arc<Mutex<scenario::CommittedSeq>>>,
    /// where each node's log can be inspected right now (live log, or the disk of a stopped node)
    pub log_views: Arc<Mutex<BTreeMap<u32, LogView>>>,
}

#[derive(Clone)]
pub enum LogView {
    Live(Arc<BufferedRaftLog<SimT>>),
    Stopped(SimDisk),
}
impl LogView {
    pub fn entry(&self, i: u64) -> Option<d_engine_proto::common::Entry> {
        match self {
            LogView::Live(l) => l.entry(i).ok().flatten(),
            LogView::Stopped(d) => d.cache_log().entries.get(&i).cloned(),
        }
    }
    pub fn last(&self) -> u64 {
        match self {
            LogView::Live(l) => l.last_entry_id(),
            LogView::Stopped(d) => d.cache_log().entries.keys().next_back().copied().unwrap_or(0),
        }
    }
}

impl World {
    pub fn now_ms(&self) -> u64 {
        self.clock_base.elapsed().as_millis() as u64
    }
    pub fn note(&self, what: impl Into<String>) {
        let t = self.now_ms();
        self.history.lock().unwrap().push(t, Ev::Note { what: what.into() });
    }
    pub fn fault(&self, what: impl Into<String>) {
        let t = self.now_ms();
        self.history.lock().unwrap().push(t, Ev::Fault { what: what.into() });
    }

    /// Assembles and starts a node exactly as `NodeBuilder::build()` + `Node::run()` do.
    pub async fn start_node(&mut self, id: u32, config: RaftNodeConfig, persistent: Option<Persistent>, incarnation: u32) {
        let persistent = persistent.unwrap_or_else(|| Persistent {
            disk: SimDisk::new(),
            sm_image: Arc::new(Mutex::new(SmImage::default())),
        });
        let node_config = config.clone();
        let (shutdown_tx, shutdown_rx) = watch::channel(());
        let apply_delay_ms = Arc::new(AtomicU64::new(0));
        let fail_apply = Arc::new(AtomicBool::new(false));

        let (new_commit_event_tx, new_commit_event_rx) = mpsc::unbounded_channel::<NewCommitData>();
        let state_machine = Arc::new(SimSM::new(
            id,
            incarnation,
            persistent.sm_image.clone(),
            self.applies.clone(),
            apply_delay_ms.clone(),
            fail_apply.clone(),
            self.clock_base,
        ));
        state_machine.start().await.expect("sm start");
        let storage_engine = persistent.disk.storage();
        let last_applied_index = state_machine.last_applied().index;

        let (internal_event_tx, internal_event_rx) = mpsc::unbounded_channel();
        let raft_log = {
            let (log, receiver) = BufferedRaftLog::<SimT>::new(id, node_config.raft.persistence.clone(), storage_engine.clone());
            log.start(receiver, Some(internal_event_tx.clone()))
        };
        let transport = SimTransport {
            my_id: id,
            net: self.net.clone(),
        };
        let snapshot_policy = LogSizePolicy::new(
            node_config.raft.snapshot.max_log_entries_before_snapshot,
            node_config.raft.snapshot.snapshot_cool_down_since_last_check,
        );
        let state_machine_handler = Arc::new(DefaultStateMachineHandler::<SimT>::new(
            id,
            last_applied_index,
            state_machine.clone(),
            node_config.raft.snapshot.clone(),
            snapshot_policy,
            None,
            Arc::new(std::sync::atomic::AtomicUsize::new(0)),
        ));
        let (membership_inner, _zombie_rx) = new_raft_membership::<SimT>(id, node_config.cluster.initial_cluster.clone(), node_config.clone());
        let membership = Arc::new(membership_inner);
        let purge_executor = DefaultPurgeExecutor::new(raft_log.clone());

        let (event_tx, event_rx) = mpsc::channel(10240);
        let (cmd_tx, cmd_rx) = mpsc::channel(node_config.raft.cmd_channel_capacity);
        let node_config_arc = Arc::new(node_config);
        let hard_state = raft_log.load_hard_state().expect("load hard state");
        let my_role = if node_config_arc.is_learner() {
            RaftRole::Learner(Box::new(LearnerState::new(id, node_config_arc.clone())))
        } else {
            RaftRole::Follower(Box::new(FollowerState::new(id, node_config_arc.clone(), hard_state, Some(last_applied_index))))
        };
        let my_role_i32 = my_role.as_i32();
        let my_current_term = my_role.current_term();
        {
            let t = self.now_ms();
            self.history.lock().unwrap().push(
                t,
                Ev::NodeStart {
                    node: id,
                    incarnation,
                    term: my_current_term,
                    voted_for: hard_state.and_then(|h| h.voted_for).map(|v| (v.voted_for_id, v.voted_for_term)),
                    last_applied: last_applied_index,
                    log_last: raft_log.last_entry_id(),
                },
            );
        }
        let mut raft_core = Raft::<SimT>::new(
            id,
            my_role,
            RaftStorageHandles::<SimT> {
                raft_log: raft_log.clone(),
                state_machine: state_machine.clone(),
            },
            transport,
            RaftCoreHandlers::<SimT> {
                election_handler: ElectionHandler::new(id),
                replication_handler: ReplicationHandler::new(id),
                state_machine_handler: state_machine_handler.clone(),
                purge_executor: Arc::new(purge_executor),
            },
            membership.clone(),
            SignalParams::new(
                internal_event_tx.clone(),
                internal_event_rx,
                event_tx.clone(),
                event_rx,
                cmd_tx.clone(),
                cmd_rx,
                shutdown_rx.clone(),
            ),
            node_config_arc.clone(),
        );
        raft_core.register_new_commit_listener(new_commit_event_tx);
        // second listener: the recorder
        let (obs_commit_tx, mut obs_commit_rx) = mpsc::unbounded_channel::<NewCommitData>();
        raft_core.register_new_commit_listener(obs_commit_tx);
        let (leader_tx, leader_rx) = watch::channel::<Option<LeaderInfo>>(None);
        raft_core.register_leader_change_listener(leader_tx);
        let lease = raft_core.read_lease();

        let mut aux = vec![];
        // SM worker (the server runs it on a dedicated OS thread; here: a task on the simulated clock)
        let (sm_apply_tx, sm_apply_rx) = mpsc::unbounded_channel();
        let sm_worker = StateMachineWorker::<SimT>::new(id, state_machine_handler.clone(), sm_apply_rx, internal_event_tx.clone(), shutdown_rx.clone());
        aux.push(tokio::spawn(async move {
            let _ = sm_worker.run().await;
        }));
        // commit handler
        let deps = CommitHandlerDependencies::<SimT> {
            state_machine_handler: state_machine_handler.clone(),
            raft_log: raft_log.clone(),
            membership: membership.clone(),
            internal_event_tx: internal_event_tx.clone(),
            sm_apply_tx,
            shutdown_signal: shutdown_rx.clone(),
            max_batch_size: node_config_arc.raft.batching.max_batch_size,
        };
        let mut commit_handler = DefaultCommitHandler::<SimT>::new(id, my_role_i32, my_current_term, deps, new_commit_event_rx);
        aux.push(tokio::spawn(async move {
            let _ = commit_handler.run().await;
        }));
        // recorder tasks
        {
            let hist = self.history.clone();
            let base = self.clock_base;
            let observer = self.commit_observer.clone();
            let log_for_obs = raft_log.clone();
            let views = self.log_views.clone();
            let membership_for_obs = membership.clone();
            aux.push(tokio::spawn(async move {
                let mut last_idx = 0u64;
                while let Some(c) = obs_commit_rx.recv().await {
                    let t = base.elapsed().as_millis() as u64;
                    if c.role == NodeRole::Leader as i32 {
                        // C09 observation: who holds the entry the leader just committed?
                        if let Ok(Some(e)) = log_for_obs.entry(c.new_commit_index) {
                            use d_engine_core::Membership;
                            let mut voters: Vec<u32> = membership_for_obs.voters().await.iter().map(|m| m.id).collect();
                            voters.push(id);
                            voters.sort();
                            voters.dedup();
                            let p = scenario::payload_bytes(&e);
                            let mut holders = vec![];
                            {
                                let v = views.lock().unwrap();
                                for vid in &voters {
                                    if *vid == id {
                                        holders.push(*vid);
                                        continue;
                                    }
                                    if let Some(view) = v.get(vid) {
                                        if let Some(pe) = view.entry(c.new_commit_index) {
                                            if pe.term == e.term && scenario::payload_bytes(&pe) == p {
                                                holders.push(*vid);
                                            }
                                        }
                                    }
                                }
                            }
                            hist.lock().unwrap().push(
                                t,
                                Ev::CommitQuorum {
                                    node: id,
                                    index: c.new_commit_index,
                                    leader_term: c.current_term,
                                    entry_term: e.term,
                                    holders,
                                    voters,
                                    // a membership entry in the newly committed range changes the voter set as soon as
                                    // it is applied; which set was in force when the index moved cannot be observed here
                                    config_in_range: ((last_idx + 1)..=c.new_commit_index)
                                        .any(|i| log_for_obs.entry(i).ok().flatten().and_then(|x| x.payload).map(|p| p.is_config()).unwrap_or(false)),
                                },
                            );
                        }
                    }
                    if c.role == NodeRole::Leader as i32 {
                        // C27 observation: how far were the learners a committed promotion turns into voters?
                        for i in (last_idx + 1)..=c.new_commit_index {
                            if let Ok(Some(e)) = log_for_obs.entry(i) {
                                if let Some(ids) = memmon::promoted_ids(&scenario::payload_bytes(&e)) {
                                    let v = views.lock().unwrap();
                                    let promoted: Vec<(u32, u64)> = ids.iter().map(|pid| (*pid, v.get(pid).map(|x| x.last()).unwrap_or(0))).collect();
                                    hist.lock().unwrap().push(t, Ev::PromoteCommitted { leader: id, index: i, promoted });
                                }
                            }
                        }
                    }
                    hist.lock().unwrap().push(
                        t,
                        Ev::Commit {
                            node: id,
                            index: c.new_commit_index,
                            role: c.role,
                            term: c.current_term,
                        },
                    );
                    if c.role == NodeRole::Leader as i32 {
                        if let Some(obs) = &observer {
                            let mut g = obs.lock().unwrap();
                            let lo = last_idx + 1;
                            for i in lo..=c.new_commit_index {
                                if let Ok(Some(e)) = log_for_obs.entry(i) {
                                    let p = scenario::payload_bytes(&e);
                                    match g.entries.get(&i) {
                                        None => {
                                            g.entries.insert(i, (e.term, p));
                                            g.commit_term.insert(i, c.current_term);
                                            g.commit_time.insert(i, t);
                                        }
                                        Some((t0, p0)) => {
                                            if *t0 != e.term || *p0 != p {
                                                let msg = format!(
                                                    "t={t}ms leader {id} (term {}) committed index {i} with term {} but index {i} was committed earlier with term {t0} (payload equal={})",
                                                    c.current_term,
                                                    e.term,
                                                    *p0 == p
                                                );
                                                g.conflicts.push(msg);
                                            }
                                        }
                                    }
                                }
                            }
                            g.max_index = g.max_index.max(c.new_commit_index);
                            last_idx = last_idx.max(c.new_commit_index);
                        }
                    }
                }
            }));
            let hist = self.history.clone();
            let mut rx = leader_rx.clone();
            aux.push(tokio::spawn(async move {
                while rx.changed().await.is_ok() {
                    let v = rx.borrow().clone();
                    let t = base.elapsed().as_millis() as u64;
                    hist.lock().unwrap().push(
                        t,
                        Ev::LeaderNotify {
                            node: id,
                            leader: v.as_ref().map(|l| l.leader_id),
                            term: v.as_ref().map(|l| l.term).unwrap_or(0),
                        },
                    );
                }
            }));
        }

        self.net.register(
            id,
            Endpoint {
                event_tx: event_tx.clone(),
                incarnation,
                vote_handler_timeout_ms: node_config_arc.raft.election.election_timeout_min,
                generic_handler_timeout_ms: node_config_arc.raft.general_raft_timeout_duration_in_ms,
                snapshot_rpc_timeout_ms: node_config_arc.raft.snapshot_rpc_timeout_ms,
            },
        );

        self.log_views.lock().unwrap().insert(id, LogView::Live(raft_log.clone()));
        let raft_exit = Arc::new(Mutex::new(None));
        let raft_exit2 = raft_exit.clone();
        let is_learner = node_config_arc.is_learner();
        let raft_task = tokio::spawn(async move {
            let mut raft = raft_core;
            if is_learner {
                // Node::run_as_learner: join first, then the main loop
                if let Err(e) = raft.join_cluster().await {
                    *raft_exit2.lock().unwrap() = Some(format!("join failed: {e:?}"));
                    return;
                }
            }
            let r = raft.run().await;
            *raft_exit2.lock().unwrap() = Some(match r {
                Ok(()) => "ok".to_string(),
                Err(e) => format!("err: {e:?}"),
            });
            // Raft dropped here -> impl Drop saves the hard state (graceful path)
        });

        self.nodes.insert(
            id,
            RunningNode {
                id,
                incarnation,
                config: node_config_arc,
                persistent,
                raft_log,
                sm: state_machine,
                smh: state_machine_handler,
                membership,
                cmd_tx,
                event_tx,
                internal_tx: internal_event_tx,
                lease,
                leader_rx,
                shutdown_tx,
                apply_delay_ms,
                fail_apply,
                raft_task,
                aux_tasks: aux,
                raft_exit,
            },
        );
    }

    /// Process crash: the disk freezes at this instant, then every task of the node is destroyed.
    /// Returns what the next incarnation will find (power_loss=false: page cache survives).
    pub async fn crash_node(&mut self, id: u32, power_loss: bool) {
        let Some(n) = self.nodes.remove(&id) else { return };
        n.persistent.disk.freeze();
        self.net.unregister(id);
        n.raft_task.abort();
        for t in &n.aux_tasks {
            t.abort();
        }
        let _ = n.raft_task.await;
        for t in n.aux_tasks {
            let _ = t.await;
        }
        let t = self.now_ms();
        self.history.lock().unwrap().push(
            t,
            Ev::NodeStop {
                node: id,
                incarnation: n.incarnation,
                graceful: false,
            },
        );
        let next = Persistent {
            disk: n.persistent.disk.recover(power_loss),
            sm_image: Arc::new(Mutex::new(n.persistent.sm_image.lock().unwrap().clone())),
        };
        // drop remaining handles (raft_log Arc etc.) — their Drop impls hit the frozen disk
        drop(n.raft_log);
        drop(n.smh);
        drop(n.sm);
        self.log_views.lock().unwrap().insert(id, LogView::Stopped(next.disk.clone()));
        self.stopped.insert(id, (next, n.incarnation));
    }

    /// Graceful stop: shutdown signal, wait for the Raft loop and the workers to finish, then drop.
    pub async fn stop_node(&mut self, id: u32) {
        let Some(n) = self.nodes.remove(&id) else { return };
        self.net.unregister(id);
        let _ = n.shutdown_tx.send(());
        let _ = tokio::time::timeout(Duration::from_secs(5), n.raft_task).await;
        for t in n.aux_tasks {
            let _ = tokio::time::timeout(Duration::from_secs(1), async {
                let ah = t.abort_handle();
                // give workers a chance to drain, then abort whatever is left (recorders never end)
                tokio::time::sleep(Duration::from_millis(50)).await;
                ah.abort();
                let _ = t.await;
            })
            .await;
        }
        // let the log's IO task process Shutdown (final flush). In production RaftLog::close() joins the IO thread;
        // here the IO task runs on this runtime without a handle, so give it more (virtual) time than the slowest
        // simulated disk needs for the writes that may still be in flight.
        tokio::time::sleep(Duration::from_millis(20 + 4 * n.persistent.disk.lag_ms())).await;
        let t = self.now_ms();
        self.history.lock().unwrap().push(
            t,
            Ev::NodeStop {
                node: id,
                incarnation: n.incarnation,
                graceful: true,
            },
        );
        let persistent = n.persistent.clone();
        drop(n.raft_log);
        self.log_views.lock().unwrap().insert(id, LogView::Stopped(persistent.disk.clone()));
        self.stopped.insert(id, (persistent, n.incarnation));
    }

    pub async fn restart_node(&mut self, id: u32, config: RaftNodeConfig) {
        if let Some((p, inc)) = self.stopped.remove(&id) {
            self.start_node(id, config, Some(p), inc + 1).await;
        }
    }

    pub async fn shutdown_all(&mut self) {
        let ids: Vec<u32> = self.nodes.keys().copied().collect();
        for id in ids {
            self.crash_node(id, false).await;
        }
    }
}

thread_local! {
    static DEBUG_CLOCK_BASE: std::cell::Cell<Option<tokio::time::Instant>> = const { std::cell::Cell::new(None) };
}
/// Virtual milliseconds since the start of the simulation running on this thread (debug output only).
pub fn debug_now_ms() -> u64 {
    DEBUG_CLOCK_BASE.with(|c| c.get()).map(|b| b.elapsed().as_millis() as u64).unwrap_or(0)
}

pub struct Sim;
impl Sim {
    /// Runs `f` inside a fresh current-thread runtime with a paused clock and the d-engine hooks armed.
    pub fn run<F, Fut, R>(seed: u64, f: F) -> R
    where
        F: FnOnce(World) -> Fut,
        Fut: std::future::Future<Output = R>,
    {
        let rt = tokio::runtime::Builder::new_current_thread().enable_all().start_paused(true).build().expect("runtime");
        let r = rt.block_on(async move {
            d_engine_core::verif_hooks::arm_virtual_clock();
            d_engine_core::verif_hooks::set_io_task_on_caller_runtime(true);
            let mut state = seed ^ 0x9E37_79B9_7F4A_7C15;
            d_engine_core::verif_hooks::set_election_timeout_source(Some(Box::new(move |min, max| {
                state = state.wrapping_mul(6364136223846793005).wrapping_add(1442695040888963407);
                let span = max.saturating_sub(min).max(1);
                min + (state >> 33) % span
            })));
            let clock_base = tokio::time::Instant::now();
            DEBUG_CLOCK_BASE.with(|c| c.set(Some(clock_base)));
            let history = Arc::new(Mutex::new(History::default()));
            let net = Net::new(seed, history.clone(), clock_base, net::LinkParams::default());
            let world = World {
                root: crate::runner::work_dir("sim"),
                net,
                history,
                applies: Arc::new(Mutex::new(ApplyLog::default())),
                clock_base,
                nodes: BTreeMap::new(),
                stopped: BTreeMap::new(),
                commit_observer: None,
                log_views: Arc::new(Mutex::new(BTreeMap::new())),
            };
            f(world).await
        });
        d_engine_core::verif_hooks::disarm_virtual_clock();
        d_engine_core::verif_hooks::set_io_task_on_caller_runtime(false);
        d_engine_core::verif_hooks::set_election_timeout_source(None);
        drop(rt);
        r
    }
}
