//! SimNet: a `Transport<SimT>` per node over an in-memory network with generated faults.
//!
//! It stands in for grpc_transport.rs (client side) + grpc_raft_service.rs (server side) and follows
//! them closely: vote fan-out over `membership.voters()` with `peer_ids` counted before the send and the
//! election `BackoffPolicy` retry loop; persistent FIFO bidirectional replication streams whose server side
//! pushes `InboundEvent::AppendEntries(req,[tx])` and forwards responses in arrival order; snapshot push via
//! `InboundEvent::InstallSnapshotChunk`; join / leader discovery as unary RPCs.
//!
//! Faults: per-link delay distribution, unary-RPC loss, stream message duplication, link stall (messages held
//! until heal, as TCP would) and link break (streams fail with a status, held messages are lost), node down.
//! All per-message decisions are a pure function of (seed, src, dst, per-link sequence number).
use std::collections::{HashMap, HashSet};
use std::sync::{Arc, Mutex};
use std::time::Duration;

use async_trait::async_trait;
use d_engine_core::{
    AppendResult, BackoffPolicy, ClusterUpdateResult, Error, InboundEvent, MaybeCloneOneshot, Membership, NetworkError, RaftOneshot,
    ReplicationStream, Result, RetryPolicies, SnapshotConfig, StateMachineHandler, Transport, VoteResult,
};
use d_engine_proto::server::cluster::{ClusterConfChangeRequest, JoinRequest, JoinResponse, LeaderDiscoveryRequest, LeaderDiscoveryResponse};
use d_engine_proto::server::election::{VoteRequest, VoteResponse};
use d_engine_proto::server::replication::{AppendEntriesRequest, AppendEntriesResponse};
use d_engine_proto::server::storage::{SnapshotAck, SnapshotChunk, SnapshotMetadata};
use futures::stream::FuturesUnordered;
use futures::StreamExt;
use tokio::sync::{mpsc, Notify};
use tonic::Status;

use super::history::{Ev, History};
use super::SimT;

#[derive(Clone, Debug)]
pub struct LinkParams {
    pub min_delay_ms: u64,
    pub max_delay_ms: u64,
    /// per-mille probability that a unary RPC message (either direction) is lost
    pub loss_pm: u32,
    /// per-mille probability that a stream request is delivered twice
    pub dup_pm: u32,
}
impl Default for LinkParams {
    fn default() -> Self {
        LinkParams {
            min_delay_ms: 1,
            max_delay_ms: 5,
            loss_pm: 0,
            dup_pm: 0,
        }
    }
}

#[derive(Debug)]
struct Link {
    up: bool,
    /// bumped on every "break": streams/messages created under an older epoch are dead
    epoch: u64,
    params: LinkParams,
    seq: u64,
}

pub struct Endpoint {
    pub event_tx: mpsc::Sender<InboundEvent>,
    pub incarnation: u32,
    /// server-side timeout of the vote RPC handler (= node's election_timeout_min)
    pub vote_handler_timeout_ms: u64,
    pub generic_handler_timeout_ms: u64,
    pub snapshot_rpc_timeout_ms: u64,
}

struct Inner {
    seed: u64,
    nodes: HashMap<u32, Endpoint>,
    links: HashMap<(u32, u32), Link>,
    default_params: LinkParams,
}

pub struct Net {
    inner: Mutex<Inner>,
    changed: Notify,
    pub history: Arc<Mutex<History>>,
    clock_base: tokio::time::Instant,
}

fn mix(mut x: u64) -> u64 {
    x ^= x >> 33;
    x = x.wrapping_mul(0xff51afd7ed558ccd);
    x ^= x >> 33;
    x = x.wrapping_mul(0xc4ceb9fe1a85ec53);
    x ^= x >> 33;
    x
}

#[derive(Clone, Copy, Debug)]
struct Fate {
    delay_ms: u64,
    lost: bool,
    dup: bool,
    epoch: u64,
}

impl Net {
    pub fn new(seed: u64, history: Arc<Mutex<History>>, clock_base: tokio::time::Instant, default_params: LinkParams) -> Arc<Net> {
        Arc::new(Net {
            inner: Mutex::new(Inner {
                seed,
                nodes: HashMap::new(),
                links: HashMap::new(),
                default_params,
            }),
            changed: Notify::new(),
            history,
            clock_base,
        })
    }
    pub fn now_ms(&self) -> u64 {
        self.clock_base.elapsed().as_millis() as u64
    }
    pub fn register(&self, id: u32, ep: Endpoint) {
        self.inner.lock().unwrap().nodes.insert(id, ep);
        self.changed.notify_waiters();
    }
    pub fn unregister(&self, id: u32) {
        self.inner.lock().unwrap().nodes.remove(&id);
        self.changed.notify_waiters();
    }
    fn link_mut<'a>(g: &'a mut Inner, a: u32, b: u32) -> &'a mut Link {
        let dp = g.default_params.clone();
        g.links.entry((a, b)).or_insert_with(|| Link {
            up: true,
            epoch: 0,
            params: dp,
            seq: 0,
        })
    }
    /// stall (brk=false) or break (brk=true) both directions between a and b
    pub fn cut(&self, a: u32, b: u32, brk: bool) {
        let mut g = self.inner.lock().unwrap();
        for (x, y) in [(a, b), (b, a)] {
            let l = Self::link_mut(&mut g, x, y);
            l.up = false;
            if brk {
                l.epoch += 1;
            }
        }
        drop(g);
        self.changed.notify_waiters();
    }
    pub fn heal(&self, a: u32, b: u32) {
        let mut g = self.inner.lock().unwrap();
        for (x, y) in [(a, b), (b, a)] {
            Self::link_mut(&mut g, x, y).up = true;
        }
        drop(g);
        self.changed.notify_waiters();
    }
    /// break every stream touching `a` without taking the link down (connection reset)
    pub fn reset_streams(&self, a: u32, b: u32) {
        let mut g = self.inner.lock().unwrap();
        for (x, y) in [(a, b), (b, a)] {
            Self::link_mut(&mut g, x, y).epoch += 1;
        }
        drop(g);
        self.changed.notify_waiters();
    }
    pub fn set_params(&self, a: u32, b: u32, p: LinkParams) {
        let mut g = self.inner.lock().unwrap();
        Self::link_mut(&mut g, a, b).params = p;
    }
    pub fn set_default_params(&self, p: LinkParams) {
        let mut g = self.inner.lock().unwrap();
        g.default_params = p.clone();
        for l in g.links.values_mut() {
            l.params = p.clone();
        }
    }
    fn fate(&self, src: u32, dst: u32) -> Fate {
        let mut g = self.inner.lock().unwrap();
        let seed = g.seed;
        let l = Self::link_mut(&mut g, src, dst);
        l.seq += 1;
        let h = mix(seed ^ mix(((src as u64) << 40) ^ ((dst as u64) << 20) ^ l.seq));
        let span = l.params.max_delay_ms.saturating_sub(l.params.min_delay_ms) + 1;
        Fate {
            delay_ms: l.params.min_delay_ms + (h % span),
            lost: ((h >> 20) % 1000) < l.params.loss_pm as u64,
            dup: ((h >> 40) % 1000) < l.params.dup_pm as u64,
            epoch: l.epoch,
        }
    }
    fn link_state(&self, src: u32, dst: u32) -> (bool, u64) {
        let mut g = self.inner.lock().unwrap();
        let l = Self::link_mut(&mut g, src, dst);
        (l.up, l.epoch)
    }
    /// Waits until the link src->dst is up. Returns false if the link epoch changed (message lost).
    async fn wait_link(&self, src: u32, dst: u32, epoch: u64) -> bool {
        loop {
            let notified = self.changed.notified();
            let (up, ep) = self.link_state(src, dst);
            if ep != epoch {
                return false;
            }
            if up {
                return true;
            }
            notified.await;
        }
    }
    /// Resolves when the epoch of link src->dst differs from `epoch`.
    async fn epoch_changed(&self, src: u32, dst: u32, epoch: u64) {
        loop {
            let notified = self.changed.notified();
            let (_, ep) = self.link_state(src, dst);
            if ep != epoch {
                return;
            }
            notified.await;
        }
    }
    pub fn endpoint_tx(&self, dst: u32) -> Option<(mpsc::Sender<InboundEvent>, u64, u64, u64)> {
        let g = self.inner.lock().unwrap();
        g.nodes.get(&dst).map(|e| (e.event_tx.clone(), e.vote_handler_timeout_ms, e.generic_handler_timeout_ms, e.snapshot_rpc_timeout_ms))
    }
    fn rec(&self, ev: Ev) {
        let t = self.now_ms();
        self.history.lock().unwrap().push(t, ev);
    }

    /// One unary RPC attempt src -> dst. `make` builds the inbound event + the receiver of its answer.
    /// Never returns if the request or the response is lost (callers wrap it in a timeout).
    async fn unary<R, F>(self: &Arc<Self>, src: u32, dst: u32, handler_timeout_sel: u8, make: F) -> std::result::Result<R, Status>
    where
        R: Send + Clone + 'static,
        F: FnOnce(d_engine_core::MaybeCloneOneshotSender<std::result::Result<R, Status>>) -> InboundEvent,
    {
        let f1 = self.fate(src, dst);
        if f1.lost {
            std::future::pending::<()>().await;
        }
        tokio::time::sleep(Duration::from_millis(f1.delay_ms)).await;
        if !self.wait_link(src, dst, f1.epoch).await {
            std::future::pending::<()>().await;
        }
        let Some((tx, vote_to, gen_to, _snap_to)) = self.endpoint_tx(dst) else {
            return Err(Status::unavailable("connection refused"));
        };
        let (resp_tx, resp_rx) = MaybeCloneOneshot::new();
        if tx.send(make(resp_tx)).await.is_err() {
            return Err(Status::internal("Event channel closed"));
        }
        let to = if handler_timeout_sel == 0 { vote_to } else { gen_to };
        let result: std::result::Result<R, Status> = match tokio::time::timeout(Duration::from_millis(to), resp_rx).await {
            Ok(Ok(r)) => r,
            Ok(Err(_)) => Err(Status::deadline_exceeded("RPC channel closed")),
            Err(_) => Err(Status::deadline_exceeded("RPC timeout exceeded")),
        };
        let f2 = self.fate(dst, src);
        if f2.lost {
            std::future::pending::<()>().await;
        }
        tokio::time::sleep(Duration::from_millis(f2.delay_ms)).await;
        if !self.wait_link(dst, src, f2.epoch).await {
            std::future::pending::<()>().await;
        }
        result
    }
}

/// Mirrors `grpc_task_with_timeout_and_exponential_backoff`.
async fn with_backoff<R, Fut, F>(mut attempt: F, policy: BackoffPolicy) -> Result<R>
where
    F: FnMut() -> Fut,
    Fut: std::future::Future<Output = std::result::Result<R, Status>>,
{
    let mut retries = 0;
    let mut current_delay = Duration::from_millis(policy.base_delay_ms);
    let timeout_duration = Duration::from_millis(policy.timeout_ms);
    let max_delay = Duration::from_millis(policy.max_delay_ms);
    let mut last_error = NetworkError::TaskBackoffFailed("Task failed after max retries".to_string());
    while retries < policy.max_retries {
        match tokio::time::timeout(timeout_duration, attempt()).await {
            Ok(Ok(r)) => return Ok(r),
            Ok(Err(status)) => {
                last_error = match status.code() {
                    tonic::Code::Unavailable => NetworkError::ServiceUnavailable(format!("Service unavailable: {}", status.message())),
                    _ => NetworkError::TonicStatusError(Box::new(status)),
                };
            }
            Err(_) => last_error = NetworkError::RetryTimeoutError(timeout_duration),
        }
        if retries < policy.max_retries - 1 {
            tokio::time::sleep(current_delay).await;
            current_delay = (current_delay * 2).min(max_delay);
        }
        retries += 1;
    }
    Err(last_error.into())
}

pub struct SimTransport {
    pub my_id: u32,
    pub net: Arc<Net>,
}

#[async_trait]
impl Transport<SimT> for SimTransport {
    async fn send_cluster_update(
        &self,
        _req: ClusterConfChangeRequest,
        _retry: &RetryPolicies,
        _membership: Arc<d_engine_core::alias::MOF<SimT>>,
    ) -> Result<ClusterUpdateResult> {
        Err(NetworkError::EmptyPeerList {
            request_type: "send_cluster_update (unused by the current leader code)",
        }
        .into())
    }

    async fn send_append_requests(
        &self,
        _requests: Vec<(u32, AppendEntriesRequest)>,
        _retry: &RetryPolicies,
        _membership: Arc<d_engine_core::alias::MOF<SimT>>,
        _response_compress_enabled: bool,
    ) -> Result<AppendResult> {
        Err(NetworkError::EmptyPeerList {
            request_type: "send_append_requests (unused by the current leader code)",
        }
        .into())
    }

    async fn send_vote_requests(&self, req: VoteRequest, retry: &RetryPolicies, membership: Arc<d_engine_core::alias::MOF<SimT>>) -> Result<VoteResult> {
        let peers = membership.voters().await;
        if peers.is_empty() {
            return Err(NetworkError::EmptyPeerList {
                request_type: "send_vote_requests",
            }
            .into());
        }
        let mut tasks = FuturesUnordered::new();
        let mut peer_ids = HashSet::new();
        // deterministic order (membership is a HashMap inside d-engine)
        let mut peers = peers;
        peers.sort_by_key(|p| p.id);
        for peer in peers {
            let peer_id = peer.id;
            if peer_id == self.my_id || peer_ids.contains(&peer_id) {
                continue;
            }
            peer_ids.insert(peer_id);
            let net = self.net.clone();
            let my_id = self.my_id;
            let policy = retry.election;
            net.rec(Ev::VoteReqSent {
                from: my_id,
                to: peer_id,
                term: req.term,
            });
            let handle = tokio::spawn(async move {
                let net2 = net.clone();
                let r = with_backoff(
                    move || {
                        let net = net2.clone();
                        async move { net.unary::<VoteResponse, _>(my_id, peer_id, 0, move |tx| InboundEvent::ReceiveVoteRequest(req, tx)).await }
                    },
                    policy,
                )
                .await;
                if let Ok(resp) = &r {
                    net.rec(Ev::VoteRespDelivered {
                        voter: peer_id,
                        candidate: my_id,
                        req_term: req.term,
                        resp_term: resp.term,
                        granted: resp.vote_granted,
                    });
                }
                r
            });
            tasks.push(handle);
        }
        let mut responses = Vec::new();
        while let Some(result) = tasks.next().await {
            match result {
                Ok(r) => responses.push(r),
                Err(e) => responses.push(Err(Error::from(NetworkError::TaskFailed(e)))),
            }
        }
        Ok(VoteResult { peer_ids, responses })
    }

    async fn join_cluster(&self, leader_id: u32, request: JoinRequest, retry: BackoffPolicy, _membership: Arc<d_engine_core::alias::MOF<SimT>>) -> Result<JoinResponse> {
        let net = self.net.clone();
        let my_id = self.my_id;
        let net2 = net.clone();
        let r = with_backoff(
            move || {
                let net = net.clone();
                let request = request.clone();
                async move { net.unary::<JoinResponse, _>(my_id, leader_id, 1, move |tx| InboundEvent::JoinCluster(request, tx)).await }
            },
            retry,
        )
        .await;
        net2.rec(Ev::JoinResp {
            learner: my_id,
            leader: leader_id,
            success: r.as_ref().map(|x| x.success).unwrap_or(false),
            duplicate: false,
            member_before: false,
        });
        r
    }

    async fn discover_leader(
        &self,
        request: LeaderDiscoveryRequest,
        _rpc_enable_compression: bool,
        membership: Arc<d_engine_core::alias::MOF<SimT>>,
    ) -> Result<Vec<LeaderDiscoveryResponse>> {
        let mut peers = membership.members().await;
        peers.sort_by_key(|p| p.id);
        let mut out = vec![];
        for p in peers {
            if p.id == self.my_id {
                continue;
            }
            let req = request.clone();
            let fut = self
                .net
                .unary::<LeaderDiscoveryResponse, _>(self.my_id, p.id, 1, move |tx| InboundEvent::DiscoverLeader(req, tx));
            if let Ok(Ok(r)) = tokio::time::timeout(Duration::from_millis(200), fut).await {
                out.push(r);
            }
        }
        Ok(out)
    }

    async fn send_append_request(
        &self,
        _peer_id: u32,
        _request: AppendEntriesRequest,
        _retry: &RetryPolicies,
        _membership: Arc<d_engine_core::alias::MOF<SimT>>,
        _response_compress_enabled: bool,
    ) -> Result<AppendEntriesResponse> {
        Err(NetworkError::EmptyPeerList {
            request_type: "send_append_request (unused by the current leader code)",
        }
        .into())
    }

    async fn send_snapshot(
        &self,
        peer_id: u32,
        metadata: SnapshotMetadata,
        state_machine_handler: Arc<d_engine_core::alias::SMHOF<SimT>>,
        _membership: Arc<d_engine_core::alias::MOF<SimT>>,
        _config: SnapshotConfig,
    ) -> Result<()> {
        let net = self.net.clone();
        let my_id = self.my_id;
        let mut data_stream = state_machine_handler.load_snapshot_data(metadata.clone()).await?;
        let f1 = net.fate(my_id, peer_id);
        tokio::time::sleep(Duration::from_millis(f1.delay_ms)).await;
        let (up, _) = net.link_state(my_id, peer_id);
        if !up {
            return Err(NetworkError::ServiceUnavailable("link down".into()).into());
        }
        let Some((tx, _, _, snap_to)) = net.endpoint_tx(peer_id) else {
            return Err(NetworkError::ServiceUnavailable("connection refused".into()).into());
        };
        net.rec(Ev::SnapshotPush {
            from: my_id,
            to: peer_id,
            last_included: metadata.last_included.map(|l| l.index).unwrap_or(0),
        });
        let (chunk_tx, chunk_rx) = mpsc::channel::<SnapshotChunk>(32);
        let (resp_tx, resp_rx) = MaybeCloneOneshot::new();
        tx.send(InboundEvent::InstallSnapshotChunk(chunk_rx, resp_tx))
            .await
            .map_err(|_| NetworkError::ServiceUnavailable("event channel closed".into()))?;
        let epoch = f1.epoch;
        let net2 = net.clone();
        let feeder = tokio::spawn(async move {
            while let Some(item) = data_stream.next().await {
                let Ok(chunk) = item else { break };
                tokio::time::sleep(Duration::from_millis(1)).await;
                let (up, ep) = net2.link_state(my_id, peer_id);
                if !up || ep != epoch {
                    break; // transfer interrupted: sender side closes
                }
                if chunk_tx.send(chunk).await.is_err() {
                    break;
                }
            }
        });
        let r = tokio::time::timeout(Duration::from_millis(snap_to.min(600_000)), resp_rx).await;
        feeder.abort();
        match r {
            Ok(Ok(Ok(resp))) if resp.success => Ok(()),
            Ok(Ok(Ok(_))) => Err(NetworkError::TaskBackoffFailed("snapshot rejected by peer".into()).into()),
            Ok(Ok(Err(status))) => Err(NetworkError::TonicStatusError(Box::new(status)).into()),
            _ => Err(NetworkError::TaskBackoffFailed("snapshot push timed out".into()).into()),
        }
    }

    async fn request_snapshot_from_leader(
        &self,
        leader_id: u32,
        ack_rx: mpsc::Receiver<SnapshotAck>,
        _retry: &d_engine_core::InstallSnapshotBackoffPolicy,
        _membership: Arc<d_engine_core::alias::MOF<SimT>>,
    ) -> Result<mpsc::Receiver<SnapshotChunk>> {
        let net = self.net.clone();
        let Some((tx, _, _, _)) = net.endpoint_tx(leader_id) else {
            return Err(NetworkError::PeerConnectionNotFound(leader_id).into());
        };
        let (chunk_tx, mut chunk_rx) = mpsc::channel::<Arc<SnapshotChunk>>(32);
        let (startup_tx, startup_rx) = tokio::sync::oneshot::channel::<std::result::Result<(), Status>>();
        tx.send(InboundEvent::StreamSnapshot(ack_rx, chunk_tx, startup_tx))
            .await
            .map_err(|_| NetworkError::PeerConnectionNotFound(leader_id))?;
        match startup_rx.await {
            Ok(Ok(())) => {}
            Ok(Err(status)) => return Err(NetworkError::TonicStatusError(Box::new(status)).into()),
            Err(_) => return Err(NetworkError::PeerConnectionNotFound(leader_id).into()),
        }
        let (out_tx, out_rx) = mpsc::channel::<SnapshotChunk>(32);
        tokio::spawn(async move {
            while let Some(c) = chunk_rx.recv().await {
                if out_tx.send((*c).clone()).await.is_err() {
                    break;
                }
            }
        });
        Ok(out_rx)
    }

    async fn open_replication_stream(&self, peer_id: u32, _membership: Arc<d_engine_core::alias::MOF<SimT>>, _compress: bool) -> Result<ReplicationStream> {
        let net = self.net.clone();
        let my_id = self.my_id;
        // connection establishment: needs the link up and the peer listening
        let f0 = net.fate(my_id, peer_id);
        tokio::time::sleep(Duration::from_millis(f0.delay_ms)).await;
        let (up, epoch) = net.link_state(my_id, peer_id);
        if !up {
            // SYN black-holed: connect attempt times out
            tokio::time::sleep(Duration::from_millis(50)).await;
            return Err(NetworkError::ServiceUnavailable("connect timeout".into()).into());
        }
        let Some((event_tx, _, _, _)) = net.endpoint_tx(peer_id) else {
            return Err(NetworkError::ServiceUnavailable("connection refused".into()).into());
        };
        let (req_tx, mut req_rx) = mpsc::channel::<AppendEntriesRequest>(128);
        let (out_tx, out_rx) = mpsc::channel::<std::result::Result<AppendEntriesResponse, Status>>(128);

        // intake: stamp each request with its send time as soon as the leader pushes it
        let (stamped_tx, mut stamped_rx) = mpsc::unbounded_channel::<(AppendEntriesRequest, u64, bool)>();
        {
            let net = net.clone();
            tokio::spawn(async move {
                while let Some(req) = req_rx.recv().await {
                    let f = net.fate(my_id, peer_id);
                    net.rec(Ev::AeSent {
                        from: my_id,
                        to: peer_id,
                        term: req.term,
                        leader_id: req.leader_id,
                        prev_index: req.prev_log_index,
                        prev_term: req.prev_log_term,
                        first: req.entries.first().map(|e| e.index).unwrap_or(0),
                        n: req.entries.len() as u32,
                        commit: req.leader_commit_index,
                    });
                    let at = net.now_ms() + f.delay_ms;
                    if stamped_tx.send((req, at, f.dup)).is_err() {
                        break;
                    }
                }
            });
        }
        // server side ordered response queue (mirrors stream_append_entries)
        type RespRx = d_engine_core::MaybeCloneOneshotReceiver<std::result::Result<AppendEntriesResponse, Status>>;
        let (ordered_tx, mut ordered_rx) = mpsc::unbounded_channel::<RespRx>();
        // delivery: FIFO, waits for the link, pushes the inbound event
        {
            let net = net.clone();
            let out_tx = out_tx.clone();
            tokio::spawn(async move {
                let mut last_at = 0u64;
                let mut peer_gone = false;
                loop {
                    let item = tokio::select! {
                        biased;
                        _ = net.epoch_changed(my_id, peer_id, epoch) => None,
                        it = stamped_rx.recv() => it,
                    };
                    let Some((req, at, dup)) = item else { break };
                    let at = at.max(last_at);
                    last_at = at;
                    let now = net.now_ms();
                    if at > now {
                        tokio::time::sleep(Duration::from_millis(at - now)).await;
                    }
                    if !net.wait_link(my_id, peer_id, epoch).await {
                        break;
                    }
                    let copies = if dup { 2 } else { 1 };
                    let mut dead = false;
                    for _ in 0..copies {
                        let (resp_tx, resp_rx) = MaybeCloneOneshot::new();
                        net.rec(Ev::AeDelivered {
                            from: my_id,
                            to: peer_id,
                            term: req.term,
                            prev_index: req.prev_log_index,
                            n: req.entries.len() as u32,
                        });
                        if event_tx.send(InboundEvent::AppendEntries(req.clone(), vec![resp_tx])).await.is_err() {
                            dead = true;
                            break;
                        }
                        if ordered_tx.send(resp_rx).is_err() {
                            dead = true;
                            break;
                        }
                    }
                    if dead {
                        peer_gone = true;
                        break;
                    }
                }
                // stream ended on the request side: if it was a break (or the peer died), tell the leader
                let (_, ep) = net.link_state(my_id, peer_id);
                if ep != epoch || peer_gone {
                    let _ = out_tx.send(Err(Status::unavailable("stream reset"))).await;
                }
            });
        }
        // forwarder: responses in arrival order, back over the reverse link
        {
            let net = net.clone();
            tokio::spawn(async move {
                let mut last_at = 0u64;
                while let Some(resp_rx) = ordered_rx.recv().await {
                    let result = match resp_rx.await {
                        Ok(Ok(resp)) => Ok(resp),
                        Ok(Err(status)) => Err(status),
                        Err(_) => Err(Status::internal("Response channel closed")),
                    };
                    let f = net.fate(peer_id, my_id);
                    let at = (net.now_ms() + f.delay_ms).max(last_at);
                    last_at = at;
                    let now = net.now_ms();
                    if at > now {
                        tokio::time::sleep(Duration::from_millis(at - now)).await;
                    }
                    // the response travels on the same connection: dies with the forward epoch
                    let (_, ep) = net.link_state(my_id, peer_id);
                    if ep != epoch {
                        break;
                    }
                    if !net.wait_link(peer_id, my_id, f.epoch).await {
                        break;
                    }
                    if let Ok(r) = &result {
                        net.rec(Ev::AeRespDelivered {
                            from: peer_id,
                            to: my_id,
                            term: r.term,
                        });
                    }
                    if out_tx.send(result).await.is_err() {
                        break;
                    }
                }
            });
        }
        let receiver = tokio_stream::wrappers::ReceiverStream::new(out_rx).boxed();
        Ok(ReplicationStream { sender: req_tx, receiver })
    }
}
