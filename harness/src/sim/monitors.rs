//! Property monitors: pure functions over a RunResult.
use std::collections::{BTreeMap, BTreeSet};

use d_engine_proto::common::{Entry, EntryPayload};
use prost::Message;

use super::history::Ev;
use super::scenario::{ClientOp, OpKind, OpOutcome, RunResult};
use super::sm::{model_apply, Cmd, Kv};

pub type V = Option<(String, String)>;

/// Leaders(T): nodes observed acting as leader in term T — emitted an AppendEntries with (term=T, leader_id=self),
/// or published LeaderInfo{self,T} on their own leader-change channel.
pub fn leaders_by_term(res: &RunResult) -> BTreeMap<u64, BTreeSet<u32>> {
    let mut m: BTreeMap<u64, BTreeSet<u32>> = BTreeMap::new();
    for (_, ev) in &res.history {
        match ev {
            Ev::AeSent { from, term, leader_id, .. } if from == leader_id => {
                m.entry(*term).or_default().insert(*from);
            }
            Ev::LeaderNotify { node, leader: Some(l), term } if node == l => {
                m.entry(*term).or_default().insert(*node);
            }
            _ => {}
        }
    }
    m
}

/// C01: at most one leader per term.
pub fn check_c01(res: &RunResult) -> V {
    for (term, set) in leaders_by_term(res) {
        if set.len() > 1 {
            // classify: did a node vote twice / restart in between?
            let restarted: BTreeSet<u32> = res
                .history
                .iter()
                .filter_map(|(_, e)| match e {
                    Ev::NodeStart { node, incarnation, .. } if *incarnation > 1 => Some(*node),
                    _ => None,
                })
                .collect();
            let sig = if restarted.is_empty() { "C01:two-leaders-in-one-term" } else { "C01:two-leaders-in-one-term-after-restart" };
            return Some((sig.into(), format!("term {term} has leaders {set:?} (restarted nodes: {restarted:?})")));
        }
    }
    None
}

/// C31: leader notifications: per node terms never decrease; each term maps to <= 1 leader id over all nodes;
/// every reported (id, term) is a node that really acted as leader in that term.
pub fn check_c31(res: &RunResult) -> V {
    let leaders = leaders_by_term(res);
    let mut last_term: BTreeMap<(u32, u32), u64> = BTreeMap::new(); // (node, incarnation) -> last reported term
    let mut inc: BTreeMap<u32, u32> = BTreeMap::new();
    let mut by_term: BTreeMap<u64, BTreeSet<u32>> = BTreeMap::new();
    for (t, ev) in &res.history {
        match ev {
            Ev::NodeStart { node, incarnation, .. } => {
                inc.insert(*node, *incarnation);
            }
            Ev::LeaderNotify { node, leader, term } => {
                // a `None` notification ("no leader") carries no term in the API: nothing to judge
                if leader.is_none() {
                    continue;
                }
                let key = (*node, inc.get(node).copied().unwrap_or(1));
                if let Some(prev) = last_term.get(&key) {
                    if term < prev {
                        return Some((
                            "C31:reported-term-decreased".into(),
                            format!("t={t}ms node {node} reported term {term} after term {prev} (leader={leader:?})"),
                        ));
                    }
                }
                last_term.insert(key, *term);
                if let Some(l) = leader {
                    by_term.entry(*term).or_default().insert(*l);
                }
            }
            _ => {}
        }
    }
    for (term, ids) in &by_term {
        if ids.len() > 1 {
            return Some(("C31:two-leaders-reported-for-one-term".into(), format!("term {term} reported leaders {ids:?}")));
        }
        for id in ids {
            if !leaders.get(term).map(|s| s.contains(id)).unwrap_or(false) {
                return Some((
                    "C31:reported-leader-never-led-that-term".into(),
                    format!("node {id} was reported as leader of term {term} but never acted as leader in it (leaders: {:?})", leaders.get(term)),
                ));
            }
        }
    }
    None
}

fn decode_cmd(payload: &[u8]) -> Option<Cmd> {
    let p = EntryPayload::decode(payload).ok()?;
    let e = Entry {
        index: 1,
        term: 1,
        payload: Some(p),
    };
    let d = d_engine_core::decode_entries(vec![e]).ok()?;
    d.first().map(|a| Cmd::from(&a.command))
}

/// C06: per node applied indexes strictly +1 without gaps/repeats; same command at the same index on every node,
/// equal to the committed entry; each node's KV == model(committed[1..=last_applied]).
pub fn check_c06(res: &RunResult) -> V {
    // per (node, incarnation) sequence
    let mut seqs: BTreeMap<(u32, u32), Vec<&super::sm::Applied>> = BTreeMap::new();
    for a in &res.applies.applied {
        seqs.entry((a.node, a.incarnation)).or_default().push(a);
    }
    let installs: BTreeMap<(u32, u32), Vec<(u64, u64)>> = {
        let mut m: BTreeMap<(u32, u32), Vec<(u64, u64)>> = BTreeMap::new();
        for i in &res.applies.installs {
            m.entry((i.node, i.incarnation)).or_default().push((i.at_ms, i.last_included));
        }
        m
    };
    let mut cmd_at: BTreeMap<u64, (Cmd, u64, u32)> = BTreeMap::new();
    for ((node, inc), seq) in &seqs {
        let mut expected: Option<u64> = None;
        let inst = installs.get(&(*node, *inc)).cloned().unwrap_or_default();
        let mut inst_i = 0;
        for a in seq {
            // a snapshot install resets the expected next index
            // (several installs may follow each other without an apply in between; an install in the same
            // millisecond as this chunk precedes it iff the SM's own last_applied before the chunk covers it)
            while inst_i < inst.len() && (inst[inst_i].0 < a.at_ms || (inst[inst_i].0 == a.at_ms && a.prev_applied >= inst[inst_i].1)) {
                expected = Some(inst[inst_i].1 + 1);
                inst_i += 1;
            }
            let want = expected.unwrap_or(a.prev_applied + 1);
            if a.index != want {
                let sig = if a.index < want { "C06:index-applied-twice" } else { "C06:gap-in-applied-indexes" };
                return Some((
                    sig.into(),
                    format!("node {node} (incarnation {inc}) applied index {} at t={}ms but the next expected index was {want} (SM last_applied before chunk = {})", a.index, a.at_ms, a.prev_applied),
                ));
            }
            expected = Some(a.index + 1);
            match cmd_at.get(&a.index) {
                None => {
                    cmd_at.insert(a.index, (a.cmd.clone(), a.term, *node));
                }
                Some((c, t, n0)) => {
                    if *c != a.cmd || *t != a.term {
                        return Some((
                            "C06:nodes-applied-different-commands-at-one-index".into(),
                            format!("index {}: node {n0} applied {c:?} (term {t}), node {node} applied {:?} (term {})", a.index, a.cmd, a.term),
                        ));
                    }
                }
            }
            // must equal the committed entry
            if let Some((ct, cp)) = res.committed.entries.get(&a.index) {
                if let Some(cc) = decode_cmd(cp) {
                    if cc != a.cmd || *ct != a.term {
                        return Some((
                            "C06:applied-command-differs-from-committed-entry".into(),
                            format!("node {node} applied {:?} (term {}) at index {} but the committed entry is {cc:?} (term {ct})", a.cmd, a.term, a.index),
                        ));
                    }
                }
            }
        }
    }
    // state == model(applied prefix)
    for n in &res.final_nodes {
        let mut kv = Kv::new();
        let mut complete = true;
        for i in 1..=n.last_applied {
            match cmd_at.get(&i) {
                Some((c, _, _)) => {
                    model_apply(&mut kv, c);
                }
                None => match res.committed.entries.get(&i).and_then(|(_, p)| decode_cmd(p)) {
                    Some(c) => {
                        model_apply(&mut kv, &c);
                    }
                    None => {
                        complete = false;
                        break;
                    }
                },
            }
        }
        if complete && kv != n.kv {
            return Some((
                "C06:state-differs-from-model-of-applied-prefix".into(),
                format!("node {} last_applied={} state {:?} but model of the committed prefix gives {:?}", n.id, n.last_applied, show(&n.kv), show(&kv)),
            ));
        }
    }
    None
}

pub fn show(kv: &Kv) -> BTreeMap<String, String> {
    kv.iter().map(|(k, v)| (String::from_utf8_lossy(k).into_owned(), String::from_utf8_lossy(v).into_owned())).collect()
}

/// C02: over the whole multi-incarnation history of a node: (a) it never grants its vote to two different
/// candidates in one term (voting for itself when it campaigns counts), (b) the term it acts in never decreases,
/// in particular the term it restarts with is not below a term it had already acted in.
pub fn check_c02(res: &RunResult) -> V {
    // (a) votes per (voter, term)
    let mut votes: BTreeMap<(u32, u64), BTreeSet<u32>> = BTreeMap::new();
    let mut first_seen: BTreeMap<(u32, u64, u32), u64> = BTreeMap::new();
    for (t, ev) in &res.history {
        match ev {
            Ev::VoteReqSent { from, term, .. } => {
                votes.entry((*from, *term)).or_default().insert(*from);
                first_seen.entry((*from, *term, *from)).or_insert(*t);
            }
            Ev::VoteRespDelivered { voter, candidate, req_term, granted: true, .. } => {
                votes.entry((*voter, *req_term)).or_default().insert(*candidate);
                first_seen.entry((*voter, *req_term, *candidate)).or_insert(*t);
            }
            _ => {}
        }
    }
    let restarts: Vec<(u64, u32, u32, bool)> = {
        // (time, node, incarnation, previous stop was graceful)
        let mut last_stop: BTreeMap<u32, bool> = BTreeMap::new();
        let mut v = vec![];
        for (t, ev) in &res.history {
            match ev {
                Ev::NodeStop { node, graceful, .. } => {
                    last_stop.insert(*node, *graceful);
                }
                Ev::NodeStart { node, incarnation, .. } if *incarnation > 1 => {
                    v.push((*t, *node, *incarnation, last_stop.get(node).copied().unwrap_or(true)));
                }
                _ => {}
            }
        }
        v
    };
    for ((voter, term), cands) in &votes {
        if cands.len() > 1 {
            let times: Vec<(u32, u64)> = cands.iter().map(|c| (*c, first_seen[&(*voter, *term, *c)])).collect();
            let lo = times.iter().map(|x| x.1).min().unwrap();
            let hi = times.iter().map(|x| x.1).max().unwrap();
            let crash_between = restarts.iter().any(|(t, n, _, graceful)| n == voter && *t >= lo && *t <= hi && !graceful);
            let restart_between = restarts.iter().any(|(t, n, _, _)| n == voter && *t >= lo && *t <= hi);
            let sig = if crash_between {
                "C02:voted-twice-in-one-term-across-crash"
            } else if restart_between {
                "C02:voted-twice-in-one-term-across-graceful-restart"
            } else {
                "C02:voted-twice-in-one-term-without-restart"
            };
            return Some((sig.into(), format!("node {voter} voted for {cands:?} in term {term} (first seen at {times:?})")));
        }
    }
    // (b) term monotone across incarnations
    let mut acted: BTreeMap<u32, u64> = BTreeMap::new();
    let mut last_stop_graceful: BTreeMap<u32, bool> = BTreeMap::new();
    for (t, ev) in &res.history {
        let mut bump = |n: u32, term: u64| {
            let e = acted.entry(n).or_insert(0);
            if term > *e {
                *e = term;
            }
        };
        match ev {
            Ev::VoteReqSent { from, term, .. } => bump(*from, *term),
            Ev::VoteRespDelivered { voter, req_term, resp_term, granted, .. } => {
                bump(*voter, *resp_term);
                if *granted {
                    bump(*voter, *req_term);
                }
            }
            Ev::AeSent { from, term, .. } => bump(*from, *term),
            Ev::LeaderNotify { node, leader: Some(_), term } => bump(*node, *term),
            Ev::NodeStop { node, graceful, .. } => {
                last_stop_graceful.insert(*node, *graceful);
            }
            Ev::NodeStart { node, incarnation, term, .. } if *incarnation > 1 => {
                let before = acted.get(node).copied().unwrap_or(0);
                if *term < before {
                    let graceful = last_stop_graceful.get(node).copied().unwrap_or(true);
                    let sig = if graceful { "C02:term-decreased-across-graceful-restart" } else { "C02:term-decreased-across-crash" };
                    return Some((
                        sig.into(),
                        format!("t={t}ms node {node} restarted (incarnation {incarnation}) in term {term} although it had already acted in term {before}"),
                    ));
                }
            }
            _ => {}
        }
    }
    None
}

/// C12 (a): a lease read answered from local state by node n must not be served when another node had already
/// established itself as leader of a higher term before the read was even invoked (the lease window must end
/// before any other node can win an election).  `policy_filter` selects the reads that are lease reads.
pub fn check_c12_deposed(res: &RunResult, is_lease_read: &dyn Fn(&ClientOp) -> bool, id: &str) -> V {
    // leadership timeline: (time, node, term) when a node published itself as leader (noop committed)
    let mut est: Vec<(u64, u32, u64)> = vec![];
    for (t, ev) in &res.history {
        if let Ev::LeaderNotify { node, leader: Some(l), term } = ev {
            if node == l {
                est.push((*t, *node, *term));
            }
        }
    }
    for op in &res.ops {
        if !is_lease_read(op) {
            continue;
        }
        if !matches!(op.outcome, OpOutcome::ReadOk(_)) {
            continue;
        }
        let ret = op.return_ms.unwrap_or(u64::MAX);
        // the term under which the serving node believed to lead: its latest self-establishment before `ret`
        let my_term = est.iter().filter(|(t, n, _)| *n == op.node && *t <= ret).map(|x| x.2).max().unwrap_or(0);
        if let Some((t_other, other, term_other)) = est.iter().find(|(t, n, term)| *n != op.node && *term > my_term && *t < op.invoke_ms) {
            return Some((
                format!("{id}:read-served-by-deposed-leader"),
                format!(
                    "op {} read {:?} invoked at t={}ms was answered with data at t={ret}ms by node {} (leader of term {my_term}) although node {other} had established itself as leader of term {term_other} at t={t_other}ms",
                    op.id, op.kind, op.invoke_ms, op.node
                ),
            ));
        }
    }
    None
}

/// C07 (cluster monitor): whenever a non-leader reports commit index N, N never exceeds what some leader has
/// committed so far.
pub fn check_c07_cluster(res: &RunResult) -> V {
    let mut max_leader_commit = 0u64;
    for (t, ev) in &res.history {
        if let Ev::Commit { node, index, role, term } = ev {
            if *role == d_engine_proto::common::NodeRole::Leader as i32 {
                max_leader_commit = max_leader_commit.max(*index);
            } else if *index > max_leader_commit {
                return Some((
                    "C07:follower-commit-beyond-any-leader-commit".into(),
                    format!("t={t}ms node {node} (role {role}, term {term}) moved its commit index to {index} while no leader had committed beyond {max_leader_commit}"),
                ));
            }
        }
    }
    None
}

/// C09 (cluster monitor): a leader moves its commit index to N only when a majority of its current voters
/// (itself included) hold entry N, and entry N is from its current term.
pub fn check_c09_cluster(res: &RunResult) -> V {
    let mut prev_voters: BTreeMap<u32, Vec<(u64, Vec<u32>)>> = BTreeMap::new();
    for (t, ev) in &res.history {
        if let Ev::CommitQuorum { node, index, leader_term, entry_term, holders, voters, config_in_range } = ev {
            // the voter set the leader used may be the one sampled at its previous commit (a membership entry is
            // applied between the commit decision and this observation): accept a majority under either set
            let hist = prev_voters.entry(*node).or_default();
            if hist.last().map(|x| &x.1) != Some(voters) {
                hist.push((*t, voters.clone()));
                if hist.len() > 2 {
                    hist.remove(0);
                }
            }
            if *config_in_range {
                continue; // the voter set in force at that instant is ambiguous (old vs new configuration)
            }
            let majority = voters.len() / 2 + 1;
            // the previous set is only a valid excuse right after the change (leader refreshes its cached
            // cluster metadata on the MembershipApplied event, within the same loop iteration)
            let changed_recently = hist.last().map(|x| t.saturating_sub(x.0) <= 30).unwrap_or(false);
            let ok_under_prev = changed_recently && hist.iter().any(|(_, pv)| pv != voters && holders.iter().filter(|h| pv.contains(h)).count() >= pv.len() / 2 + 1);
            if holders.len() < majority && !ok_under_prev {
                // root-cause classifier: a voter that had been sent (and acknowledged) entry `index` was afterwards
                // handed a request with prev_log_index == 0, which makes the follower reset its whole log
                // (buffered_raft_log.rs filter_out_conflicts_and_append, "start from scratch" branch)
                let mut reset_after_ack = false;
                for v in voters.iter().filter(|v| !holders.contains(v)) {
                    let mut covered_at: Option<u64> = None;
                    for (t2, e2) in &res.history {
                        if t2 > t {
                            break;
                        }
                        if let Ev::AeDelivered { from, to, prev_index, n, .. } = e2 {
                            if from == node && to == v {
                                if prev_index + *n as u64 >= *index && *prev_index > 0 {
                                    covered_at = Some(*t2);
                                }
                                if *prev_index == 0 && *n >= 1 && covered_at.is_some() && (*n as u64) < *index {
                                    reset_after_ack = true;
                                }
                            }
                        }
                    }
                }
                if reset_after_ack {
                    return Some((
                        "C09:ack-counted-after-follower-log-reset-by-prev-zero-request".into(),
                        format!("t={t}ms leader {node} (term {leader_term}) committed index {index} while only {holders:?} of voters {voters:?} held that entry: a voter acknowledged it and was then sent a request with prev_log_index=0 that reset its log"),
                    ));
                }
                return Some((
                    "C09:commit-without-voter-majority".into(),
                    format!("t={t}ms leader {node} (term {leader_term}) committed index {index} while only {holders:?} of voters {voters:?} held that entry (majority = {majority})"),
                ));
            }
            if entry_term != leader_term {
                return Some((
                    "C09:commit-index-moved-to-older-term-entry".into(),
                    format!("t={t}ms leader {node} (term {leader_term}) moved its commit index to {index} whose entry is from term {entry_term}"),
                ));
            }
        }
    }
    None
}

/// C14: writes answered with a definite rejection never appear in any node's applied sequence.
pub fn check_c14(res: &RunResult) -> V {
    let mut applied_values: BTreeMap<Vec<u8>, (u32, u64)> = BTreeMap::new();
    for a in &res.applies.applied {
        match &a.cmd {
            Cmd::Put { v, .. } | Cmd::Cas { v, .. } => {
                applied_values.entry(v.clone()).or_insert((a.node, a.index));
            }
            _ => {}
        }
    }
    for op in &res.ops {
        if let OpOutcome::Rejected(why) = &op.outcome {
            let v = match &op.kind {
                OpKind::Put { v, .. } | OpKind::Cas { v, .. } => v,
                _ => continue,
            };
            if let Some((node, idx)) = applied_values.get(v) {
                let slug = if why.contains("Not leader") {
                    "C14:not-leader-rejection-but-applied"
                } else if why.contains("ResourceExhausted") {
                    "C14:backpressure-rejection-but-applied"
                } else {
                    "C14:rejected-write-applied"
                };
                return Some((
                    slug.into(),
                    format!("op {} on node {} was rejected ({why}) at t={:?}ms but node {node} applied it at index {idx}", op.id, op.node, op.return_ms),
                ));
            }
        }
    }
    None
}

/// C29: exactly one response per write; success only after the entry is committed+applied on the leader;
/// the CAS response equals the outcome applied at that entry; responses go to the right request.
pub fn check_c29(res: &RunResult) -> V {
    // locate each write's log index by its unique value in the apply log of the node that served it
    let mut by_value: BTreeMap<(u32, Vec<u8>), Vec<&super::sm::Applied>> = BTreeMap::new();
    for a in &res.applies.applied {
        match &a.cmd {
            Cmd::Put { v, .. } | Cmd::Cas { v, .. } => by_value.entry((a.node, v.clone())).or_default().push(a),
            _ => {}
        }
    }
    for op in &res.ops {
        let (v, is_cas) = match &op.kind {
            OpKind::Put { v, .. } => (v, false),
            OpKind::Cas { v, .. } => (v, true),
            _ => continue,
        };
        let ret = match op.return_ms {
            Some(r) => r,
            None => continue,
        };
        match &op.outcome {
            OpOutcome::WriteOk | OpOutcome::CasFailed => {
                let served: Vec<&&super::sm::Applied> = by_value
                    .get(&(op.node, v.clone()))
                    .map(|l| l.iter().filter(|a| a.incarnation == op.node_incarnation).collect())
                    .unwrap_or_default();
                let Some(a) = served.first() else {
                    return Some((
                        "C29:success-before-applied-on-leader".into(),
                        format!("op {} ({:?}) answered {:?} by node {} at t={ret}ms but that node never applied it", op.id, op.kind, op.outcome, op.node),
                    ));
                };
                if a.at_ms > ret {
                    return Some((
                        "C29:success-before-applied-on-leader".into(),
                        format!("op {} answered {:?} at t={ret}ms but node {} applied its entry (index {}) only at t={}ms", op.id, op.outcome, op.node, a.index, a.at_ms),
                    ));
                }
                let resp_ok = matches!(op.outcome, OpOutcome::WriteOk);
                if is_cas && resp_ok != a.ok {
                    return Some((
                        "C29:cas-response-differs-from-applied-outcome".into(),
                        format!("op {} CAS answered succeeded={resp_ok} but the applied outcome at index {} was {}", op.id, a.index, a.ok),
                    ));
                }
                if !is_cas && !resp_ok {
                    return Some(("C29:put-answered-as-failed-cas".into(), format!("op {} (put) answered with succeeded=false", op.id)));
                }
                // committed?
                if !res.committed.entries.contains_key(&a.index) && res.committed.max_index < a.index {
                    return Some((
                        "C29:success-before-commit".into(),
                        format!("op {} answered success but index {} was never observed committed", op.id, a.index),
                    ));
                }
            }
            _ => {}
        }
    }
    None
}

/// C30: every accepted request is answered (no dropped / forever-pending response) within its deadline
/// (general_raft_timeout + tick slack), measured in virtual time.
pub fn check_c30(res: &RunResult, slack_ms: u64) -> V {
    let crashed_at: BTreeMap<(u32, u32), u64> = res
        .history
        .iter()
        .filter_map(|(t, e)| match e {
            Ev::NodeStop { node, incarnation, .. } => Some(((*node, *incarnation), *t)),
            _ => None,
        })
        .collect();
    for op in &res.ops {
        if op.final_read {
            continue;
        }
        let stop = crashed_at.get(&(op.node, op.node_incarnation)).copied();
        let deadline = op.invoke_ms + res.general_timeout_ms + slack_ms;
        // requests cut short by the node's own stop/crash are not judged
        if let Some(s) = stop {
            if s <= deadline {
                continue;
            }
        }
        let what = match &op.kind {
            OpKind::Read { policy, .. } => format!("read(policy {policy:?})"),
            OpKind::Empty => "empty write".to_string(),
            _ => "write".to_string(),
        };
        match (&op.outcome, op.return_ms) {
            (OpOutcome::Pending, _) => {
                if res.end_ms > deadline {
                    return Some((
                        format!("C30:{}-never-answered", what.split('(').next().unwrap().replace(' ', "-")),
                        format!("op {} ({what}) accepted by node {} at t={}ms was still unanswered at t={}ms (deadline {}ms)", op.id, op.node, op.invoke_ms, res.end_ms, deadline),
                    ));
                }
            }
            (OpOutcome::Dropped, Some(r)) => {
                return Some((
                    format!("C30:{}-response-channel-dropped", what.split('(').next().unwrap().replace(' ', "-")),
                    format!("op {} ({what}) accepted by node {} at t={}ms: response sender dropped without an answer at t={r}ms", op.id, op.node, op.invoke_ms),
                ));
            }
            (_, Some(r)) => {
                if r > deadline {
                    return Some((
                        format!("C30:{}-answered-after-deadline", what.split('(').next().unwrap().replace(' ', "-")),
                        format!("op {} ({what}) accepted by node {} at t={}ms answered at t={r}ms, deadline was {deadline}ms", op.id, op.node, op.invoke_ms),
                    ));
                }
            }
            _ => {}
        }
    }
    None
}

// ------------------------------------------------------------------------------------------------
// Linearizability (per key, Wing–Gong search with memoisation)
// ------------------------------------------------------------------------------------------------

#[derive(Clone, Debug)]
struct LOp {
    id: u64,
    inv: u64,
    ret: u64, // u64::MAX = never returned / indeterminate
    kind: LKind,
    optional: bool,
}
#[derive(Clone, Debug)]
enum LKind {
    Put(Vec<u8>),
    Del,
    CasOk(Option<Vec<u8>>, Vec<u8>),
    CasFail(Option<Vec<u8>>),
    CasMaybe(Option<Vec<u8>>, Vec<u8>),
    Read(Option<Vec<u8>>),
}

fn step(state: &Option<Vec<u8>>, k: &LKind) -> Option<Option<Vec<u8>>> {
    match k {
        LKind::Put(v) => Some(Some(v.clone())),
        LKind::Del => Some(None),
        LKind::CasOk(e, v) => {
            if state == e {
                Some(Some(v.clone()))
            } else {
                None
            }
        }
        LKind::CasFail(e) => {
            if state != e {
                Some(state.clone())
            } else {
                None
            }
        }
        LKind::CasMaybe(e, v) => {
            if state == e {
                Some(Some(v.clone()))
            } else {
                Some(state.clone())
            }
        }
        LKind::Read(r) => {
            if state == r {
                Some(state.clone())
            } else {
                None
            }
        }
    }
}

pub enum Lin {
    Ok,
    Violation(String),
    Skipped(String),
}

/// `read_filter`: which successful reads take part (by policy code: None=default, Some(1)=linearizable, 2=lease, 3=eventual)
pub fn check_linearizable(res: &RunResult, read_filter: &dyn Fn(&ClientOp) -> bool, max_ops_per_key: usize) -> Lin {
    let mut per_key: BTreeMap<Vec<u8>, Vec<LOp>> = BTreeMap::new();
    for op in &res.ops {
        let (k, kind, optional): (Vec<u8>, LKind, bool) = match (&op.kind, &op.outcome) {
            (_, OpOutcome::Rejected(_)) => continue,
            (OpKind::Empty, _) => continue,
            (OpKind::Put { k, v, .. }, OpOutcome::WriteOk) => (k.clone(), LKind::Put(v.clone()), false),
            (OpKind::Put { k, v, .. }, _) => (k.clone(), LKind::Put(v.clone()), true),
            (OpKind::Del { k }, OpOutcome::WriteOk) => (k.clone(), LKind::Del, false),
            (OpKind::Del { k }, _) => (k.clone(), LKind::Del, true),
            (OpKind::Cas { k, exp, v }, OpOutcome::WriteOk) => (k.clone(), LKind::CasOk(exp.clone(), v.clone()), false),
            (OpKind::Cas { k, exp, .. }, OpOutcome::CasFailed) => (k.clone(), LKind::CasFail(exp.clone()), false),
            (OpKind::Cas { k, exp, v }, _) => (k.clone(), LKind::CasMaybe(exp.clone(), v.clone()), true),
            (OpKind::Read { k, .. }, OpOutcome::ReadOk(r)) => {
                if !read_filter(op) {
                    continue;
                }
                (k.clone(), LKind::Read(r.clone()), false)
            }
            (OpKind::Read { .. }, _) => continue,
        };
        let ret = if optional { u64::MAX } else { op.return_ms.unwrap_or(u64::MAX) };
        per_key.entry(k).or_default().push(LOp {
            id: op.id,
            inv: op.invoke_ms,
            ret,
            kind,
            optional,
        });
    }
    let mut skipped = None;
    for (k, ops) in per_key {
        if ops.len() > max_ops_per_key.min(60) {
            skipped = Some(format!("key {:?} has {} ops", String::from_utf8_lossy(&k), ops.len()));
            continue;
        }
        match lin_key(&ops) {
            Some(true) => {}
            Some(false) => {
                let desc: Vec<String> = ops.iter().map(|o| format!("#{}[{}..{}] {:?}{}", o.id, o.inv, if o.ret == u64::MAX { "inf".into() } else { o.ret.to_string() }, o.kind, if o.optional { "?" } else { "" })).collect();
                return Lin::Violation(format!("key {:?}: no linearization of {}", String::from_utf8_lossy(&k), desc.join(" ; ")));
            }
            None => skipped = Some("search budget exhausted".into()),
        }
    }
    match skipped {
        Some(s) => Lin::Skipped(s),
        None => Lin::Ok,
    }
}

fn lin_key(ops: &[LOp]) -> Option<bool> {
    use std::collections::HashSet;
    let n = ops.len();
    if n == 0 {
        return Some(true);
    }
    let full: u64 = if n == 64 { u64::MAX } else { (1u64 << n) - 1 };
    let required: u64 = ops.iter().enumerate().filter(|(_, o)| !o.optional).fold(0, |m, (i, _)| m | (1 << i));
    let mut seen: HashSet<(u64, Option<Vec<u8>>)> = HashSet::new();
    let mut stack: Vec<(u64, Option<Vec<u8>>)> = vec![(0, None)];
    let mut budget = 400_000u32;
    while let Some((done, state)) = stack.pop() {
        if done & required == required {
            return Some(true);
        }
        if budget == 0 {
            return None;
        }
        budget -= 1;
        // minimal return time among pending required ops: an op can be linearized next only if it was invoked
        // before every pending non-optional op returned
        let mut min_ret = u64::MAX;
        for (i, o) in ops.iter().enumerate() {
            if done & (1 << i) == 0 && !o.optional {
                min_ret = min_ret.min(o.ret);
            }
        }
        for (i, o) in ops.iter().enumerate() {
            if done & (1 << i) != 0 {
                continue;
            }
            if o.inv > min_ret {
                continue;
            }
            if let Some(ns) = step(&state, &o.kind) {
                let nd = done | (1 << i);
                if seen.insert((nd, ns.clone())) {
                    stack.push((nd, ns));
                }
            }
        }
        let _ = full;
    }
    Some(false)
}
