//! proptest strategies for scenarios. Each property supplies a `Bias` (event weights and ranges).
use proptest::prelude::*;

use super::scenario::{Event, Knobs, NetP, Scenario, Step};

#[derive(Clone, Debug)]
pub struct Bias {
    pub voters: Vec<u8>,
    pub steps: (usize, usize),
    pub dt_ms: (u16, u16),
    pub w_put: u32,
    pub w_del: u32,
    pub w_cas: u32,
    pub w_read: u32,
    pub w_burst: u32,
    pub w_empty: u32,
    pub w_partition: u32,
    pub w_isolate: u32,
    pub w_heal: u32,
    pub w_crash: u32,
    pub w_stop: u32,
    pub w_restart: u32,
    pub w_restart_cluster: u32,
    pub w_reset: u32,
    pub w_lag: u32,
    pub w_net: u32,
    pub w_wait: u32,
    /// probability (percent) that a client op targets the believed leader rather than a random node
    pub leader_pct: u32,
    pub read_policies: Vec<u8>,
    pub raw_crashes: bool,
    pub final_reads: bool,
    pub tail_ms: (u16, u16),
    pub small_caps: bool,
    pub short_noop_timeout: bool,
    pub snapshots: bool,
    pub tight_backpressure: bool,
    pub lossy: bool,
    pub probe_recovery: bool,
    /// learners that may join (0..=2) and the weight of the join event
    pub learners: u8,
    pub w_join: u32,
    /// generate the server read-policy configuration (default policy, allow_client_override)
    pub gen_read_config: bool,
    /// clients poll cluster metadata from every node in half of the scenarios
    pub poll_metadata: bool,
    /// weight of the slow-disk event (persist_entries takes virtual time)
    pub w_disk_lag: u32,
    /// allow power-loss crashes (only synced data survives); off for every cluster-level property
    pub power_loss: bool,
}

impl Default for Bias {
    fn default() -> Self {
        Bias {
            voters: vec![3, 3, 5],
            steps: (5, 40),
            dt_ms: (0, 400),
            w_put: 20,
            w_del: 3,
            w_cas: 6,
            w_read: 6,
            w_burst: 3,
            w_empty: 0,
            w_partition: 4,
            w_isolate: 4,
            w_heal: 5,
            w_crash: 3,
            w_stop: 2,
            w_restart: 5,
            w_restart_cluster: 0,
            w_reset: 2,
            w_lag: 1,
            w_net: 2,
            w_wait: 4,
            leader_pct: 80,
            read_policies: vec![0, 1],
            // real crashes everywhere: the hard-state defect (C02) is repaired, so nothing has to be excluded
            raw_crashes: true,
            final_reads: false,
            tail_ms: (1500, 3000),
            small_caps: false,
            short_noop_timeout: false,
            snapshots: false,
            tight_backpressure: false,
            lossy: true,
            probe_recovery: false,
            learners: 0,
            w_join: 0,
            gen_read_config: false,
            poll_metadata: false,
            w_disk_lag: 0,
            power_loss: false,
        }
    }
}

fn target(leader_pct: u32) -> BoxedStrategy<u16> {
    prop_oneof![
        leader_pct => Just(0u16),
        (100 - leader_pct.min(99)) => (0x8000u16..=0xFFFF),
    ]
    .boxed()
}

fn netp(lossy: bool) -> BoxedStrategy<NetP> {
    if lossy {
        (1u8..20, 0u8..60, prop_oneof![3 => Just(0u16), 1 => 1u16..300], prop_oneof![4 => Just(0u16), 1 => 1u16..200])
            .prop_map(|(min_delay_ms, span_delay_ms, loss_pm, dup_pm)| NetP {
                min_delay_ms,
                span_delay_ms,
                loss_pm,
                dup_pm,
            })
            .boxed()
    } else {
        (1u8..10, 0u8..20)
            .prop_map(|(min_delay_ms, span_delay_ms)| NetP {
                min_delay_ms,
                span_delay_ms,
                loss_pm: 0,
                dup_pm: 0,
            })
            .boxed()
    }
}

fn event(b: &Bias) -> BoxedStrategy<Event> {
    let lp = b.leader_pct;
    let pols = b.read_policies.clone();
    let mut v: Vec<(u32, BoxedStrategy<Event>)> = vec![];
    let mut add = |w: u32, s: BoxedStrategy<Event>| {
        if w > 0 {
            v.push((w, s));
        }
    };
    add(b.w_put, (target(lp), 0u8..3).prop_map(|(at, key)| Event::Put { at, key }).boxed());
    add(b.w_del, (target(lp), 0u8..3).prop_map(|(at, key)| Event::Del { at, key }).boxed());
    add(b.w_cas, (target(lp), 0u8..3, 0u8..4).prop_map(|(at, key, exp)| Event::Cas { at, key, exp }).boxed());
    add(
        b.w_read,
        (target(lp), 0u8..3, proptest::sample::select(pols)).prop_map(|(at, key, policy)| Event::Read { at, key, policy }).boxed(),
    );
    add(b.w_burst, (target(lp), 2u8..20, 0u8..3, any::<bool>()).prop_map(|(at, n, key, cas)| Event::Burst { at, n, key, cas }).boxed());
    add(b.w_empty, target(lp).prop_map(|at| Event::EmptyWrite { at }).boxed());
    add(b.w_partition, (1u8..31, any::<bool>()).prop_map(|(mask, brk)| Event::Partition { mask, brk }).boxed());
    add(b.w_isolate, any::<bool>().prop_map(|brk| Event::IsolateLeader { brk }).boxed());
    add(b.w_heal, Just(Event::Heal).boxed());
    // Crashes are process crashes (written-but-unsynced data survives): d-engine documents its buffered log as
    // "process crash safe, power loss unsafe" (buffered_raft_log.rs module docs), so cluster-level properties are
    // judged under that fault model. Power loss is explored where a property names it (C18, on the log itself).
    let power = b.power_loss;
    add(b.w_crash, (any::<u16>(), any::<bool>()).prop_map(move |(node, p)| Event::Crash { node, power_loss: p && power }).boxed());
    add(b.w_stop, any::<u16>().prop_map(|node| Event::Stop { node }).boxed());
    add(b.w_restart, any::<u16>().prop_map(|node| Event::Restart { node }).boxed());
    add(b.w_restart_cluster, Just(Event::RestartCluster).boxed());
    add(b.w_reset, (any::<u16>(), any::<u16>()).prop_map(|(a, b)| Event::ResetStreams { a, b }).boxed());
    add(b.w_lag, (any::<u16>(), prop_oneof![Just(0u16), 5u16..400]).prop_map(|(node, ms)| Event::ApplyLag { node, ms }).boxed());
    add(b.w_disk_lag, (any::<u16>(), prop_oneof![1 => Just(0u16), 3 => 20u16..600]).prop_map(|(node, ms)| Event::DiskLag { node, ms }).boxed());
    add(b.w_net, netp(b.lossy).prop_map(Event::Net).boxed());
    add(b.w_join, (0u8..2).prop_map(|idx| Event::JoinLearner { idx }).boxed());
    add(b.w_join / 3, (0u8..8).prop_map(|idx| Event::DuplicateJoin { idx }).boxed());
    add(b.w_wait, Just(Event::Wait).boxed());
    proptest::strategy::Union::new_weighted(v).boxed()
}

fn knobs(b: &Bias) -> BoxedStrategy<Knobs> {
    let small = b.small_caps;
    let short_noop = b.short_noop_timeout;
    let snaps = b.snapshots;
    let tight = b.tight_backpressure;
    let wide_span = b.probe_recovery;
    (
        80u16..300,
        20u16..300,
        10u16..60,
        1u8..8,
        1u8..16,
        any::<bool>(),
        100u16..600,
        (1u8..30, 1u8..4),
        1u16..5,
    )
        .prop_map(move |(emin, espan, hb, cap, batch, use_small, gen_to, (snap_thr, retained), mpw)| {
            // validate(): lease + rtt/2 < election_min  → keep the lease at most emin/2
            let lease = (emin / 2).max(1);
            Knobs {
                election_min_ms: emin,
                // liveness probes use d-engine's own proportion (default window 500..1000: span = min)
                election_span_ms: if wide_span { espan.max(emin) } else { espan },
                heartbeat_ms: hb.min(emin / 3).max(5),
                lease_ms: lease,
                cap: if small && use_small { cap } else { 100 },
                max_batch: if small && use_small { batch } else { 100 },
                noop_timeout_ms: if short_noop { emin * 2 } else { 1000 },
                general_timeout_ms: gen_to,
                snapshot_threshold: if snaps { snap_thr } else { 0 },
                retained,
                max_pending_writes: if tight { mpw } else { 10_000 },
            }
        })
        .boxed()
}

pub fn scenario(b: &Bias) -> BoxedStrategy<Scenario> {
    let b = b.clone();
    let ev = event(&b);
    let steps = proptest::collection::vec(((b.dt_ms.0..=b.dt_ms.1), ev).prop_map(|(dt_ms, ev)| Step { dt_ms, ev }), b.steps.0..=b.steps.1);
    (
        any::<u64>(),
        proptest::sample::select(b.voters.clone()),
        knobs(&b),
        netp(b.lossy),
        600u16..1500,
        steps,
        (b.tail_ms.0..=b.tail_ms.1),
        (0u8..3, any::<bool>()),
    )
        .prop_map(move |(seed, voters, knobs, net, warmup_ms, steps, tail_ms, (pol, allow))| Scenario {
            learners: b.learners,
            default_policy: if b.gen_read_config { Some(pol) } else { None },
            allow_override: if b.gen_read_config { Some(allow) } else { None },
            seed,
            voters,
            knobs,
            net,
            warmup_ms,
            steps,
            tail_ms,
            final_reads: b.final_reads,
            raw_crashes: b.raw_crashes,
            probe_recovery: b.probe_recovery,
            // half of the polled scenarios poll faster than any election timeout (80 ms is the smallest election_min)
            poll_ms: if b.poll_metadata { if seed % 2 == 0 { 10 + (seed % 40) as u16 } else { 0 } } else { 0 },
        })
        .boxed()
}
