//! Membership monitors (C03, C26, C27, C28): pure functions over a RunResult.
use std::collections::{BTreeMap, BTreeSet};

use d_engine_proto::common::entry_payload::Payload;
use d_engine_proto::common::membership_change::Change;
use d_engine_proto::common::{EntryPayload, NodeStatus};
use prost::Message;

use super::history::Ev;
use super::monitors::{leaders_by_term, V};
use super::scenario::RunResult;

/// voter / learner sets as the nodes themselves see them, per (time-ordered) sample
#[derive(Clone, Debug, Default)]
struct View {
    voters: BTreeSet<u32>,
    learners: BTreeSet<u32>,
}

fn disjoint_quorums_possible(v1: &BTreeSet<u32>, v2: &BTreeSet<u32>) -> bool {
    if v1.is_empty() || v2.is_empty() {
        return false;
    }
    let q1 = v1.len() / 2 + 1;
    let q2 = v2.len() / 2 + 1;
    let inter = v1.intersection(v2).count();
    let a1 = v1.len() - inter;
    let a2 = v2.len() - inter;
    q1.saturating_sub(a1) + q2.saturating_sub(a2) <= inter
}

/// C26: at every instant, for every pair of live nodes that are voters in their own view, any majority of one
/// view intersects any majority of the other.
pub fn check_c26(res: &RunResult) -> V {
    let mut cur: BTreeMap<u32, View> = BTreeMap::new();
    for (t, ev) in &res.history {
        match ev {
            Ev::NodeStop { node, .. } => {
                cur.remove(node);
            }
            Ev::Membership { node, voters, learners, .. } => {
                cur.insert(
                    *node,
                    View {
                        voters: voters.iter().copied().collect(),
                        learners: learners.iter().copied().collect(),
                    },
                );
                let ids: Vec<u32> = cur.keys().copied().collect();
                for (i, a) in ids.iter().enumerate() {
                    for b in ids.iter().skip(i + 1) {
                        let va = &cur[a].voters;
                        let vb = &cur[b].voters;
                        if !va.contains(a) || !vb.contains(b) {
                            continue; // a learner's own view is never used for elections or commits
                        }
                        if va != vb && disjoint_quorums_possible(va, vb) {
                            let grew = va.len().abs_diff(vb.len());
                            let sig = if grew >= 2 { "C26:two-voters-added-in-one-step-allows-disjoint-quorums" } else { "C26:disjoint-quorums-possible" };
                            return Some((
                                sig.into(),
                                format!("t={t}ms node {a} uses voters {va:?} while node {b} uses voters {vb:?}: a majority of one can be disjoint from a majority of the other"),
                            ));
                        }
                    }
                }
            }
            _ => {}
        }
    }
    None
}

/// C03: a node leads a term without other nodes' votes only if its membership has no other voter.
pub fn check_c03(res: &RunResult) -> V {
    // voter view per node over time
    let mut views: BTreeMap<u32, Vec<(u64, BTreeSet<u32>)>> = BTreeMap::new();
    for (t, ev) in &res.history {
        if let Ev::Membership { node, voters, .. } = ev {
            views.entry(*node).or_default().push((*t, voters.iter().copied().collect()));
        }
    }
    // first evidence of leadership per (term, node)
    let mut first: BTreeMap<(u64, u32), u64> = BTreeMap::new();
    for (t, ev) in &res.history {
        match ev {
            Ev::AeSent { from, term, leader_id, .. } if from == leader_id => {
                first.entry((*term, *from)).or_insert(*t);
            }
            Ev::LeaderNotify { node, leader: Some(l), term } if node == l => {
                first.entry((*term, *node)).or_insert(*t);
            }
            _ => {}
        }
    }
    for (term, nodes) in leaders_by_term(res) {
        for n in nodes {
            let t_lead = first.get(&(term, n)).copied().unwrap_or(u64::MAX);
            let view = views
                .get(&n)
                .and_then(|v| v.iter().filter(|(t, _)| *t <= t_lead).last().or(v.first()))
                .map(|(_, s)| s.clone())
                .unwrap_or_default();
            if view.len() <= 1 {
                continue;
            }
            let mut granted: BTreeSet<u32> = BTreeSet::new();
            let mut asked = false;
            for (t, ev) in &res.history {
                if *t > t_lead {
                    break;
                }
                match ev {
                    Ev::VoteReqSent { from, term: tt, .. } if *from == n && *tt == term => asked = true,
                    Ev::VoteRespDelivered { voter, candidate, req_term, granted: true, .. } if *candidate == n && *req_term == term => {
                        granted.insert(*voter);
                    }
                    _ => {}
                }
            }
            let needed = view.len() / 2; // other voters needed besides itself
            if granted.len() < needed {
                let sig = if !asked { "C03:leader-without-asking-for-votes-in-multi-voter-membership" } else { "C03:leader-without-majority-of-granted-votes" };
                return Some((
                    sig.into(),
                    format!("node {n} acted as leader of term {term} from t={t_lead}ms with voters {view:?} but only {granted:?} had granted it a vote (needed {needed} besides itself, vote requests sent: {asked})"),
                ));
            }
        }
    }
    None
}

fn decode_change(payload: &[u8]) -> Option<Change> {
    let p = EntryPayload::decode(payload).ok()?;
    match p.payload? {
        Payload::Config(mc) => mc.change,
        _ => None,
    }
}

/// Node ids a BatchPromote entry turns into voters (None for any other payload).
pub fn promoted_ids(payload: &[u8]) -> Option<Vec<u32>> {
    match decode_change(payload)? {
        Change::BatchPromote(b) => Some(b.node_ids),
        _ => None,
    }
}

/// Applies a membership change to a (id -> is_voter) model the way the protocol defines it.
fn model_apply(m: &mut BTreeMap<u32, bool>, c: &Change) {
    match c {
        Change::AddNode(a) => {
            m.entry(a.node_id).or_insert(false);
        }
        Change::RemoveNode(r) => {
            m.remove(&r.node_id);
        }
        Change::Promote(p) => {
            if let Some(v) = m.get_mut(&p.node_id) {
                *v = true;
            }
        }
        Change::BatchPromote(bp) => {
            let voter = bp.new_status == NodeStatus::Active as i32;
            for id in &bp.node_ids {
                if let Some(v) = m.get_mut(id) {
                    *v = voter;
                }
            }
        }
        Change::BatchRemove(br) => {
            for id in &br.node_ids {
                m.remove(id);
            }
        }
    }
}

/// C28: after a restart a node's view equals initial configuration + every committed membership change it had applied.
pub fn check_c28(res: &RunResult, initial_voters: u32) -> V {
    // committed config entries in index order
    let changes: Vec<(u64, Change)> = res.committed.entries.iter().filter_map(|(i, (_, p))| decode_change(p).map(|c| (*i, c))).collect();
    let mut seen_restart: BTreeSet<(u32, u32)> = BTreeSet::new();
    for (_, ev) in &res.history {
        if let Ev::NodeStart { node, incarnation, .. } = ev {
            if *incarnation > 1 {
                seen_restart.insert((*node, *incarnation));
            }
        }
    }
    let mut judged: BTreeSet<(u32, u32)> = BTreeSet::new();
    for (t, ev) in &res.history {
        if let Ev::Membership { node, incarnation, voters, learners, last_applied } = ev {
            // the first sample of a restarted incarnation
            if !seen_restart.contains(&(*node, *incarnation)) || !judged.insert((*node, *incarnation)) {
                continue;
            }
            // expected: initial config of this node + applied changes
            let mut m: BTreeMap<u32, bool> = (1..=initial_voters).map(|i| (i, true)).collect();
            if *node > initial_voters {
                m.insert(*node, false);
            }
            let mut applied_changes = 0;
            for (i, c) in &changes {
                if i <= last_applied {
                    model_apply(&mut m, c);
                    applied_changes += 1;
                }
            }
            if applied_changes == 0 {
                continue;
            }
            let exp_v: Vec<u32> = m.iter().filter(|(_, v)| **v).map(|(k, _)| *k).collect();
            let exp_l: Vec<u32> = m.iter().filter(|(_, v)| !**v).map(|(k, _)| *k).collect();
            if &exp_v != voters || &exp_l != learners {
                return Some((
                    "C28:membership-rebuilt-from-static-initial-config-after-restart".into(),
                    format!(
                        "t={t}ms node {node} (incarnation {incarnation}, last_applied={last_applied}) sees voters {voters:?} learners {learners:?}, but its initial configuration plus the {applied_changes} membership change(s) it had applied gives voters {exp_v:?} learners {exp_l:?}"
                    ),
                ));
            }
        }
    }
    None
}

/// C27: learners never vote, never campaign; join answered successfully only after the AddNode entry committed;
/// joining an existing member is rejected.
pub fn check_c27(res: &RunResult) -> V {
    // own-status timeline: is `node` a learner in its own view?
    let mut self_learner: BTreeMap<u32, bool> = BTreeMap::new();
    // Membership views are sampled at scenario steps, not at every instant: a node counts as a learner at time
    // t only if it is one in the last sample before t AND in the next sample after t (a promotion applied
    // between two samples must not be read as "a learner voted"; samples are recorded on change only, so a
    // missing later sample means the view stayed as it was).
    let samples: Vec<(u64, u32, bool)> = res
        .history
        .iter()
        .filter_map(|(t, e)| if let Ev::Membership { node, learners, .. } = e { Some((*t, *node, learners.contains(node))) } else { None })
        .collect();
    let still_learner_after = |node: u32, t: u64| -> bool { samples.iter().find(|(ts, n, _)| *n == node && *ts > t).map(|(_, _, l)| *l).unwrap_or(true) };
    let mut leader_view_members: BTreeMap<u32, BTreeSet<u32>> = BTreeMap::new();
    // commit times of AddNode(id)
    let mut addnode_commit_time: BTreeMap<u32, u64> = BTreeMap::new();
    for (i, (_, p)) in &res.committed.entries {
        if let Some(Change::AddNode(a)) = decode_change(p) {
            if let Some(t) = res.committed.commit_time.get(i) {
                addnode_commit_time.entry(a.node_id).or_insert(*t);
            }
        }
    }
    for (t, ev) in &res.history {
        match ev {
            Ev::Membership { node, voters, learners, .. } => {
                self_learner.insert(*node, learners.contains(node));
                let mut all: BTreeSet<u32> = voters.iter().copied().collect();
                all.extend(learners.iter().copied());
                leader_view_members.insert(*node, all);
            }
            Ev::NodeStop { node, .. } => {
                self_learner.remove(node);
            }
            Ev::VoteRespDelivered { voter, candidate, req_term, granted: true, .. } => {
                if self_learner.get(voter).copied().unwrap_or(false) && still_learner_after(*voter, *t) {
                    return Some((
                        "C27:learner-granted-a-vote".into(),
                        format!("t={t}ms node {voter}, a learner in its own membership view, granted its vote to {candidate} in term {req_term}"),
                    ));
                }
            }
            Ev::PromoteCommitted { leader, index, promoted } => {
                // "becomes a voter only ... after catching up": when its promotion commits, the node's log must be
                // close to the promotion entry. The leader checks `commit - match <= learner_catchup_threshold` (1 in
                // the simulated configuration) before it proposes; entries appended between that check and the commit
                // of the promotion are allowed for with a generous slack.
                const SLACK: u64 = 40;
                for (pid, last) in promoted {
                    if last + SLACK < *index {
                        return Some((
                            "C27:learner-promoted-before-catching-up".into(),
                            format!("t={t}ms leader {leader} committed the promotion of node {pid} at index {index} while that node's log ends at {last}"),
                        ));
                    }
                }
            }
            Ev::VoteReqSent { from, term, .. } => {
                if self_learner.get(from).copied().unwrap_or(false) && still_learner_after(*from, *t) {
                    return Some(("C27:learner-started-an-election".into(), format!("t={t}ms learner {from} sent vote requests for term {term}")));
                }
            }
            Ev::JoinResp { learner, leader, success, duplicate, member_before } => {
                if *success && *duplicate && *member_before {
                    return Some((
                        "C27:join-of-existing-member-accepted".into(),
                        format!("t={t}ms leader {leader} answered success to a join request for node {learner}, which already was a member"),
                    ));
                }
                if *success && !*duplicate {
                    match addnode_commit_time.get(learner) {
                        Some(ct) if *ct <= *t => {}
                        other => {
                            return Some((
                                "C27:join-answered-before-addnode-committed".into(),
                                format!("t={t}ms leader {leader} answered success to the join of node {learner} but its AddNode entry was committed at {other:?}"),
                            ));
                        }
                    }
                }
            }
            _ => {}
        }
    }
    None
}
