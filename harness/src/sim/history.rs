//! Recorded history of a simulated run. Monitors are pure functions over it.
use serde::Serialize;

#[derive(Clone, Debug, Serialize)]
pub enum Ev {
    VoteReqSent { from: u32, to: u32, term: u64 },
    VoteRespDelivered { voter: u32, candidate: u32, req_term: u64, resp_term: u64, granted: bool },
    AeSent { from: u32, to: u32, term: u64, leader_id: u32, prev_index: u64, prev_term: u64, first: u64, n: u32, commit: u64 },
    AeDelivered { from: u32, to: u32, term: u64, prev_index: u64, n: u32 },
    AeRespDelivered { from: u32, to: u32, term: u64 },
    SnapshotPush { from: u32, to: u32, last_included: u64 },
    /// leader-change watch value observed on `node`
    LeaderNotify { node: u32, leader: Option<u32>, term: u64 },
    /// commit notification (NewCommitData) emitted by `node`
    Commit { node: u32, index: u64, role: i32, term: u64 },
    NodeStart { node: u32, incarnation: u32, term: u64, voted_for: Option<(u32, u64)>, last_applied: u64, log_last: u64 },
    NodeStop { node: u32, incarnation: u32, graceful: bool },
    Fault { what: String },
    ClientInvoke { op: u64, node: u32, what: String },
    ClientReturn { op: u64, outcome: String },
    Note { what: String },
}

#[derive(Default, Debug)]
pub struct History {
    pub events: Vec<(u64, Ev)>,
}
impl History {
    pub fn push(&mut self, t: u64, ev: Ev) {
        self.events.push((t, ev));
    }
}
