//! Recorded history of a simulated run. Monitors are pure functions over it.
use serde::Serialize;

#[derive(Clone, Debug, Serialize)]
pub enum Ev {
    VoteReqSent { from: u32, to: u32, term: u64 },
    VoteRespDelivered { voter: u32, candidate: u32, req_term: u64, resp_term: u64, granted: bool },
    AeSent { from: u32, to: u32, term: u64, leader_id: u32, prev_index: u64, prev_term: u64, first: u64, n: u32, commit: u64 },
    AeDelivered { from: u32, to: u32, term: u64, prev_index: u64, n: u32 },
    AeRespDelivered { from: u32, to: u32, term: u64 },
    SnapshotPush { from: u32, to: u32, last_included: u64 },
    /// leader-change watch value observed on `node`
    LeaderNotify { node: u32, leader: Option<u32>, term: u64 },
    /// commit notification (NewCommitData) emitted by `node`
    Commit { node: u32, index: u64, role: i32, term: u64 },
    /// at the moment leader `node` moved its commit index to `index`: which of its voters held that entry
    CommitQuorum { node: u32, index: u64, leader_term: u64, entry_term: u64, holders: Vec<u32>, voters: Vec<u32>, config_in_range: bool },
    /// a BatchPromote entry at `index` was committed by leader `leader`: last log index of every promoted node at that instant
    PromoteCommitted { leader: u32, index: u64, promoted: Vec<(u32, u64)> },
    NodeStart { node: u32, incarnation: u32, term: u64, voted_for: Option<(u32, u64)>, last_applied: u64, log_last: u64 },
    NodeStop { node: u32, incarnation: u32, graceful: bool },
    Fault { what: String },
    ClientInvoke { op: u64, node: u32, what: String },
    ClientReturn { op: u64, outcome: String },
    Note { what: String },
    /// a JoinCluster request was answered (duplicate = scripted re-join of an id; member_before = the leader
    /// already listed that id when the request was sent)
    JoinResp { learner: u32, leader: u32, success: bool, duplicate: bool, member_before: bool },
    /// membership view of `node` changed (sampled at checkpoints): voters = members with status Active
    Membership { node: u32, incarnation: u32, voters: Vec<u32>, learners: Vec<u32>, last_applied: u64 },
}

#[derive(Default, Debug)]
pub struct History {
    pub events: Vec<(u64, Ev)>,
}
impl History {
    pub fn push(&mut self, t: u64, ev: Ev) {
        self.events.push((t, ev));
    }
}
