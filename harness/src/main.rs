mod checks;
mod runner;
mod sim;
mod simtest;
mod tracelog;

use runner::{run_check, RunArgs, Tier};
use std::path::PathBuf;

fn usage() -> ! {
    eprintln!("usage: dverif <Cxx> [--tier quick|thorough] [--seed N] [--cases N] [--replay file] [--strict]");
    std::process::exit(2)
}

fn main() {
    let args: Vec<String> = std::env::args().collect();
    if std::env::var("VERIF_KEEP_STDOUT").is_err() {
        runner::silence_stdout();
    }
    if args.len() < 2 {
        usage();
    }
    tracelog::install_from_env();
    let id = args[1].clone();
    if id == "simscenario" {
        std::process::exit(simtest::run_file(&args[2], args.iter().any(|a| a == "--history")));
    }
    if id == "simtest" {
        std::process::exit(simtest::run());
    }
    if id == "__child" {
        // child-process mode for crash-injection checks: dverif __child <module> <spec-file>
        let code = checks::child_dispatch(&args[2], &args[3]);
        std::process::exit(code);
    }
    let mut tier = match std::env::var("VERIF_TIER").as_deref() {
        Ok("thorough") => Tier::Thorough,
        _ => Tier::Quick,
    };
    let mut seed: u64 = std::env::var("VERIF_SEED").ok().and_then(|s| s.parse().ok()).unwrap_or(1);
    let mut replay = None;
    let mut cases_override = None;
    let mut strict = false;
    let mut i = 2;
    while i < args.len() {
        match args[i].as_str() {
            "--tier" => {
                i += 1;
                tier = match args.get(i).map(|s| s.as_str()) {
                    Some("quick") => Tier::Quick,
                    Some("thorough") => Tier::Thorough,
                    _ => usage(),
                };
            }
            "--seed" => {
                i += 1;
                seed = args.get(i).and_then(|s| s.parse().ok()).unwrap_or_else(|| usage());
            }
            "--cases" => {
                i += 1;
                cases_override = args.get(i).and_then(|s| s.parse().ok());
            }
            "--replay" => {
                i += 1;
                replay = args.get(i).map(PathBuf::from);
            }
            "--strict" => strict = true,
            _ => usage(),
        }
        i += 1;
    }
    let ra = RunArgs { tier, seed, replay, cases_override, strict };
    // quiet the code under test: it println!s role transitions; keep stdout for verdict lines only
    let code = dispatch(&id, ra);
    let _ = std::fs::remove_dir_all(runner::verif_root().join("work").join(format!("{}", std::process::id())));
    std::process::exit(code);
}

fn dispatch(id: &str, ra: RunArgs) -> i32 {
    match id {
        "C34" => run_check(checks::c34::C34("C34"), ra),
        // configuration clause of C12 (lease window vs election timeout), auxiliary engine of ./check C12
        "C12cfg" => {
            unsafe { std::env::set_var("VERIF_EVIDENCE_SUFFIX", ".config") };
            run_check(checks::c34::C34("C12"), ra)
        }
        "C07" => run_check(checks::c07::C07, ra),
        "C08" => run_check(checks::c08::C08, ra),
        "C19" => run_check(checks::c19::C19, ra),
        "C18" => run_check(checks::c18::C18, ra),
        "C20" => run_check(checks::c20::C20, ra),
        "C21" => run_check(checks::c21::C21, ra),
        "C24" => run_check(checks::c24::C24, ra),
        "C22" => run_check(checks::c22::C22, ra),
        "C15" => run_check(checks::c15::C15, ra),
        "C23" => run_check(checks::c23::C23, ra),
        "C25" => run_check(checks::c25::C25, ra),
        "C35" => run_check(checks::c35::C35, ra),
        "C37" => run_check(checks::c37::C37, ra),
        "C36" => run_check(checks::c36::C36, ra),
        "C13" => run_check(checks::c13::C13, ra),
        // graceful close of one node's log, auxiliary engine of ./check C10
        "C10close" => {
            unsafe { std::env::set_var("VERIF_EVIDENCE_SUFFIX", ".close") };
            run_check(checks::c10close::C10Close, ra)
        }
        "C33" => run_check(checks::simchecks::c33(), ra),
        "C16" => run_check(checks::c16::C16("C16"), ra),
        // engine-specific half of C33 (real File / RocksDB state machines across a restart), auxiliary engine of ./check C33
        "C33file" => {
            unsafe { std::env::set_var("VERIF_EVIDENCE_SUFFIX", ".engines") };
            run_check(checks::c16::C16("C33"), ra)
        }
        "C17" => run_check(checks::c17::C17, ra),
        "C01" => run_check(checks::simchecks::c01(), ra),
        "C04" => run_check(checks::simchecks::c04(), ra),
        "C05" => run_check(checks::simchecks::c05(), ra),
        "C06" => run_check(checks::simchecks::c06(), ra),
        "C09" => run_check(checks::simchecks::c09(), ra),
        "C02" => run_check(checks::simchecks::c02(), ra),
        "C03" => run_check(checks::simchecks::c03(), ra),
        "C26" => run_check(checks::simchecks::c26(), ra),
        "C27" => run_check(checks::simchecks::c27(), ra),
        "C28" => run_check(checks::simchecks::c28(), ra),
        "C07sim" => {
            unsafe { std::env::set_var("VERIF_EVIDENCE_SUFFIX", ".cluster") };
            run_check(checks::simchecks::c07_cluster(), ra)
        }
        "C12" => run_check(checks::simchecks::c12(), ra),
        "C32" => run_check(checks::simchecks::c32(), ra),
        "C10" => run_check(checks::simchecks::c10(), ra),
        "C11" => run_check(checks::simchecks::c11(), ra),
        "C14" => run_check(checks::simchecks::c14(), ra),
        "C29" => run_check(checks::simchecks::c29(), ra),
        "C30" => run_check(checks::simchecks::c30(), ra),
        "C31" => run_check(checks::simchecks::c31(), ra),
        _ => {
            eprintln!("unknown property id {id}");
            2
        }
    }
}
