#!/usr/bin/env python3
"""Generates /verif/MANIFEST.json from the table below (single source of truth for the interface)."""
import json, subprocess, os

ROOT = os.path.dirname(os.path.dirname(os.path.abspath(__file__)))
props = [json.loads(l) for l in open(os.path.join(ROOT, "properties.jsonl"))]
ids = [p["id"] for p in props]

# id -> dict(engine, level, text, note, technique, design_ref)
CHECKS = {}
def add(id, engine, level, text, note, technique):
    CHECKS[id] = dict(engine=engine, level=level, text=text, note=note, technique=technique)

add("C34", "component", "exploration",
    "Generated numeric configurations (boundary pools incl. overflow range, constructive placement at -2..+2 around every comparison) are fed to RaftConfig::validate / RaftNodeConfig::validate; every accepted one is re-judged in u128 arithmetic against the property's inequalities. Exploration is the right level: the domain is 9 u64 fields and the oracle is exact, so hundreds of thousands of boundary-focused cases per run decide realistic comparison/overflow mistakes.",
    "Trusts that validate() is the entry point users go through; snapshots_dir is a writable scratch dir so directory validation never masks numeric checks.",
    "property-based testing (proptest), exact arithmetic oracle over generated configurations")

NOT_YET = "check not built yet in this session; will be decided by property-based testing per DESIGN.md §5"

def hooks_commits():
    try:
        out = subprocess.check_output(["git", "-C", "/repo", "log", "--format=%H %s"], text=True)
        return [l.split()[0] for l in out.splitlines() if "verif hooks:" in l]
    except Exception:
        return []

manifest = {
    "version": 1,
    "setup_cmd": "cd /verif/harness && CARGO_NET_OFFLINE=true cargo build --offline",
    "hooks": {
        "guard": "cargo feature `__verif` on d-engine-core and d-engine-server (off by default)",
        "enable": "the harness crate /verif/harness depends on /repo's crates by path with features [\"__verif\"]; every ./check invocation runs `cargo build --offline` first, rebuilding d-engine from /repo's working tree",
        "baseline_off_cmd": "cd /repo && cargo nextest run --workspace --no-fail-fast --test-threads 8 --offline",
        "source_commits": hooks_commits(),
        "add_only": True,
    },
    "engines": [
        {"name": "dverif", "path": "/verif/harness", "serves_properties": sorted(CHECKS.keys()),
         "kind_free_text": "one Rust binary; proptest TestRunner driven from main (seeded by VERIF_SEED, 16 worker threads, shrinking, JSON replay files), per-property modules with generator + oracle + non-trivial rule"},
    ],
    "checks": [],
    "not_applicable": [],
    "notes": "All checks are property-based tests / fuzzers with explicit oracles (see DESIGN.md). Exit 2 = inconclusive (build failure, watchdog, degenerate generator), never a violation. known_findings.json lists confirmed defects.",
}
for id in ids:
    if id in CHECKS:
        c = CHECKS[id]
        manifest["checks"].append({
            "property_id": id,
            "quick_cmd": f"./check {id} quick",
            "thorough_cmd": f"./check {id} thorough",
            "evidence_file": f"/verif/evidence/{id}.json",
            "replay_cmd_template": f"./check {id} --replay {{path}}",
            "engine": c["engine"],
            "level_claimed": {"category": c["level"], "text": c["text"], "design_ref": f"DESIGN.md §5 {id}"},
            "level_note": c["note"],
            "technique": c["technique"],
        })
    else:
        manifest["not_applicable"].append({"property_id": id, "reason": NOT_YET})
json.dump(manifest, open(os.path.join(ROOT, "MANIFEST.json"), "w"), indent=1)
print("checks:", len(manifest["checks"]), "not_applicable:", len(manifest["not_applicable"]))
