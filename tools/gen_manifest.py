#!/usr/bin/env python3
"""Generates /verif/MANIFEST.json from the table below (single source of truth for the interface)."""
import json, subprocess, os

ROOT = os.path.dirname(os.path.dirname(os.path.abspath(__file__)))
props = [json.loads(l) for l in open(os.path.join(ROOT, "properties.jsonl"))]
ids = [p["id"] for p in props]

# id -> dict(engine, level, text, note, technique, design_ref)
CHECKS = {}
def add(id, engine, level, text, note, technique):
    CHECKS[id] = dict(engine=engine, level=level, text=text, note=note, technique=technique)

add("C34", "component", "exploration",
    "Generated numeric configurations (boundary pools incl. overflow range, constructive placement at -2..+2 around every comparison) are fed to RaftConfig::validate / RaftNodeConfig::validate; every accepted one is re-judged in u128 arithmetic against the property's inequalities. Exploration is the right level: the domain is 9 u64 fields and the oracle is exact, so hundreds of thousands of boundary-focused cases per run decide realistic comparison/overflow mistakes.",
    "Trusts that validate() is the entry point users go through; snapshots_dir is a writable scratch dir so directory validation never masks numeric checks.",
    "property-based testing (proptest), exact arithmetic oracle over generated configurations")


SIM = 'cluster simulator: real Raft<SimT> nodes wired like NodeBuilder (BufferedRaftLog, election/replication/commit handlers, state-machine worker, server RaftMembership) over a simulated network, disk and state machine under a paused tokio clock; proptest-generated fault/operation scenarios; '
SIMNOTE = "Trusted base: the simulated transport/disk/state machine honour the documented trait contracts (disk: page-cache vs durable image; MetaStore save durable on return); timing is virtual (paused tokio clock), so interleavings are those reachable through message delays, faults and task scheduling, not instruction-level races. tokio's select! and std HashMap ordering are not seedable: a failing scenario is saved with its full recorded history (<replay>.trace.json) because a replay may take another schedule."
PBT = "property-based testing (proptest): "
def sim(id, text, technique, note=""):
    add(id, "dverif", "exploration", SIM + text, SIMNOTE + (" " + note if note else ""), PBT + technique)

sim("C01", "oracle Leaders(T) <= 1 over the whole multi-incarnation message history (AppendEntries sent as leader, leader notifications). 3-, 4- and 5-voter clusters. Exploration of thousands of partition/crash/restart schedules per run is the level a history property over real code admits; absence is not established.",
    "stateful scenario generation, history invariant (at most one leader per term)")
sim("C02", "oracle: per (node, term) at most one candidate voted for and no term regression across process crashes (at any task switch of the node) and graceful restarts; the simulated MetaStore is durable on return as its contract states. Crash points inside one synchronous handler block (reply sent before persist) are out of reach (DESIGN 10.9).",
    "stateful scenario generation with crash injection, history invariant over votes/terms across incarnations")
sim("C03", "oracle: a node acting as leader of term T while its own voter view has >1 members must have received granted votes from a majority of that view before; clusters bootstrapped with 1 node and expanded by join+promotion.",
    "stateful scenario generation (membership + elections), history invariant (votes received before leading)")
sim("C04", "oracle evaluated at every checkpoint on the real logs of all nodes: equal (index, term) implies equal payload and equal prefix (down to the purge boundaries).",
    "stateful scenario generation, pairwise log-matching invariant on real node logs")
sim("C05", "oracle: the committed sequence (first commit of each index by any leader) is never contradicted — no second value committed at an index, no node that held a committed entry overwrites or drops it, every later-term leader holds it.",
    "stateful scenario generation with crashes, committed-sequence reference model")
sim("C06", "oracle over the state machines' apply logs: per incarnation indexes are applied in order without gap or repetition, the command applied at index i is the committed one on every node, and each node's state equals the reference model folded over its applied prefix; the apply stream includes membership entries (learner joins, promotions, failing config changes on restarted nodes).",
    "stateful scenario generation, differential against a reference state machine model")
sim("C09", "oracle: at every commit-index advance of a leader, a majority of the CURRENT voter set (per the leader's membership at that instant, old/new set tolerated around config entries) holds the entry, and the entry at the new commit index is of the leader's term; clusters of 1/3/5 voters that grow by learner joins and promotions.",
    "stateful scenario generation, quorum-counting oracle over recorded logs and acknowledgements")
sim("C10", "oracle: per-key Wing-Gong linearizability search over acknowledged writes (required), indeterminate writes (optional) and linearizable reads including final reads after heal + restart; slow disks (acknowledged entries memory-only for a while), simultaneous graceful shutdown of the whole cluster. Auxiliary engine (evidence C10.close.json): one real BufferedRaftLog over the simulated disk, generated append/yield/latency sequences followed by close(): every accepted entry must be in the store after the graceful close.",
    "stateful scenario generation, linearizability checker (per-key Wing-Gong search) as oracle")
sim("C11", "oracle: every successful read under the linearizable policy must fit the per-key linearizability search together with the writes; scenarios biased to isolated leaders, apply lag, late acknowledgements.",
    "stateful scenario generation, linearizability checker as oracle")
sim("C12", "oracle: with the simulator's perfect clock a LeaseRead answered by a node after another node established a higher term is a violation (whether lease reads also fit a linearization is recorded only). The configuration clause of C12 (validation rejects every lease window not shorter than the minimum election timeout, for every read configuration) is decided by an auxiliary engine (evidence C12.config.json): generated numeric + read-policy configurations against RaftConfig::validate with an exact u128 oracle.",
    "stateful scenario generation under a virtual clock, deposed-leader + linearizability oracles",
    "Only the Raft-loop lease path is driven; the lock-free fast-path readers use the same ReadLease object but their thread-level races are out of reach.")
sim("C14", "oracle: a write answered with a definite rejection (not leader / backpressure / invalid) is never found in any node's committed log or applied state.",
    "stateful scenario generation with unique write payloads, history invariant (rejected implies never applied)")
sim("C26", "oracle: at every instant, for every pair of nodes, any majority of node A's voter set intersects any majority of node B's voter set (joins, batch promotion, apply lag, elections during the change).",
    "stateful scenario generation (membership changes), quorum-intersection predicate over sampled views")
sim("C27", "oracle: learners never vote nor campaign, a join of an existing member is rejected, a join is answered only after its AddNode entry is committed; quorum math over voters only.",
    "stateful scenario generation (joins, duplicates), history invariants over votes / join responses")
sim("C28", "oracle: after every restart, a node's membership view equals the model = initial config + every committed membership change it had applied before the restart.",
    "stateful scenario generation (membership + restarts), model replay of applied config changes")
sim("C29", "oracle: a write is acknowledged only after its own entry is committed and applied on the leader, and the CAS result returned equals the outcome of applying it in log order.",
    "stateful scenario generation, response-vs-apply-log oracle")
sim("C30", "oracle: every client write is answered (success or definite error) within the bound once its leader steps down / its entry commits; no request is left hanging by leader changes, partial batches or step-down.",
    "stateful scenario generation, bounded-response invariant in virtual time")
sim("C31", "oracle: the (leader, term) notifications published by each node are monotone in term, name at most one leader per term, and only name nodes that led that term.",
    "stateful scenario generation, history invariant over leader notifications")
sim("C32", "bounded liveness in virtual time: after all faults stop, within 100 x election_timeout_max a probe write succeeds and every live voter applies it.",
    "stateful scenario generation, bounded-liveness oracle under a virtual clock",
    "Liveness is only checked as a bound in virtual time; 'eventually' beyond the bound is not claimed.")
add("C07", "dverif", "exploration",
    "Two engines. (1) Component: the real follower AppendEntries handler + BufferedRaftLog driven by generated leader/follower logs and scripts of held, duplicated, reordered and capped requests; oracle: commit index never exceeds min(leader_commit, last index covered by the request) and every entry at or below it equals the leader's. (2) Cluster monitor on the simulator: no non-leader commits beyond what some leader has committed and everything at/below its commit index equals the committed sequence.",
    "Component engine trusts the generated 'Log-Matching-consistent world'; cluster monitor shares the simulator's trusted base.",
    PBT + "generated request scripts against the real follower path with a reference log model; plus simulator history invariant")
add("C08", "dverif", "exploration",
    "The real ReplicationHandler::build_append_request / leader log + real follower handlers driven over generated leader logs (purge boundary, cap 1..8), peers with arbitrary next_index and matching/shorter/longer/diverging follower logs; oracle: every request carries consecutive indexes starting at prev+1 with the true prev term, and after the exchange the follower log is a prefix-consistent copy; match_index never exceeds what the follower holds.",
    "Single leader term per case; transport is a direct call.",
    PBT + "generated leader/follower log pairs, reference model of the expected request and resulting follower log")
add("C19", "dverif", "exploration",
    "Op sequences (append, conflict-aware append of every prev/overlap shape, purge, reset, election storms beyond 1024 term boundaries) on the real BufferedRaftLog; oracle: entry_term / last_log_id / first index / term-segment lookups equal a naive Vec model after every op.",
    "MemFirst strategy on an in-memory store; disk behaviour is C18/C20.",
    PBT + "stateful op sequences against a naive reference log model")
add("C16", "dverif", "exploration",
    "Real state machines (File, RocksDB) + DefaultStateMachineHandler::create_snapshot / apply_snapshot over generated logs with non-idempotent CAS bursts, TTLs, term bumps, entries applied while the snapshot is in flight; oracle: installed state + replay of the suffix equals the reference model, snapshot metadata (index, term) equals the boundary entry.",
    "Snapshot transfer is local file copy; compression as configured by default.",
    PBT + "generated logs and snapshot points, differential against reference KV model")
add("C17", "dverif", "exploration",
    "Real snapshot receiver fed generated chunk streams with drop/dup/swap/corruption/leader change/early close mutations; oracle: either the exact source snapshot is installed or the receiver state is unchanged, never a mix.",
    "Chunks are delivered through the receiver API, not through tonic.",
    PBT + "generated chunk-stream mutations, all-or-nothing oracle against source snapshot")
add("C18", "dverif", "fault_enumeration",
    "Op sequences on the real BufferedRaftLog over a simulated disk: EVERY store mutation event of every case is judged under both a process-crash and a power-loss image (plus child-process crash points on the real File/RocksDB engines); oracle on the reopened log: contiguous indexes, every entry ever covered by durable_index()/flush()==Ok present with identical content unless later truncated/purged/reset, replaced entries gone.",
    "Real engines: process crash only (no torn writes / power loss). tokio select! order is not seedable; the oracle only uses facts of the same run.",
    PBT + "stateful op sequences with exhaustive crash-point enumeration per case, durability oracle")
add("C20", "dverif", "exploration",
    "Op sequences (persist any order, truncate, replace_range, purge, reset, flush, reopen, crash inside replace_range) on FileLogStore and RocksDBLogStore against a BTreeMap reference and against each other: entry(i), ranges, last_index, purge boundary after every op and reopen.",
    "Process crash only; index 0 and inverted ranges not generated (undocumented).",
    PBT + "differential: two real log stores vs reference map, stateful op sequences")
add("C21", "dverif", "fault_enumeration",
    "1..6 save_hard_state calls on the File and RocksDB meta stores; every crash point (each hook hit inside a save + after each return) executed in its own aborting child process; oracle after reopen: load_hard_state is the previous or the in-flight value, exactly the saved value once save returned, never None/err after a first save.",
    "Process crash (abort) only; the ~30-byte write is not torn.",
    PBT + "generated save sequences with exhaustive crash-point enumeration in child processes")
add("C15", "dverif", "fault_enumeration",
    "Generated apply/flush sequences (non-idempotent CAS chains) on the File and RocksDB state machines; every crash point (hook hits + after each op) executed in an aborting child; oracle: recovered last_applied a' <= N and re-applying (a', N] yields exactly model(1..N).",
    "Process crash only; time-based checkpoints are driven explicitly (paused clock).",
    PBT + "generated op sequences with exhaustive crash-point enumeration, exactly-once oracle vs reference model")
add("C22", "dverif", "exploration",
    "Command sequences with two generated chunkings applied to File (both chunkings) and RocksDB; oracle: apply results (index, succeeded), get/get_multi/scan_prefix equal the chunking-independent reference model; engines agree with each other.",
    "Single-threaded apply; empty scan prefix excluded (engines document different behaviour).",
    PBT + "differential: File vs RocksDB vs reference KV model, metamorphic over chunkings")
add("C23", "dverif", "exploration",
    "Histories of put/put-ttl/CAS/delete, virtual clock advance, cleanup, flush, restart{stop,close,drop,crash}, snapshot install on both engines; oracle (per-key model with +-1 s margin): TTL keys readable before the deadline, gone after cleanup past it, plain writes cancel TTLs, all across restarts and snapshot installs.",
    "Virtual wall clock hook; verdicts inside +-1 s of a deadline are not judged.",
    PBT + "stateful histories against a per-key TTL model under a virtual clock")
add("C24", "dverif", "exploration",
    "The exact NodeBuilder watch wiring (broadcast channel, WatchRegistry, WatchDispatcher, DefaultStateMachineHandler) over a real FileStateMachine; generated register/drop/drain/apply schedules with tiny queues; oracle per watcher: events map 1:1 to committed mutations in scope, strictly increasing revisions, no gap unless ended by CANCELED, nothing after CANCELED.",
    "Single runtime thread with paused clock: register/dispatch races only in backlog form; gRPC stream layer not exercised.",
    PBT + "stateful watcher schedules, per-watcher event-stream oracle against the mutation log")
add("C25", "dverif", "exploration",
    "Prefixes with carry/0xFF shapes, keys around the successor bound, scans interleaved with an apply at hook points; oracle: entries == model(1..=revision) filtered by starts_with, revision == last applied at rest.",
    "Interleaving only at the instrumented yield/crash points.",
    PBT + "generated keyspaces and interleavings, reference model filtered by prefix")
add("C35", "dverif", "exploration",
    "Real single-node engines (File/RocksDB) read through 10 paths (embedded cmd/fast paths, state machine direct, handler, gRPC fast path / cmd path); oracle: result[i] == model.get(keys[i]) positionally with duplicates, missing keys and empty values.",
    "Single node; no concurrent writes during reads.",
    PBT + "generated key lists, positional differential against a map model over every read path")
add("C37", "dverif", "exploration",
    "Writes with extreme byte strings / TTLs submitted through EmbeddedClient and the real gRPC server; a recording state machine captures what reaches apply; oracle: recorded commands == acknowledged submissions field by field (None vs Some(empty) preserved, TTL 0 = none).",
    "Single node with File storage; TTL > 10 years clamped before the inner state machine.",
    PBT + "round-trip: submitted command vs command observed at apply, over both client paths")

add("C36", "dverif", "exploration",
    "Differential on a real follower (Raft<SimT> loop, real log, replication/commit handlers, state-machine worker): a generated queue of AppendEntries built from real leader logs (consecutive, heartbeats, overlapping re-sends, non-contiguous, leader changes, merge limit 1..12|100) is run with all requests queued before the loop runs (merge path) and one at a time (no merge) on two fresh nodes; oracle: identical final log, commit index and applied sequence, every sender answered, same kind of acknowledgement, match index within [own one-at-a-time value, last one-at-a-time value of that term].",
    "Requests are ones a leader can send (true prev term, FIFO commit order). The term field of success/conflict answers and conflict hints are not compared (a merged group shares one answer).",
    PBT + "metamorphic/differential: merged vs one-at-a-time delivery of generated request queues")

add("C13", "dverif", "exploration",
    "Real three-node clusters (three EmbeddedEngines with File storage, real gRPC servers on loopback), one per server read configuration (default policy x allow_client_override); generated reads = (node role leader|follower, API path: EmbeddedClient methods, ClientApi trait, raw gRPC handle_client_read sent to that node, requested policy incl. none, key, optional fresh write before); oracle = the property's routing table: effective policy = requested if given and overrides allowed else server default; non-leader + Linearizable/Lease => refused as not-leader, never data; non-leader + Eventual => an acknowledged value; leader => latest acknowledged value.",
    "Real time: a case whose leader changes or that meets timeouts gives no verdict. Roles = stable leader / stable follower (deposed-leader windows are C12's, on the simulator).",
    PBT + "generated (role, path, policy, config) combinations on real clusters against a routing-table oracle")

sim("C33", "snapshots enabled (threshold 1..30, retained 1..3), write bursts, lagging/cut-off/crashed followers below the leader's purge boundary, leader and full-cluster restarts; oracle: (a) at every step each node's purge boundary <= highest committed index and <= last_included of the snapshot it holds, (b) committed entries are not lost by compaction, (c) bounded liveness: after the faults stop a probe write succeeds and every live voter applies it within 100 x election_timeout_max — by log or by snapshot, (d) final state of every node == reference model over the committed prefix (snapshot installs included). Auxiliary engine (evidence C33.engines.json): real File and RocksDB state machines + real snapshot handler: a node that installed a snapshot (after applying a prefix of its own) is restarted; it must still know the snapshot it holds.",
    "stateful scenario generation with snapshots/purge, purge-boundary invariants + bounded catch-up + model-state oracle",
    "The simulated state machine and log store persist snapshot metadata / purge boundary correctly; persistence of these by the File/RocksDB engines is decided by C15/C16/C18/C20.")

NOT_YET = "check not built yet; to be decided by property-based testing per DESIGN.md §5 (no other technique substituted)"

def hooks_commits():
    try:
        out = subprocess.check_output(["git", "-C", "/repo", "log", "--format=%H %s"], text=True)
        return [l.split()[0] for l in out.splitlines() if "verif hooks:" in l]
    except Exception:
        return []

manifest = {
    "version": 1,
    "setup_cmd": "cd /verif/harness && CARGO_NET_OFFLINE=true cargo build --offline",
    "hooks": {
        "guard": "cargo feature `__verif` on d-engine-core and d-engine-server (off by default)",
        "enable": "the harness crate /verif/harness depends on /repo's crates by path with features [\"__verif\"]; every ./check invocation runs `cargo build --offline` first, rebuilding d-engine from /repo's working tree (incremental compilation off: the binary is a function of that tree alone; a rebuild after a d-engine change takes about 4 min on 16 cores, an unchanged tree < 1 s)",
        "baseline_off_cmd": "cd /repo && cargo nextest run --workspace --no-fail-fast --test-threads 8 --offline",
        "source_commits": hooks_commits(),
        "add_only": True,
    },
    "engines": [
        {"name": "dverif", "path": "/verif/harness", "serves_properties": sorted(CHECKS.keys()),
         "kind_free_text": "one Rust binary; proptest TestRunner driven from main (seeded by VERIF_SEED, 16 worker threads, shrinking, JSON replay files), per-property modules with generator + oracle + non-trivial rule"},
    ],
    "checks": [],
    "not_applicable": [],
    "notes": "All checks are property-based tests / fuzzers with explicit oracles (see DESIGN.md). Exit 2 = inconclusive (build failure, watchdog, degenerate generator), never a violation. known_findings.json lists confirmed defects.",
}
for id in ids:
    if id in CHECKS:
        c = CHECKS[id]
        manifest["checks"].append({
            "property_id": id,
            "quick_cmd": f"./check {id} quick",
            "thorough_cmd": f"./check {id} thorough",
            "evidence_file": f"/verif/evidence/{id}.json",
            "replay_cmd_template": f"./check {id} --replay {{path}}",
            "engine": c["engine"],
            "level_claimed": {"category": c["level"], "text": c["text"], "design_ref": f"DESIGN.md §5 {id}"},
            "level_note": c["note"],
            "technique": c["technique"],
        })
    else:
        manifest["not_applicable"].append({"property_id": id, "reason": NOT_YET})
json.dump(manifest, open(os.path.join(ROOT, "MANIFEST.json"), "w"), indent=1)
print("checks:", len(manifest["checks"]), "not_applicable:", len(manifest["not_applicable"]))
