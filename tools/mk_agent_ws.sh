#!/bin/bash
# Creates an isolated workspace for a helper agent: own git worktree of /repo, own copy of the harness,
# own cargo target dir (warm copy), own VERIF_ROOT. Usage: tools/mk_agent_ws.sh <name>
set -e
N="$1"; WS="/tmp/ws/$N"
rm -rf "$WS"; mkdir -p "$WS"
git -C /repo worktree prune
git -C /repo worktree add --detach "$WS/repo" HEAD >/dev/null
cp -r /verif/harness "$WS/harness"
sed -i "s|/repo/|$WS/repo/|g" "$WS/harness/Cargo.toml"
cat > "$WS/harness/.cargo/config.toml" <<EOC
[net]
offline = true
[build]
target-dir = "$WS/target"
EOC
cp -r /verif/target "$WS/target"
mkdir -p "$WS/evidence" "$WS/replays" "$WS/work"
cp /verif/known_findings.json /verif/properties.jsonl /verif/DESIGN.md "$WS/"
cat > "$WS/run.sh" <<EOC
#!/bin/bash
# usage: ./run.sh <Cxx> [dverif args...]   (builds, then runs with VERIF_ROOT=$WS)
cd $WS/harness && cargo build --offline 2>&1 | grep -E "^(error|warning: unused)" -A8 | head -80
export VERIF_ROOT=$WS
cd $WS && exec $WS/target/debug/dverif "\$@"
EOC
chmod +x "$WS/run.sh"
echo "$WS ready"
