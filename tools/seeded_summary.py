#!/usr/bin/env python3
"""Prints the markdown table of seeded breaking changes (seeded/<id>/meta.json + result.json)."""
import json, os, glob

root = os.path.join(os.path.dirname(os.path.dirname(os.path.abspath(__file__))), "seeded")
rows = []
for d in sorted(glob.glob(os.path.join(root, "C*")) + glob.glob(os.path.join(root, "C*", "v[0-9]*"))):
    pid = os.path.relpath(d, root)
    meta = {}
    res = {}
    try:
        meta = json.load(open(os.path.join(d, "meta.json")))
    except Exception:
        pass
    try:
        res = json.load(open(os.path.join(d, "result.json")))
    except Exception:
        pass
    summary = (meta.get("summary") or "").replace("\n", " ").replace("|", "/")
    if len(summary) > 230:
        summary = summary[:227] + "..."
    has_patch = os.path.exists(os.path.join(d, "patch.diff"))
    if not has_patch:
        verdict = "no change produced"
    elif not res:
        verdict = "not evaluated yet"
    elif res.get("caught"):
        verdict = "caught: `%s`" % res.get("signature", "")
    elif res.get("applies") is False and not res.get("caught"):
        verdict = "patch does not apply"
    else:
        verdict = "MISSED (quick, seed %s)" % res.get("seed", 1)
    note = res.get("note", "")
    rows.append((pid, summary, verdict, note))
print("| property | seeded change | `./check <id> quick` |")
print("|---|---|---|")
for pid, summary, verdict, note in rows:
    print("| %s | %s | %s%s |" % (pid, summary, verdict, (" — " + note) if note else ""))
