#!/bin/bash
# usage: tools/repo_guard.sh   — run before every commit of /verif and at the end of a session.
# /repo must hold nothing but committed "verif hooks:" and "fix:" changes on top of the pinned snapshot: a seeded
# change left in the working tree is committed by whoever snapshots the sandbox and then IS the tree under test
# (that happened once: DESIGN.md 10.10). New seeded changes are authored in the /tmp/evalws worktree, never in /repo.
RC=0
if [ -n "$(git -C /repo status --porcelain)" ]; then echo "repo_guard: /repo has uncommitted changes:"; git -C /repo status --short; RC=1; fi
BAD=$(git -C /repo log --format='%h %s' | grep -v -E '^[0-9a-f]+ (fix:|verif hooks:|snapshot$|round [0-9]+: )')
if [ -n "$BAD" ]; then echo "repo_guard: commits that are neither hooks nor fixes:"; echo "$BAD"; RC=1; fi
if git -C /repo worktree list | grep -q -v '^/repo '; then echo "repo_guard: extra worktrees:"; git -C /repo worktree list; RC=1; fi
[ $RC -eq 0 ] && echo "repo_guard: /repo clean at $(git -C /repo log -1 --format=%h)"
exit $RC
