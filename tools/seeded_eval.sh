#!/bin/bash
# usage: tools/seeded_eval.sh <ID> [seed]   — applies /verif/seeded/<ID>/patch.diff to /repo, runs the quick check, undoes it
ID=$1; SEED=${2:-1}
D=/verif/seeded/$ID
cd /verif
if [ -n "$(git -C /repo status --porcelain)" ]; then echo "$ID: /repo not clean, refusing"; exit 3; fi
if git -C /repo apply --check $D/patch.diff 2>/dev/null; then git -C /repo apply $D/patch.diff; HOW=apply
elif git -C /repo apply --3way $D/patch.diff >/dev/null 2>&1; then HOW=3way; git -C /repo reset -q
else echo "$ID: patch does not apply to HEAD"; python3 - <<P
import json
json.dump({"property":"$ID","applies":False},open("$D/result.json","w"),indent=1)
P
exit 4; fi
S=$(date +%s)
OUT=$(VERIF_SEED=$SEED ./check $ID quick 2>&1); RC=$?
E=$(( $(date +%s) - S ))
SIG=$(echo "$OUT" | grep -o "violation signature=[^ ]*" | head -1 | cut -d= -f2)
LINE=$(echo "$OUT" | grep -E "^$ID quick:" | tail -1)
git -C /repo checkout -- . ; git -C /repo clean -fdq
REPLAY=$(echo "$OUT" | grep -o "replay=[^ ]*" | head -1 | cut -d= -f2)
[ -n "$REPLAY" ] && rm -f "$REPLAY" "${REPLAY%.json}.trace.json"
python3 - <<P
import json
json.dump({"property":"$ID","applies":True,"how":"$HOW","check_exit":$RC,"caught":$RC==1,"signature":"$SIG","summary":"""$LINE""","seconds":$E,"seed":$SEED},open("$D/result.json","w"),indent=1)
P
echo "$ID rc=$RC caught=$([ $RC -eq 1 ] && echo yes || echo NO) sig=$SIG ${E}s | $LINE"
