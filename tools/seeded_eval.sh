#!/bin/bash
# usage: tools/seeded_eval.sh <ID>[/variant] [seed]
# Applies /verif/seeded/<ID>/patch.diff to a d-engine tree, runs the property's quick check against it and undoes
# the patch. By default this happens in the evaluation workspace /tmp/evalws (own git worktree of /repo at the
# commit it was created from, own copy of the harness sources synced from /verif/harness, own target dir), so
# /repo itself is never touched; with EVAL_IN_PLACE=1 it uses /repo + /verif as the task brief describes
# (git -C /repo apply ... ; ./check ... ; git -C /repo checkout -- .).
ID=$1; SEED=${2:-1}
PID=${ID%%/*}   # "C04/v2" = second seeded change for C04, kept in seeded/C04/v2/
D=/verif/seeded/$ID
if [ "${EVAL_IN_PLACE:-0}" = 1 ]; then REPO=/repo; ROOT=/verif; else
  ROOT=/tmp/evalws; REPO=$ROOT/repo
  if [ ! -d $REPO ]; then
    # (re)create the evaluation workspace: worktree of /repo at its current HEAD, copy of the harness whose path
    # dependencies point at that worktree, own target dir (first build compiles everything, RocksDB included)
    mkdir -p $ROOT/evidence $ROOT/replays $ROOT/work
    git -C /repo worktree prune; git -C /repo worktree add --detach $REPO HEAD >/dev/null 2>&1
    rsync -a --exclude target /verif/harness/ $ROOT/harness/
    sed -i "s|/repo/|$REPO/|g" $ROOT/harness/Cargo.toml
    printf '[net]\noffline = true\n[build]\ntarget-dir = "%s/target"\n' $ROOT > $ROOT/harness/.cargo/config.toml
    cp /verif/properties.jsonl $ROOT/; cp -r /verif/replays/* $ROOT/replays/ 2>/dev/null
  fi
  rsync -a --delete /verif/harness/src/ $ROOT/harness/src/
  cp /verif/known_findings.json $ROOT/known_findings.json; cp /verif/check $ROOT/check
fi
if [ -n "$(git -C $REPO status --porcelain)" ]; then echo "$ID: $REPO not clean, refusing"; exit 3; fi
# patch_rebased.diff = the same change ported by hand onto the repaired tree where the original no longer applies
if [ -f $D/patch_rebased.diff ] && git -C $REPO apply --check $D/patch_rebased.diff 2>/dev/null; then git -C $REPO apply $D/patch_rebased.diff; HOW=rebased
elif git -C $REPO apply --check $D/patch.diff 2>/dev/null; then git -C $REPO apply $D/patch.diff; HOW=apply
elif git -C $REPO apply --3way $D/patch.diff >/dev/null 2>&1; then HOW=3way; git -C $REPO reset -q
else git -C $REPO reset -q --hard; git -C $REPO clean -fdq
  echo "$ID: patch does not apply to $(git -C $REPO log -1 --format=%h)"
  python3 - <<P
import json
json.dump({"property":"$PID","applies":False,"base":"$(git -C $REPO log -1 --format=%h)"},open("$D/result.json","w"),indent=1)
P
  exit 4; fi
# whatever ends this script (Ctrl-C, TERM, a failing command), the patched tree is put back; a SIGKILL cannot be
# trapped, which is why the default workspace is a worktree outside /repo and EVAL_IN_PLACE is for one-off demos only
trap 'git -C $REPO checkout -- . ; git -C $REPO clean -fdq' EXIT INT TERM
S=$(date +%s)
OUT=$(cd $ROOT && VERIF_ROOT=$ROOT VERIF_SEED=$SEED ./check $PID quick 2>&1); RC=$?
E=$(( $(date +%s) - S ))
SIG=$(echo "$OUT" | grep -o "violation signature=[^ ]*" | head -1 | cut -d= -f2)
LINE=$(echo "$OUT" | grep -E "^$PID quick:" | tail -1)
git -C $REPO checkout -- . ; git -C $REPO clean -fdq
REPLAY=$(echo "$OUT" | grep -o "replay=[^ ]*" | head -1 | cut -d= -f2)
if [ -n "$REPLAY" ]; then mkdir -p $D/found; cp "$REPLAY" $D/found/ 2>/dev/null; rm -f "$REPLAY" "${REPLAY%.json}.trace.json"; fi
python3 - <<P
import json
json.dump({"property":"$PID","applies":True,"how":"$HOW","evaluated_on":"$(git -C $REPO log -1 --format=%h)","check_exit":$RC,"caught":$RC==1,"signature":"$SIG","summary":"""$LINE""","seconds":$E,"seed":$SEED},open("$D/result.json","w"),indent=1)
P
echo "$ID rc=$RC caught=$([ $RC -eq 1 ] && echo yes || echo NO) sig=$SIG ${E}s | $LINE"
