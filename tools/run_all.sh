#!/bin/bash
# usage: tools/run_all.sh <quick|thorough> <seed> [ids...]   — runs the registered checks sequentially, prints a summary line each
TIER=${1:-quick}; SEED=${2:-1}; shift; shift
cd /verif
IDS="$@"
if [ -z "$IDS" ]; then IDS=$(python3 -c "import json;print(' '.join(c['property_id'] for c in json.load(open('MANIFEST.json'))['checks']))"); fi
for id in $IDS; do
  S=$(date +%s)
  OUT=$(VERIF_SEED=$SEED ./check $id $TIER 2>&1); RC=$?
  E=$(( $(date +%s) - S ))
  echo "$id rc=$RC ${E}s | $(echo "$OUT" | grep -E "^$id $TIER:" | tail -1) | known=$(echo "$OUT" | grep -c '^KNOWN-FINDING')"
  if [ $RC -ne 0 ]; then echo "$OUT" | grep -E "VIOLATION|INCONCLUSIVE|violation signature" | cut -c1-600; fi
done
