#!/usr/bin/env python3
"""Print a saved simulator trace (replays/<id>/*.trace.json). usage: trace.py file [t_from t_to] [--node N] [--all]"""
import json,sys
t=json.load(open(sys.argv[1]))
args=sys.argv[2:]
node=None; show_all='--all' in args
if '--node' in args: node=int(args[args.index('--node')+1])
nums=[int(a) for a in args if a.isdigit() and (not '--node' in args or a!=args[args.index('--node')+1])]
lo,hi=(nums+[0,10**12])[:2] if len(nums)>=2 else (0,10**12)
print('violations:',t['checkpoint_violations'][:2])
for ts,e in t['history']:
    if ts<lo or ts>hi: continue
    if isinstance(e,str): print(ts,e); continue
    k=list(e.keys())[0]; v=e[k]
    if not show_all and k in('AeRespDelivered','VoteReqSent'): continue
    if not show_all and k in ('AeSent','AeDelivered') and v.get('n')==0: continue
    if node is not None and isinstance(v,dict):
        ids=[v.get(x) for x in ('from','to','node','voter','candidate')]
        if node not in ids and k not in ('Fault',): continue
    print(ts,k,v)
for n in t['final_nodes']: print('node',n['id'],'inc',n['incarnation'],'log',n['first'],n['last'],'applied',n['last_applied'],'leader',n['is_leader'])
